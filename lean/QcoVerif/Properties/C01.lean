import QcoVerif.Lemmas.TimingSrc
import QcoVerif.Lemmas.C10Timing
import QcoVerif.Lemmas.Graph
import QcoVerif.Generated.ClassTable
/-
  C01 — relation-based timing: every operation sits where its relation says.

  All statements are about the specification evaluator `evStart/evEnd/evDur/evRef` (Model/Timing.lean; the
  driver executes the memoised version of the same equations, cross-checked by the `evalcheck` protocol
  command) and about `World.leafAtAny` / `World.addToGraph` (Model/Builder.lean), which the driver executes.

  `Start w o v` reads "the evaluator answers `v` for the start of `o` at some fuel"; by `ev_mono_step` a defined
  answer does not depend on the fuel.  Definedness itself (acyclicity of the relation structure for every
  API-reachable heap) is NOT proved here — it is false after the R14 history (cyclic relation after
  unroll + flatten); the theorems say what the reported times are whenever they are reported.
-/
namespace Qco.C01

open Qco Qco.C10

/-- the reported start time is well defined (independent of the fuel the evaluator was given). -/
theorem start_well_defined {w : World} {o : Nat} {a b : Int} (ha : Start w o a) (hb : Start w o b) : a = b :=
  Start.unique ha hb

/-- end = start + duration. -/
theorem end_eq_start_add_duration {w : World} {o : Nat} {e : Int} (h : End w o e) :
    ∃ s d, Start w o s ∧ DurV w o d ∧ e = s + d := End.decompose h

/-- an operation whose (effective) link has no reference starts at the origin of its enclosing circuit. -/
theorem no_relation_starts_at_origin {w : World} {o : Nat} {s : Int} (h : Start w o s)
    (hr : RefV w (w.op o).link none) : s = 0 := by
  obtain ⟨d, r, _, hrv, hcase⟩ := Start.decompose h
  have : r = none := RefV.unique hrv hr
  subst this
  rcases hcase with ⟨_, hs⟩ | ⟨r', _, _, hr', _⟩
  · simpa [linkStart] using hs
  · cases hr'

/-- FOLLOWED_BY: starts when the referenced operation ends. -/
theorem followed_by_starts_at_end {w : World} {o r : Nat} {s er : Int} (h : Start w o s)
    (hr : RefV w (w.op o).link (some r)) (hrel : (w.lnk (w.op o).link).rel = .fb) (he : End w r er) : s = er := by
  obtain ⟨d, r0, _, hrv, hcase⟩ := Start.decompose h
  have hr0 : r0 = some r := RefV.unique hrv hr
  subst hr0
  rcases hcase with ⟨hn, _⟩ | ⟨r', sr, er', hr', _, he', hs⟩
  · cases hn
  · cases hr'
    have : er' = er := End.unique he' he
    subst this
    simpa [linkStart, hrel] using hs

/-- JOINED_START: starts when the referenced operation starts. -/
theorem joined_start_starts_at_start {w : World} {o r : Nat} {s sr : Int} (h : Start w o s)
    (hr : RefV w (w.op o).link (some r)) (hrel : (w.lnk (w.op o).link).rel = .js) (hs' : Start w r sr) : s = sr := by
  obtain ⟨d, r0, _, hrv, hcase⟩ := Start.decompose h
  have hr0 : r0 = some r := RefV.unique hrv hr
  subst hr0
  rcases hcase with ⟨hn, _⟩ | ⟨r', sr', er', hr', hsr, _, hs⟩
  · cases hn
  · cases hr'
    have : sr' = sr := Start.unique hsr hs'
    subst this
    simpa [linkStart, hrel] using hs

/-- JOINED_END: ends when the referenced operation ends. -/
theorem joined_end_ends_at_end {w : World} {o r : Nat} {e er : Int} (h : End w o e)
    (hr : RefV w (w.op o).link (some r)) (hrel : (w.lnk (w.op o).link).rel = .je) (he : End w r er) : e = er := by
  obtain ⟨s, d, hs, hd, rfl⟩ := End.decompose h
  obtain ⟨d', r0, hd', hrv, hcase⟩ := Start.decompose hs
  have hdd : d' = d := DurV.unique hd' hd
  subst hdd
  have hr0 : r0 = some r := RefV.unique hrv hr
  subst hr0
  rcases hcase with ⟨hn, _⟩ | ⟨r', sr', er', hr', _, he', hs'⟩
  · cases hn
  · cases hr'
    have : er' = er := End.unique he' he
    subst this
    simp only [linkStart, hrel] at hs'
    omega

/-- a group (latest-of) link refers to a member of the group that ends latest; the first one wins ties. -/
theorem group_reference_is_latest (best : Nat × Int) (xs : List (Nat × Int)) :
    (pickLatest best xs = best ∨ pickLatest best xs ∈ xs) ∧
    best.2 ≤ (pickLatest best xs).2 ∧ ∀ x ∈ xs, x.2 ≤ (pickLatest best xs).2 := by
  unfold pickLatest
  induction xs generalizing best with
  | nil => simp
  | cons x xs ih =>
    simp only [List.foldl_cons, List.mem_cons]
    by_cases hx : x.2 > best.2
    · simp only [hx, if_true]
      obtain ⟨h1, h2, h3⟩ := ih x
      refine ⟨?_, by omega, ?_⟩
      · rcases h1 with h1 | h1
        · exact Or.inr (Or.inl h1)
        · exact Or.inr (Or.inr h1)
      · intro y hy
        rcases hy with rfl | hy
        · exact h2
        · exact h3 y hy
    · simp only [hx, if_false]
      obtain ⟨h1, h2, h3⟩ := ih best
      refine ⟨?_, h2, ?_⟩
      · rcases h1 with h1 | h1
        · exact Or.inl h1
        · exact Or.inr (Or.inr h1)
      · intro y hy
        rcases hy with rfl | hy
        · omega
        · exact h3 y hy

/-! ### uniqueness of the schedule -/

/-- a candidate schedule: start `S`, lead `L`, duration `D` of every object and reference `R` of every link,
    satisfying the local relation equations of the heap `w`. -/
structure Sol (w : World) (S L D : Nat → Int) (R : Nat → Option Nat) : Prop where
  leaf : ∀ o, (w.op o).isComp = false → L o = 0 ∧ D o = w.leafDur (w.op o).dur
  empty : ∀ o, (w.op o).isComp = true → (w.op o).graph.isEmpty = true → L o = 0 ∧ D o = 0
  comp : ∀ o, (w.op o).isComp = true → (w.op o).graph.isEmpty = false →
    (L o, D o) = leadSpan ((heads (w.op o).graph).map S)
      ((listing (w.op o).graph).map (fun n => (S n - L n, S n - L n + D n)))
  start : ∀ o, S o = linkStart (w.lnk (w.op o).link).rel
      ((R (w.op o).link).map (fun r => (S r, S r + D r))) (D o)
  refSingle : ∀ l, (w.lnk l).multi = false → R l = (w.lnk l).refs.head?
  refMulti : ∀ l, (w.lnk l).multi = true → R l =
    match (w.lnk l).refs with
    | [] => none
    | r0 :: _ => some (pickLatest (r0, S r0 + D r0) ((w.lnk l).refs.map (fun r => (r, S r + D r)))).1

theorem mapM_eq_map {α β} (f : α → Option β) (g : α → β) (l : List α) (ys : List β)
    (h : l.mapM f = some ys) (hg : ∀ a ∈ l, ∀ v, f a = some v → v = g a) : ys = l.map g := by
  induction l generalizing ys with
  | nil => simp at h; simp [h]
  | cons x xs ih =>
    rw [List.mapM_cons] at h
    cases hx : f x with
    | none => rw [hx] at h; simp at h
    | some y =>
      rw [hx] at h
      cases hxs : xs.mapM f with
      | none => rw [hxs] at h; simp at h
      | some zs =>
        rw [hxs] at h
        simp only [Option.pure_def, Option.bind_eq_bind, Option.bind_some, Option.some.injEq] at h
        subst h
        rw [List.map_cons, hg x List.mem_cons_self y hx, ih zs hxs (fun a ha v hv => hg a (List.mem_cons_of_mem _ ha) v hv)]

/-- **the schedule is the unique solution of the relation equations**: any assignment of starts, leads,
    durations and references that satisfies the local equations coincides with what the evaluator reports,
    wherever the evaluator reports anything. -/
theorem schedule_unique {w : World} {S L D : Nat → Int} {R : Nat → Option Nat} (sol : Sol w S L D R) : ∀ f : Nat,
    (∀ o v, evLeadSpan w f o = some v → v = (L o, D o)) ∧
    (∀ o v, evInterval w f o = some v → v = (S o - L o, S o - L o + D o)) ∧
    (∀ o v, evDur w f o = some v → v = D o) ∧
    (∀ o v, evStart w f o = some v → v = S o) ∧
    (∀ o v, evEnd w f o = some v → v = S o + D o) ∧
    (∀ l v, evRef w f l = some v → v = R l) := by
  intro f
  induction f with
  | zero =>
    refine ⟨?_, ?_, ?_, ?_, ?_, ?_⟩ <;> intro o v h
    · rw [evLeadSpan.eq_1] at h; cases h
    · rw [evInterval.eq_1] at h; cases h
    · rw [evDur.eq_1] at h; cases h
    · rw [evStart.eq_1] at h; cases h
    · rw [evEnd.eq_1] at h; cases h
    · rw [evRef.eq_1] at h; cases h
  | succ f ih =>
    obtain ⟨ihLS, ihIv, ihD, ihS, ihE, ihR⟩ := ih
    refine ⟨?_, ?_, ?_, ?_, ?_, ?_⟩
    · intro o v h
      rw [evLeadSpan.eq_2] at h
      by_cases hc : (w.op o).isComp = true
      · rw [if_pos hc] at h
        by_cases he : (w.op o).graph.isEmpty = true
        · rw [if_pos he] at h
          obtain ⟨h1, h2⟩ := sol.empty o hc he
          cases h; rw [h1, h2]
        · rw [if_neg he] at h
          have he' : (w.op o).graph.isEmpty = false := by simpa using he
          cases h1 : (heads (w.op o).graph).mapM (fun n => evStart w f n) with
          | none => rw [h1] at h; cases h
          | some hs =>
            rw [h1] at h
            cases h2 : (listing (w.op o).graph).mapM (fun n => evInterval w f n) with
            | none => rw [h2] at h; cases h
            | some ivs =>
              rw [h2] at h
              simp only [Option.bind_eq_bind, Option.bind_some, Option.some.injEq] at h
              have e1 := mapM_eq_map _ S _ hs h1 (fun a _ v hv => ihS a v hv)
              have e2 := mapM_eq_map _ (fun n => (S n - L n, S n - L n + D n)) _ ivs h2 (fun a _ v hv => ihIv a v hv)
              rw [← h, e1, e2]
              exact (sol.comp o hc he').symm
      · rw [if_neg hc] at h
        have hc' : (w.op o).isComp = false := by simpa using hc
        obtain ⟨h1, h2⟩ := sol.leaf o hc'
        cases h; rw [h1, h2]
    · intro o v h
      rw [evInterval.eq_2] at h
      cases h1 : evStart w f o with
      | none => rw [h1] at h; cases h
      | some s =>
        rw [h1] at h
        cases h2 : evLeadSpan w f o with
        | none => rw [h2] at h; cases h
        | some ls =>
          rw [h2] at h
          have hs := ihS o s h1
          have hl := ihLS o ls h2
          subst hs; subst hl
          simp only [Option.bind_eq_bind, Option.bind_some, Option.some.injEq] at h
          exact h.symm
    · intro o v h
      rw [evDur.eq_2] at h
      cases h1 : evLeadSpan w f o with
      | none => rw [h1] at h; cases h
      | some ls =>
        rw [h1] at h
        have hl := ihLS o ls h1
        subst hl
        simpa using h.symm
    · intro o v h
      rw [evStart_succ] at h
      cases h1 : evDur w f o with
      | none => rw [h1] at h; cases h
      | some d =>
        rw [h1] at h
        have hd := ihD o d h1
        subst hd
        cases h2 : evRef w f (w.op o).link with
        | none => rw [h2] at h; cases h
        | some r =>
          rw [h2] at h
          have hr := ihR _ r h2
          cases r with
          | none =>
            simp only [Option.bind_eq_bind, Option.bind_some, Option.some.injEq] at h
            rw [sol.start o, ← hr]; exact h.symm
          | some r =>
            simp only [Option.bind_eq_bind, Option.bind_some] at h
            cases h3 : evStart w f r with
            | none => rw [h3] at h; cases h
            | some s =>
              rw [h3] at h
              cases h4 : evEnd w f r with
              | none => rw [h4] at h; cases h
              | some e =>
                rw [h4] at h
                simp only [Option.bind_some, Option.some.injEq] at h
                have hs := ihS r s h3
                have he := ihE r e h4
                subst hs; subst he
                rw [sol.start o, ← hr]; exact h.symm
    · intro o v h
      rw [evEnd.eq_2] at h
      cases h1 : evStart w f o with
      | none => rw [h1] at h; cases h
      | some s =>
        rw [h1] at h
        cases h2 : evDur w f o with
        | none => rw [h2] at h; cases h
        | some d =>
          rw [h2] at h
          have hs := ihS o s h1
          have hd := ihD o d h2
          subst hs; subst hd
          simpa using h.symm
    · intro l v h
      rw [evRef.eq_2] at h
      by_cases hm : (!(w.lnk l).multi) = true
      · rw [if_pos hm] at h
        have hm' : (w.lnk l).multi = false := by simpa using hm
        rw [sol.refSingle l hm']; simpa using h.symm
      · rw [if_neg hm] at h
        have hm' : (w.lnk l).multi = true := by simpa using hm
        have hR := sol.refMulti l hm'
        cases hr : (w.lnk l).refs with
        | nil => rw [hr] at h hR; simp only at h hR; rw [hR]; simpa using h.symm
        | cons r0 rs =>
          rw [hr] at h hR
          simp only at h hR
          cases h1 : (r0 :: rs).mapM (fun r => (evEnd w f r).map (fun e => (r, e))) with
          | none => rw [h1] at h; cases h
          | some es =>
            rw [h1] at h
            cases h2 : evEnd w f r0 with
            | none => rw [h2] at h; cases h
            | some e0 =>
              rw [h2] at h
              simp only [Option.bind_eq_bind, Option.bind_some, Option.some.injEq] at h
              have e1 := mapM_eq_map _ (fun r => (r, S r + D r)) _ es h1 (by
                intro a _ v hv
                cases hx : evEnd w f a with
                | none => rw [hx] at hv; cases hv
                | some e =>
                  rw [hx] at hv
                  have := ihE a e hx
                  subst this
                  simpa using hv.symm)
              have e0' := ihE r0 e0 h2
              subst e0'
              rw [hR, ← h, e1]

/-! ### implicit placement -/

/-- an operation added without relation is placed behind the LAST node in listing order that shares a channel,
    which is a DEEPEST one in relation steps (depth = length of the path key; the listing is breadth first). -/
theorem implicit_predecessor_is_deepest (g : List Entry) (p : Nat → Bool) {n : Nat}
    (h : (listing g).reverse.find? p = some n) :
    p n = true ∧ ∃ e ∈ g, e.node = n ∧ ∀ e' ∈ g, p e'.node = true → e'.key.length ≤ e.key.length := by
  unfold listing at h
  rw [← List.map_reverse, List.find?_map] at h
  cases hf : (sortedEntries g).reverse.find? (p ∘ fun e => e.node) with
  | none => rw [hf] at h; cases h
  | some e =>
    rw [hf] at h
    simp only [Option.map_some, Option.some.injEq] at h
    subst h
    obtain ⟨hp, hmem, hdeep⟩ := last_match_deepest (sortedEntries_depth_sorted g) hf
    refine ⟨by simpa using hp, e, (sortedEntries_perm g).mem_iff.mp hmem, rfl, ?_⟩
    intro e' he' hp'
    exact hdeep e' ((sortedEntries_perm g).mem_iff.mpr he') (by simpa using hp')

/-- `leafAtAny` is that selection, with "shares a channel" = `ChId.matches` on some pair of identifiers. -/
theorem leafAtAny_spec (w : World) (g : List Entry) (chs : List ChId) {n : Nat} (h : w.leafAtAny g chs = some n) :
    (chs.any fun a => (w.chansOf n).any fun b => a.matches b) = true ∧
    ∃ e ∈ g, e.node = n ∧ ∀ e' ∈ g,
      (chs.any fun a => (w.chansOf e'.node).any fun b => a.matches b) = true → e'.key.length ≤ e.key.length :=
  implicit_predecessor_is_deepest g _ h

/-- … and when no node shares a channel the operation is hung under the root (starts with the circuit). -/
theorem leafAtAny_none (w : World) (g : List Entry) (chs : List ChId) (h : w.leafAtAny g chs = none) :
    ∀ e ∈ g, (chs.any fun a => (w.chansOf e.node).any fun b => a.matches b) = false := by
  intro e he
  unfold World.leafAtAny at h
  rw [List.find?_eq_none] at h
  have hm : e.node ∈ (listing g).reverse := by
    rw [List.mem_reverse]; exact mem_listing_iff.mpr ⟨e, he, rfl⟩
  simpa using h e.node hm

/-- the implicit link: an operation without relation for which a channel-sharing node `lf` exists is hung
    under `lf` and receives a fresh single FOLLOWED_BY link to `lf`. -/
theorem add_implicit_link (w : World) (g : List Entry) (o lf : Nat) (ho : o < w.ops.size)
    (hrel : w.hasRel o = false) (hleaf : w.leafAtAny g (w.chansOf o) = some lf) :
    (w.addToGraph g o).2 = attach g (some lf) o ∧
    (w.addToGraph g o).1.lnk ((w.addToGraph g o).1.op o).link = ({ refs := [lf], rel := .fb } : Link) := by
  constructor
  · unfold World.addToGraph
    simp only [hrel, hleaf, Bool.not_false, if_true]
  · unfold World.addToGraph
    simp [hrel, hleaf, World.newLink, World.setLink, World.setOp, World.op, World.lnk, ho]

/-- … and with no channel-sharing node it is hung under the root and keeps its (reference-less) link. -/
theorem add_first_in_channel (w : World) (g : List Entry) (o : Nat)
    (hrel : w.hasRel o = false) (hleaf : w.leafAtAny g (w.chansOf o) = none) :
    w.addToGraph g o = (w, attach g none o) := by
  unfold World.addToGraph
  simp only [hrel, hleaf, Bool.not_false, if_true]

/-- an explicit relation whose reference is a node of the graph is kept: the operation is hung under it. -/
theorem add_explicit_kept (w : World) (g : List Entry) (o r : Nat)
    (hrel : w.hasRel o = true) (href : w.refOf (w.op o).link = some (some r)) (hin : inGraph g r = true) :
    w.addToGraph g o = (w, attach g (some r) o) := by
  unfold World.addToGraph
  simp only [hrel, href, hin, Bool.not_true, Bool.false_eq_true, if_false, if_true]

/-! ### the per-class inputs of the schedule ARE what the live classes say (regenerated on every run) -/

def durCode : Dur → String
  | .fixed d => s!"f{d}" | .reg k => s!"r{k}" | .decoupling => "d"
  | .glob .ro => "gR" | .glob .mw => "gM" | .glob .fl => "gF" | .glob .rs => "gS"

def chanCode : Chan → String
  | .all => "A" | .ro => "R" | .mw => "M" | .fl => "F"

def classRow (c : Cls) : String × String × List (Int × String) × List (Int × String) :=
  (c.name, durCode c.defaultDur,
   (({ cls := c, qs := [7, 9], chan := .fl } : Op).leafChans.map fun x => (x.q, chanCode x.c)),
   (({ cls := c, qs := [3, 1], chan := .ro } : Op).leafChans.map fun x => (x.q, chanCode x.c)))

/-- **default durations and channel identifiers of the model are those of the live classes**: `Gen.classTable` is read
    from probe instances of the 26 leaf classes on every run (default `duration_strategy`, `channel_identifiers` of two
    probes); `Cls.defaultDur` and `Op.leafChans` reproduce it.  These decide every duration, the channel sharing of the
    implicit placement and the double-booking predicate of C10. -/
theorem class_table_matches_source :
    Gen.classTable = (Cls.all.filter (fun c => c != .comp)).map classRow := by decide +kernel

/-- non-vacuity of `Sol`/`schedule_unique`: the heap "Rx180(q0); Wait(q0, 2.0) FOLLOWED_BY it" and its schedule. -/
def exWorld : World :=
  { ops := #[{ cls := .rx180, qs := [0], dur := .glob .mw, link := 1 },
             { cls := .wait, qs := [0], dur := .fixed 16, link := 2 }],
    links := #[{}, {}, { refs := [0] }] }

example : evStart exWorld 10 1 = some 8 ∧ evEnd exWorld 10 1 = some 24 := by decide +kernel


/-! ### tie to the SOURCE TEXT (DESIGN.md §2.3b)

`Gen.PySrc.*` is the mini-Python syntax of `RelationLink.get_start_time`, `MultiRelationLink.reference_node / get_start_time`,
`IDurationComponent.end_time`, `IRelationComponent.has_relation`, `CircuitCompositeOperation.start_time / duration`, regenerated
from the source text on every run.  The theorems run the interpreter of Model/PyLang.lean on that syntax and state that it
computes the model's `linkStart`, `pickLatest`, `start + duration`, `has_relation` — the equations `evStart/evEnd/evRef` of
Model/Timing.lean are made of.  The decorators are part of the statement (`relation_link_start_decorated`): a cache that outlives
the query was finding R1. -/

section SourceTie
open Qco.Py Qco.Gen.PySrc Qco.TimingSrc

theorem relation_link_start_matches_source (rel : Rel) (ref : Option (Nat × Int × Int)) (d : Int) :
    callFn {} RelationLink_get_start_time [linkSelf rel ref, .int d] =
      .int (linkStart rel (ref.map (fun r => (r.2.1, r.2.2))) d) := by
  cases ref with
  | none => cases rel <;> py_simp [RelationLink_get_start_time, linkSelf, refVal, relVal, linkStart]
  | some r =>
    obtain ⟨n, s, e⟩ := r
    cases rel <;> py_simp [RelationLink_get_start_time, linkSelf, refVal, relVal, linkStart, nodeObj]

theorem relation_link_start_decorated :
    RelationLink_get_start_time.decorators = ["query_scoped_cache"] ∧
    MultiRelationLink_get_start_time.decorators = ["query_scoped_cache"] ∧
    MultiRelationLink_reference_node.decorators = ["property"] ∧
    IDurationComponent_end_time.decorators = ["property"] := by decide

theorem end_time_matches_source (s d : Int) :
    callFn {} IDurationComponent_end_time [.obj "ICircuitOperation" 0 [("start_time", .int s), ("duration", .int d)]] =
      .int (s + d) := by
  py_simp [IDurationComponent_end_time]

theorem has_relation_matches_source (rel : Rel) (ref : Option (Nat × Int × Int)) :
    callFn {} IRelationComponent_has_relation [.obj "ICircuitOperation" 5 [("relation_link", linkSelf rel ref)]] =
      .bool ref.isSome := by
  cases ref with
  | none => py_simp [IRelationComponent_has_relation, linkSelf, refVal]
  | some r => obtain ⟨n, s, e⟩ := r; py_simp [IRelationComponent_has_relation, linkSelf, refVal, nodeObj]

theorem multi_reference_node_matches_source (rel : Rel) (refs : List (Nat × Int)) :
    callFn {} MultiRelationLink_reference_node [multiSelf rel refs] =
      (match refs with
       | [] => .none
       | r0 :: _ => encNode (pickLatest r0 refs)) := by
  cases refs with
  | nil => py_simp [MultiRelationLink_reference_node, multiSelf]
  | cons r0 rest =>
    have hbodyEq : MultiRelationLink_reference_node.body =
      [.ifs (.cmp .eq (.call "len" [.attr (.name "self") "_reference_nodes"]) (.int 0)) [.ret (.none)] [],
       .assign "latest_node" (.index (.attr (.name "self") "_reference_nodes") 0),
       .for_ "node" (.attr (.name "self") "_reference_nodes")
         [.ifs (.cmp .gt (.attr (.name "node") "end_time") (.attr (.name "latest_node") "end_time"))
            [.assign "latest_node" (.name "node")] []],
       .ret (.name "latest_node")] := rfl
    unfold callFn
    rw [hbodyEq]
    have harity : (MultiRelationLink_reference_node.params.length != [multiSelf rel (r0 :: rest)].length) = false := rfl
    rw [harity]
    -- the two statements before the loop
    have hself : (bindParams MultiRelationLink_reference_node.params [multiSelf rel (r0 :: rest)] []).get "self" =
        multiSelf rel (r0 :: rest) := by simp [MultiRelationLink_reference_node, bindParams, Vars.get, Vars.set]
    generalize hvs0 : bindParams MultiRelationLink_reference_node.params [multiSelf rel (r0 :: rest)] [] = vs0 at hself
    have hnodes : getAttr {} (multiSelf rel (r0 :: rest)) "_reference_nodes" = .list ((r0 :: rest).map encNode) := by
      simp [multiSelf, getAttr, lookupField, encNode]
    have h1 : exec {} vs0 (.ifs (.cmp .eq (.call "len" [.attr (.name "self") "_reference_nodes"]) (.int 0)) [.ret (.none)] []) =
        .cont vs0 := by
      simp only [exec, eval, evalList, hself, hnodes]
      have hlen : (((rest.length : Int) + 1) == 0) = false := by
        rw [beq_eq_false_iff_ne]; omega
      simp [builtin, Val.elems?, evalCmp, Val.beq, Val.truthy, execBlock, hlen]
    have h2 : exec {} vs0 (.assign "latest_node" (.index (.attr (.name "self") "_reference_nodes") 0)) =
        .cont (vs0.set "latest_node" (encNode r0)) := by
      simp only [exec, eval, hself, hnodes]
      simp [indexVal, Val.elems?, encNode, nodeObj, Val.isErr]
    have hself2 : (vs0.set "latest_node" (encNode r0)).get "self" = multiSelf rel (r0 :: rest) := by
      rw [vars_get_set_other _ _ _ _ (by decide)]; exact hself
    have hiter : (eval {} (vs0.set "latest_node" (encNode r0)) (.attr (.name "self") "_reference_nodes")).elems? =
        some ((r0 :: rest).map encNode) := by
      simp only [eval, hself2, hnodes, Val.elems?]
    obtain ⟨vs', hloop, hlatest⟩ := latest_loop _ rfl (r0 :: rest) (vs0.set "latest_node" (encNode r0)) r0
      (vars_get_set_same _ _ _)
    rw [execBlock, h1]
    simp only []
    rw [execBlock, h2]
    simp only []
    rw [show execBlock {} (vs0.set "latest_node" (encNode r0))
        [.for_ "node" (.attr (.name "self") "_reference_nodes")
          [.ifs (.cmp .gt (.attr (.name "node") "end_time") (.attr (.name "latest_node") "end_time"))
            [.assign "latest_node" (.name "node")] []], .ret (.name "latest_node")] = _ from
      execBlock_for _ _ _ _ _ _ _ hiter]
    rw [hloop]
    simp only [execBlock, exec, eval, hlatest, pickLatest]
    simp

theorem multi_start_matches_source (rel : Rel) (ref : Option (Nat × Int × Int)) (d : Int) :
    callFn multiEnv MultiRelationLink_get_start_time [multiSelfR rel ref, .int d] =
      .int (linkStart rel (ref.map (fun r => (r.2.1, r.2.2))) d) := by
  cases ref with
  | none => cases rel <;> py_simp [MultiRelationLink_get_start_time, multiSelfR, multiEnv, refVal, relVal]
  | some r =>
    obtain ⟨n, s, e⟩ := r
    cases rel <;> py_simp [MultiRelationLink_get_start_time, multiSelfR, multiEnv, refVal, relVal, nodeObj]

/-- `CircuitCompositeOperation.start_time = relation_link.get_start_time(duration = self.duration)` and
    `duration = _lead_and_span()[1]`. -/
theorem composite_start_matches_source (lead span start : Int) :
    callFn { method := fun recv m args => match recv, m, args with
              | .obj "Link" _ _, "get_start_time", [.int d] => if d = span then some (.int start) else Option.none
              | _, _, _ => Option.none }
      Composite_start_time [.obj "CircuitCompositeOperation" 0 [("relation_link", .obj "Link" 1 []), ("duration", .int span)]] =
      .int start ∧
    callFn { method := fun _ m args => match m, args with
              | "_lead_and_span", [] => some (.tuple [.int lead, .int span])
              | _, _ => Option.none }
      Composite_duration [.obj "CircuitCompositeOperation" 0 []] = .int span := by
  constructor
  · py_simp [Composite_start_time]
  · py_simp [Composite_duration]

end SourceTie

end Qco.C01
