import QcoVerif.Lemmas.DefinedUnrollE
/-
  C01, definedness after unrolling — part F: unrolling AGAIN.

  After `applyModifiers` every count below `c` is `fixed 1` (`UnrollSpec.ones`) but the nodes of `c` carry group links,
  so `SingleUnder` no longer holds.  On such a heap (`AllOnes`) a further `applyModifiers` only allocates copies
  (`applyModifiers_ones`: no existing object is written) — and `copy()` keeps the certificate without any side
  condition (`Defined.copy_certified`).  Hence the certificate survives repeated unrolling.
-/
namespace Qco.DefinedUnroll

open Qco Qco.Defined

theorem unrollTop_ones_eq (w : World) (c : Nat) (hrep : (w.op c).rep = .fixed 1) :
    unrollTop w c = (w.copy c).1.setOp c { (w.copy c).1.op c with rep := .fixed 1 } := by
  unfold unrollTop repLoop
  rw [hrep]
  have : w.repCount (.fixed 1) - 1 = 0 := rfl
  rw [this]
  simp only [List.range_zero, List.foldl_nil]

/-- **unrolling a heap whose counts are all `fixed 1` keeps the certificate** (no condition on the links). -/
theorem applyModifiers_ones_certified : ∀ (f : Nat) (w : World) (c g : Nat), TreeBelow w f c → AllOnes w f c → f ≤ g →
    f ≤ w.depthFuel → Closed w → Acyclic w →
    Closed (w.applyModifiers g c) ∧ Acyclic (w.applyModifiers g c) := by
  intro f
  induction f with
  | zero => intro w c g h; exact h.elim
  | succ f ih =>
    intro w c g ht hao hg hf hc ha
    by_cases hcomp : (w.op c).isComp = true
    · cases g with
      | zero => omega
      | succ g =>
        have hnw := applyModifiers_ones (f + 1) w c (g + 1) ht hao hg hf
        rw [applyModifiers_comp w g c hcomp] at hnw ⊢
        obtain ⟨hrep, hkids⟩ := hao hcomp
        have hcl := ht.lt
        have hcs := copy_tree w (f + 1) c ht hf
        obtain ⟨c2, a2, _, _, _⟩ := copy_certified hc ha c hcl
        obtain ⟨c4, a4⟩ := setRep_certified c (.fixed 1) c2 a2
        rw [← unrollTop_ones_eq w c hrep] at c4 a4
        -- the heap before the recursion extends `w`
        have top : NoWrite w (unrollTop w c) := by
          rw [unrollTop_ones_eq w c hrep]
          refine ⟨by rw [setOp_size]; exact Nat.le_of_lt hcs.size, hcs.rreg, ?_⟩
          intro j hj
          rw [op_setOp]
          split
          · rename_i hh
            rw [← hh.1, hcs.old c hcl]
            exact rep_one_eq _ hrep
          · exact hcs.old j hj
        have hgraph : (unrollTop w c).op c = w.op c := top.old c hcl
        rw [hgraph]
        generalize unrollTop w c = w4 at top c4 a4
        have hp : (listing (w.op c).graph).Perm (w.kids c) := listing_perm _
        have key : ∀ (L : List Nat) (wj : World), NoWrite w wj → Closed wj → Acyclic wj → (∀ n ∈ L, n ∈ w.kids c) →
            Closed (L.foldl (fun (w1 : World) n => w1.applyModifiers g n) wj) ∧
            Acyclic (L.foldl (fun (w1 : World) n => w1.applyModifiers g n) wj) := by
          intro L
          induction L with
          | nil => intro wj _ h1 h2 _; exact ⟨h1, h2⟩
          | cons n ns ihL =>
            intro wj h h1 h2 hL
            simp only [List.foldl_cons]
            have hn := hL n List.mem_cons_self
            obtain ⟨k1, _, _, k4⟩ := h.keeps (ht.kid hcomp hn)
            have hfj : f ≤ wj.depthFuel := by
              have := h.size
              unfold World.depthFuel at hf ⊢
              omega
            obtain ⟨h1', h2'⟩ := ih wj n g k1 (k4 (hkids n hn)) (by omega) hfj h1 h2
            have hnw' := applyModifiers_ones f wj n g k1 (k4 (hkids n hn)) (by omega) hfj
            exact ihL _ (h.trans hnw') h1' h2' (fun m hm => hL m (List.mem_cons_of_mem _ hm))
        exact key _ w4 top c4 a4 (fun n hn => hp.mem_iff.mp hn)
    · have hl : (w.op c).isComp = false := by simpa using hcomp
      rw [applyModifiers_leaf w g c hl]
      exact ⟨hc, ha⟩

/-- **unrolling twice**: after a first `applyModifiers` (tree without group links below `c`) a second one keeps the
    certificate as well. -/
theorem applyModifiers_twice_certified {w : World} {f c : Nat} (ht : TreeBelow w f c) (hf : f ≤ w.depthFuel)
    (hc : Closed w) (ha : Acyclic w) (hs : SingleUnder w f c) (g g' : Nat) (hg : f ≤ g) (hg' : f ≤ g') :
    Closed ((w.applyModifiers g c).applyModifiers g' c) ∧ Acyclic ((w.applyModifiers g c).applyModifiers g' c) := by
  obtain ⟨c1, a1, _⟩ := applyModifiers_certified f w c g ht hg hf hc ha hs
  have us := applyModifiers_tree f w c g ht hg hf
  have hf1 : f ≤ (w.applyModifiers g c).depthFuel := by
    have := us.size
    unfold World.depthFuel at hf ⊢
    omega
  exact applyModifiers_ones_certified f _ c g' us.tree us.ones hg' hf1 c1 a1

/-! ### the depth bound of a tree in an acyclic heap is within the fuel of `copy()` -/

/-- a tree of a ranked heap is a tree at the depth bound `rank + 1`, with the same objects below. -/
theorem tree_depth_of_ranked {w : World} {rk : Nat → Nat} (hr : Ranked w rk) : ∀ (f o : Nat), TreeBelow w f o →
    TreeBelow w (rk o + 1) o ∧ w.below (rk o + 1) o = w.below f o := by
  intro f
  induction f with
  | zero => intro o h; exact h.elim
  | succ f ih =>
    intro o ht
    by_cases hc : (w.op o).isComp = true
    · have hk : ∀ n ∈ w.kids o, TreeBelow w (rk o) n ∧ w.below (rk o) n = w.below f n := by
        intro n hn
        obtain ⟨e, he, rfl⟩ := List.mem_map.mp hn
        have hlt : rk e.node < rk o := hr.node o hc e he
        obtain ⟨t1, b1⟩ := ih e.node (ht.kid hc hn)
        obtain ⟨t2, b2, _⟩ := t1.mono (rk o - (rk e.node + 1))
        have hd : rk e.node + 1 + (rk o - (rk e.node + 1)) = rk o := by omega
        rw [hd] at t2 b2
        exact ⟨t2, b2.trans b1⟩
      refine ⟨TreeBelow.comp_intro ht.lt hc (ht.kids_nodup hc) (fun n hn => (hk n hn).1) ?_ ?_, ?_⟩
      · intro n hn
        rw [(hk n hn).2]
        exact ht.not_below_kid hc hn
      · intro a ha b hb hab
        rw [(hk a ha).2, (hk b hb).2]
        exact ht.disj hc ha hb hab
      · rw [below_comp w (rk o) o hc, below_comp w f o hc]
        congr 1
        exact flatMap_congr' (fun n hn => (hk n hn).2)
    · have hl : (w.op o).isComp = false := by simpa using hc
      exact ⟨TreeBelow.leaf_intro ht.lt hl (ht.stable hl), by rw [below_leaf w (rk o) o hl, below_leaf w f o hl]⟩

/-- in a closed acyclic heap every tree is a tree at a depth bound within `depthFuel`, with the same objects below. -/
theorem tree_within_fuel {w : World} (hc : Closed w) (ha : Acyclic w) {f o : Nat} (ht : TreeBelow w f o) :
    ∃ f', f' ≤ w.depthFuel ∧ TreeBelow w f' o ∧ w.below f' o = w.below f o := by
  obtain ⟨rk0, hrk0⟩ := ha
  obtain ⟨hr, hB⟩ := hrk0.compress hc
  obtain ⟨t, b⟩ := tree_depth_of_ranked hr f o ht
  refine ⟨_, ?_, t, b⟩
  have := hB o
  unfold World.depthFuel
  omega

/-- **`applyModifiers` keeps the certificate**, no condition on the depth bound `f` (the recursion fuel and the fuel of
    the copies are the driver's `depthFuel`). -/
theorem applyModifiers_certified_driver {w : World} {f c : Nat} (ht : TreeBelow w f c) (hc : Closed w) (ha : Acyclic w)
    (hs : SingleUnder w f c) :
    Closed (w.applyModifiers w.depthFuel c) ∧ Acyclic (w.applyModifiers w.depthFuel c) ∧
    LinksExt w (w.applyModifiers w.depthFuel c) := by
  obtain ⟨f', hf', t', b'⟩ := tree_within_fuel hc ha ht
  have hs' : SingleUnder w f' c := by
    intro j hj hjc
    rw [b'] at hj
    exact hs j hj hjc
  exact applyModifiers_certified f' w c w.depthFuel t' hf' hf' hc ha hs'

end Qco.DefinedUnroll
