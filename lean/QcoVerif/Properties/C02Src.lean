import QcoVerif.Properties.C02
import QcoVerif.Lemmas.BuilderSrc
import QcoVerif.Generated.Limits
/-
  C02 — tie to the SOURCE TEXT (DESIGN.md §2.3b).  Kept in a file of its own that nothing imports: a change of the translated
  source functions breaks THESE obligations only, not the build of the property files that import Properties/C02.lean.
-/
namespace Qco.C02
open Qco

/-! ### tie to the SOURCE TEXT of the builder (DESIGN.md §2.3b; proofs in Lemmas/BuilderSrc.lean)

`CircuitGraphBranch.add_to_graph` and `get_corresponding_node`.  The functions act on objects: the fragment records such effects (`Py.callEffects`) instead of executing them. -/

section BuilderSourceTie
open Qco.Py Qco.Gen.PySrc Qco.BuilderSrc

/-- **`add_to_graph`: the effects of the source text, for every combination of `has_relation`, the leaf found and the node of the referenced operation**, and the returned graph. -/
theorem add_to_graph_matches_source (hasRel : Bool) (leaf relNode : Option Nat) :
    callEffects builderEnv Graph_add_to_graph [graphObj leaf relNode, newOpObj hasRel] = addEffects hasRel leaf relNode ∧
    callFn builderEnv Graph_add_to_graph [graphObj leaf relNode, newOpObj hasRel] = graphObj leaf relNode :=
  BuilderSrc.add_to_graph_matches_source hasRel leaf relNode

/-- those effects are a function of the decision `addDecision`. -/
theorem addEffects_by_decision (hasRel : Bool) (leaf relNode : Option Nat) :
    addEffects hasRel leaf relNode =
      (match addDecision hasRel leaf relNode with
       | .root => [evAppend (graphObj leaf relNode) rootNode (newNode hasRel)]
       | .relinkUnder l => [evRelink (newOpObj hasRel) (linkTo l), evAppend (graphObj leaf relNode) (nodeOf l) (newNode hasRel)]
       | .under r => [evAppend (graphObj leaf relNode) (nodeOf r) (newNode hasRel)]
       | .warnRoot => [evWarn, evRelink (newOpObj hasRel) noRelation, evAppend (graphObj leaf relNode) rootNode (newNode hasRel)]
       | .warnUnder l => [evWarn, evRelink (newOpObj hasRel) (linkTo l), evAppend (graphObj leaf relNode) (nodeOf l) (newNode hasRel)]) :=
  BuilderSrc.addEffects_by_decision hasRel leaf relNode

/-- **the model's `World.addToGraph` is driven by the same decision table** (when the reference of the link is defined). -/
theorem addToGraph_by_decision (w : World) (g : List Entry) (o : Nat)
    (hdef : w.hasRel o = true → ∃ r, w.refOf (w.op o).link = some (some r)) :
    w.addToGraph g o =
      applyDecision w g o (addDecision (w.hasRel o) (w.leafAtAny g (w.chansOf o)) (relNodeOf w g o)) :=
  BuilderSrc.addToGraph_by_decision w g o hdef

/-- `get_corresponding_node`: the first node whose operation IS the given one. -/
theorem get_corresponding_node_matches_source (nodes : List Nat) (o : Nat) :
    callFn builderEnv Graph_get_corresponding_node
        [.obj "Graph" 2 [("get_node_iterator()", .list (nodes.map plainNode))], plainOp o] =
      (match nodes.find? (fun n => n == o) with
       | some n => plainNode n
       | none => .none) :=
  BuilderSrc.get_corresponding_node_matches_source nodes o

end BuilderSourceTie


/-- **pinned limit**: the code's layer-by-layer walk of a graph stops silently after `MAX_GRAPH_DEPTH` layers (a chain of more
    operations than that on one channel is listed truncated); the model's listing is unbounded, so the listing theorems are about
    graphs of fewer layers.  The bound they are stated for is the one the pinned code has: lowering it breaks this obligation
    (and the harness then builds a chain deeper than the new bound). -/
theorem graph_depth_bound_pinned : 5000 ≤ Qco.Gen.maxGraphDepth := by decide

end Qco.C02
