import QcoVerif.Lemmas.Defined
import QcoVerif.Lemmas.Listing
/-
  C01, definedness: the builder operations preserve the acyclicity certificate of Lemmas/Defined.lean.

  * abstract part: rankings of an edge relation, reachability, insertion of edges out of one source;
  * `Dep w x y`: the dependency edges of a heap (link → reference, composite → node);
  * `newLink`, `newOp`, `newCircuit`, `add` (= `addToGraph` + `setGraph`), `extend`.
-/
namespace Qco.Defined

open Qco Qco.C10

/-! ### rankings of an abstract edge relation -/

/-- reflexive-transitive closure of `E`. -/
inductive ReachE (E : Nat → Nat → Prop) : Nat → Nat → Prop
  | refl (x : Nat) : ReachE E x x
  | step {x y z : Nat} : E x y → ReachE E y z → ReachE E x z

def RankedE (E : Nat → Nat → Prop) (rk : Nat → Nat) : Prop := ∀ x y, E x y → rk y < rk x

theorem ReachE.rank_le {E : Nat → Nat → Prop} {rk : Nat → Nat} (h : RankedE E rk) {x y : Nat}
    (hr : ReachE E x y) : rk y ≤ rk x := by
  induction hr with
  | refl x => exact Nat.le_refl _
  | step he _ ih => have := h _ _ he; omega

theorem ReachE.trans {E : Nat → Nat → Prop} {x y z : Nat} (h1 : ReachE E x y) (h2 : ReachE E y z) :
    ReachE E x z := by
  induction h1 with
  | refl x => exact h2
  | step he _ ih => exact ReachE.step he (ih h2)

theorem ReachE.single {E : Nat → Nat → Prop} {x y : Nat} (h : E x y) : ReachE E x y :=
  ReachE.step h (ReachE.refl y)

theorem ReachE.mono {E E' : Nat → Nat → Prop} (hsub : ∀ x y, E x y → E' x y) {x y : Nat}
    (h : ReachE E x y) : ReachE E' x y := by
  induction h with
  | refl x => exact ReachE.refl x
  | step he _ ih => exact ReachE.step (hsub _ _ he) ih

/-- `E` plus edges from `a` to the targets `T`. -/
def InsE (E : Nat → Nat → Prop) (a : Nat) (T : Nat → Prop) : Nat → Nat → Prop :=
  fun x y => E x y ∨ (x = a ∧ T y)

open Classical in
/-- lift everything that reaches `a` by `K`. -/
noncomputable def shiftRank (E : Nat → Nat → Prop) (rk : Nat → Nat) (a K : Nat) (x : Nat) : Nat :=
  rk x + (if ReachE E x a then K else 0)

/-- **edge insertion**: new edges out of `a` to targets that do not reach `a` keep the relation ranked. -/
theorem insert_ranked {E : Nat → Nat → Prop} {rk : Nat → Nat} {B : Nat} (h : RankedE E rk)
    (hB : ∀ x, rk x ≤ B) (a : Nat) (T : Nat → Prop) (hT : ∀ t, T t → ¬ ReachE E t a) :
    RankedE (InsE E a T) (shiftRank E rk a (B + 1)) ∧ ∀ x, shiftRank E rk a (B + 1) x ≤ 2 * B + 1 := by
  constructor
  · intro x y hxy
    unfold shiftRank
    rcases hxy with hE | ⟨rfl, hTy⟩
    · have hlt := h x y hE
      by_cases hy : ReachE E y a
      · have hx : ReachE E x a := ReachE.step hE hy
        rw [if_pos hy, if_pos hx]; omega
      · rw [if_neg hy]; split <;> omega
    · rw [if_neg (hT y hTy), if_pos (ReachE.refl x)]
      have := hB y; omega
  · intro x
    unfold shiftRank
    have := hB x
    split <;> omega

/-- a path of the extended relation either is an old path or passes through `a` and one of the new targets. -/
theorem reach_insert {E : Nat → Nat → Prop} {a : Nat} {T : Nat → Prop} {x y : Nat}
    (h : ReachE (InsE E a T) x y) : ReachE E x y ∨ (ReachE E x a ∧ ∃ t, T t ∧ ReachE E t y) := by
  induction h with
  | refl x => exact Or.inl (ReachE.refl x)
  | step he _ ih =>
    rcases he with hE | ⟨rfl, hTy⟩
    · rcases ih with h1 | ⟨h1, t, ht, h2⟩
      · exact Or.inl (ReachE.step hE h1)
      · exact Or.inr ⟨ReachE.step hE h1, t, ht, h2⟩
    · rcases ih with h1 | ⟨_, t, ht, h2⟩
      · exact Or.inr ⟨ReachE.refl _, _, hTy, h1⟩
      · exact Or.inr ⟨ReachE.refl _, t, ht, h2⟩

/-! ### the dependency edges of a heap -/

/-- `x` depends directly on `y`: `y` is a reference of the link of `x`, or a node of the composite `x`. -/
def Dep (w : World) (x y : Nat) : Prop :=
  y ∈ (w.lnk (w.op x).link).refs ∨ ((w.op x).isComp = true ∧ ∃ e ∈ (w.op x).graph, e.node = y)

/-- `x` depends (transitively, or is equal to) on `y`. -/
def Reach (w : World) : Nat → Nat → Prop := ReachE (Dep w)

theorem ranked_iff {w : World} {rk : Nat → Nat} : Ranked w rk ↔ RankedE (Dep w) rk := by
  constructor
  · intro h x y hxy
    rcases hxy with hr | ⟨hc, e, he, rfl⟩
    · exact h.ref x y hr
    · exact h.node x hc e he
  · intro h
    exact ⟨fun o r hr => h o r (Or.inl hr), fun o hc e he => h o e.node (Or.inr ⟨hc, e, he, rfl⟩)⟩

theorem Ranked.reach_le {w : World} {rk : Nat → Nat} (h : Ranked w rk) {x y : Nat} (hr : Reach w x y) :
    rk y ≤ rk x := ReachE.rank_le (ranked_iff.mp h) hr

/-- nothing refers to `o` and no graph contains it. -/
def Unref (w : World) (o : Nat) : Prop := ∀ x, ¬ Dep w x o

theorem reach_unref {w : World} {o x : Nat} (hu : Unref w o) (h : Reach w x o) : x = o := by
  have key : ∀ a b, ReachE (Dep w) a b → b = o → a = o := by
    intro a b hab
    induction hab with
    | refl x => exact id
    | step he _ ih =>
      intro hz
      have := ih hz
      subst this
      exact absurd he (hu _)
  exact key x o h rfl

/-! ### frame lemmas of the heap primitives -/

theorem op_ops_eq {w1 w2 : World} (h : w1.ops = w2.ops) (j : Nat) : w1.op j = w2.op j := by
  unfold World.op; rw [h]

theorem lnk_links_eq {w1 w2 : World} (h : w1.links = w2.links) (l : Nat) : w1.lnk l = w2.lnk l := by
  unfold World.lnk; rw [h]

theorem lnk_newLink_old (w : World) (L : Link) (l : Nat) (hl : l < w.links.size) :
    (w.newLink L).1.lnk l = w.lnk l := by
  unfold World.newLink World.lnk
  simp only [Array.getD_eq_getD_getElem?, Array.getElem?_push]
  have : l ≠ w.links.size := by omega
  simp [this]

theorem lnk_newLink_new (w : World) (L : Link) : (w.newLink L).1.lnk (w.newLink L).2 = L := by
  unfold World.newLink World.lnk
  simp

theorem op_setLink (w : World) (i l j : Nat) :
    (w.setLink i l).op j = if i = j ∧ i < w.ops.size then { w.op i with link := l } else w.op j := by
  unfold World.setLink; rw [op_setOp]

theorem op_setGraph' (w : World) (i : Nat) (g : List Entry) (j : Nat) :
    (w.setGraph i g).op j = if i = j ∧ i < w.ops.size then { w.op i with graph := g } else w.op j := by
  unfold World.setGraph; rw [op_setOp]

theorem isComp_noLink {a b : Op} (h : a.noLink = b.noLink) : a.isComp = b.isComp := by
  have : a.noLink.cls = b.noLink.cls := by rw [h]
  unfold Op.isComp
  exact congrArg (· == Cls.comp) this

theorem graph_noLink {a b : Op} (h : a.noLink = b.noLink) : a.graph = b.graph := by
  have : a.noLink.graph = b.noLink.graph := by rw [h]
  exact this

/-! ### the link part of `addToGraph` -/

/-- a plain relation link: not a group link, at most one reference. -/
def SingleLink (L : Link) : Prop := L.multi = false ∧ L.refs.length ≤ 1

/-- the heap has no group links. -/
def SingleLinks (w : World) : Prop := ∀ l, SingleLink (w.lnk l)

theorem singleLink_default : SingleLink (default : Link) := ⟨rfl, by decide⟩

theorem single_refs {L : Link} (h : SingleLink L) {r : Nat} (hh : L.refs.head? = some r) : ∀ r' ∈ L.refs, r' = r := by
  intro r' hr'
  have hlen := h.2
  cases hrefs : L.refs with
  | nil => rw [hrefs] at hr'; cases hr'
  | cons a rest =>
    rw [hrefs] at hh hr' hlen
    cases rest with
    | nil =>
      simp only [List.head?_cons, Option.some.injEq] at hh
      simp only [List.mem_singleton] at hr'
      rw [hr', hh]
    | cons b rest' => simp at hlen

theorem singleLinks_newLink {w : World} (h : SingleLinks w) {L : Link} (hL : SingleLink L) :
    SingleLinks (w.newLink L).1 := by
  intro l
  by_cases hl : l < w.links.size
  · rw [lnk_newLink_old w L l hl]; exact h l
  · by_cases hl2 : l = w.links.size
    · subst hl2
      have := lnk_newLink_new w L
      unfold World.newLink at this
      simp only at this
      unfold World.newLink
      simp only
      rw [this]; exact hL
    · have : (w.newLink L).1.lnk l = default := by
        unfold World.newLink World.lnk
        simp only [Array.getD_eq_getD_getElem?, Array.getElem?_push]
        have h1 : ¬ l = w.links.size := hl2
        have h2 : w.links[l]? = none := by simp; omega
        simp [h1, h2]
      rw [this]; exact singleLink_default

theorem singleLinks_congr {w1 w : World} (hl : w1.links = w.links) (h : SingleLinks w) : SingleLinks w1 :=
  fun l => by rw [lnk_links_eq hl l]; exact h l

/-- what `addToGraph` may do to the heap: only the link of `o` changes; its references afterwards are old ones
    or satisfy `T` (nodes of the graph the operation is added to). -/
structure LinkStep (w w' : World) (o : Nat) (T : Nat → Prop) : Prop where
  size : w'.ops.size = w.ops.size
  shape : ∀ j, (w'.op j).noLink = (w.op j).noLink
  refs_other : ∀ j, j ≠ o → (w'.lnk (w'.op j).link).refs = (w.lnk (w.op j).link).refs
  refs_o : ∀ r ∈ (w'.lnk (w'.op o).link).refs, r ∈ (w.lnk (w.op o).link).refs ∨ T r
  links_valid : ∀ j, (w'.op j).link < w'.links.size
  lnk_old : ∀ l, l < w.links.size → w'.lnk l = w.lnk l
  lsize : w.links.size ≤ w'.links.size
  op_other : ∀ j, j ≠ o → w'.op j = w.op j
  single : SingleLinks w → SingleLinks w'
  refs_o_single : o < w.ops.size → SingleLink (w.lnk (w.op o).link) → ∀ r ∈ (w'.lnk (w'.op o).link).refs, T r

theorem LinkStep.same {w w' : World} (o : Nat) (T : Nat → Prop) (hops : w'.ops = w.ops) (hl : w'.links = w.links)
    (hv : ∀ j, (w.op j).link < w.links.size)
    (hT : SingleLink (w.lnk (w.op o).link) → ∀ r ∈ (w.lnk (w.op o).link).refs, T r) : LinkStep w w' o T := by
  refine ⟨by rw [hops], fun j => by rw [op_ops_eq hops], fun j _ => by rw [op_ops_eq hops, lnk_links_eq hl],
    fun r hr => Or.inl (by rw [op_ops_eq hops, lnk_links_eq hl] at hr; exact hr), fun j => ?_,
    fun l _ => lnk_links_eq hl l, by rw [hl]; exact Nat.le_refl _, fun j _ => op_ops_eq hops j,
    fun h => singleLinks_congr hl h,
    fun _ hs r hr => hT hs r (by rw [op_ops_eq hops, lnk_links_eq hl] at hr; exact hr)⟩
  rw [op_ops_eq hops, hl]; exact hv j

/-- a fresh link `L` handed to `o`. -/
theorem LinkStep.relink {w w1 : World} (o : Nat) (T : Nat → Prop) (hops : w1.ops = w.ops) (hl : w1.links = w.links)
    (hv : ∀ j, (w.op j).link < w.links.size) (L : Link) (hL : ∀ r ∈ L.refs, T r) (hLs : SingleLink L) :
    LinkStep w ((w1.newLink L).1.setLink o (w1.newLink L).2) o T := by
  have hops' : (w1.newLink L).1.ops = w.ops := hops
  have hsz : (w1.newLink L).1.ops.size = w.ops.size := by rw [hops']
  have hidx : (w1.newLink L).2 = w.links.size := by unfold World.newLink; simp [hl]
  have hlsz : ((w1.newLink L).1.setLink o (w1.newLink L).2).links.size = w.links.size + 1 := by
    rw [setLink_links]; unfold World.newLink; simp [hl]
  have hlnk : ∀ l, ((w1.newLink L).1.setLink o (w1.newLink L).2).lnk l = (w1.newLink L).1.lnk l :=
    fun l => lnk_links_eq (setLink_links _ _ _) l
  have hold : ∀ l, l < w.links.size → (w1.newLink L).1.lnk l = w.lnk l := by
    intro l hlt
    rw [lnk_newLink_old w1 L l (by rw [hl]; exact hlt)]
    exact lnk_links_eq hl l
  refine ⟨by rw [setLink_size, hsz], fun j => ?_, fun j hj => ?_, fun r hr => ?_, fun j => ?_,
    fun l hlt => by rw [hlnk, hold l hlt], by rw [hlsz]; omega,
    fun j hj => by rw [op_setLink, if_neg (fun h => hj h.1.symm), op_ops_eq hops'],
    fun h => singleLinks_congr (setLink_links _ _ _) (singleLinks_newLink (singleLinks_congr hl h) hLs),
    fun ho _ r hr => ?_⟩
  · rw [noLink_setLink, op_ops_eq hops']
  · rw [op_setLink, if_neg (fun h => hj h.1.symm), hlnk, op_ops_eq hops', hold _ (hv j)]
  · rw [op_setLink] at hr
    split at hr
    · simp only at hr
      rw [hlnk, lnk_newLink_new] at hr
      exact Or.inr (hL r hr)
    · rw [hlnk, op_ops_eq hops', hold _ (hv o)] at hr
      exact Or.inl hr
  · rw [hlsz, op_setLink]
    split
    · simp only; omega
    · rw [op_ops_eq hops']; have := hv j; omega
  · rw [op_setLink, if_pos ⟨rfl, by rw [hsz]; exact ho⟩] at hr
    simp only at hr
    rw [hlnk, lnk_newLink_new] at hr
    exact hL r hr

theorem refOf_single (w : World) (l : Nat) (h : (w.lnk l).multi = false) : w.refOf l = some (w.lnk l).refs.head? := by
  unfold World.refOf
  simp [h]

theorem mem_listing_of_inGraph {g : List Entry} {r : Nat} (h : inGraph g r = true) : r ∈ listing g := by
  unfold inGraph at h
  obtain ⟨e, he, hen⟩ := List.any_eq_true.mp h
  exact mem_listing_iff.mpr ⟨e, he, by simpa using hen⟩

theorem mem_listing_of_leafAtAny {w : World} {g : List Entry} {chs : List ChId} {lf : Nat}
    (h : w.leafAtAny g chs = some lf) : lf ∈ listing g := by
  unfold World.leafAtAny at h
  have := List.mem_of_find?_eq_some h
  exact List.mem_reverse.mp this

/-- **`addToGraph` is a link step** towards the nodes of the graph, and attaches `o`. -/
theorem addToGraph_linkStep (w : World) (g : List Entry) (o : Nat) (hv : ∀ j, (w.op j).link < w.links.size) :
    LinkStep w (w.addToGraph g o).1 o (fun r => r ∈ listing g) := by
  -- no relation: the (empty) link is kept
  have hnorel : (!w.hasRel o) = true → SingleLink (w.lnk (w.op o).link) →
      ∀ r ∈ (w.lnk (w.op o).link).refs, r ∈ listing g := by
    intro h _ r hr
    unfold World.hasRel at h
    simp only [Bool.not_not] at h
    rw [List.isEmpty_iff.mp h] at hr; cases hr
  -- explicit relation to a node of the graph: kept
  have hkept : ∀ r0, w.refOf (w.op o).link = some (some r0) → inGraph g r0 = true →
      SingleLink (w.lnk (w.op o).link) → ∀ r ∈ (w.lnk (w.op o).link).refs, r ∈ listing g := by
    intro r0 heq hin hs r hr
    rw [refOf_single w _ hs.1] at heq
    simp only [Option.some.injEq] at heq
    rw [single_refs hs heq r hr]
    exact mem_listing_of_inGraph hin
  unfold World.addToGraph
  simp only
  cases hleaf : w.leafAtAny g (w.chansOf o) with
  | none =>
    have hrel : ∀ w1 : World, w1.ops = w.ops → w1.links = w.links →
        LinkStep w ((w1.newLink {}).1.setLink o (w1.newLink {}).2) o (fun r => r ∈ listing g) :=
      fun w1 h1 h2 => LinkStep.relink o _ h1 h2 hv {} (fun r hr => by cases hr) ⟨rfl, by decide⟩
    split
    next hnr => exact LinkStep.same o _ rfl rfl hv (hnorel hnr)
    next =>
      split
      next r0 heq =>
        split
        next hin => exact LinkStep.same o _ rfl rfl hv (hkept r0 heq hin)
        next => exact hrel _ rfl rfl
      next => exact hrel _ rfl rfl
  | some lf =>
    have hlf : lf ∈ listing g := mem_listing_of_leafAtAny hleaf
    have hrel : ∀ w1 : World, w1.ops = w.ops → w1.links = w.links →
        LinkStep w ((w1.newLink { refs := [lf] }).1.setLink o (w1.newLink { refs := [lf] }).2) o
          (fun r => r ∈ listing g) :=
      fun w1 h1 h2 => LinkStep.relink o _ h1 h2 hv { refs := [lf] } (fun r hr => by
        simp only [List.mem_singleton] at hr; subst hr; exact hlf) ⟨rfl, Nat.le_refl 1⟩
    split
    next => exact hrel _ rfl rfl
    next =>
      split
      next r0 heq =>
        split
        next hin => exact LinkStep.same o _ rfl rfl hv (hkept r0 heq hin)
        next => exact hrel _ rfl rfl
      next => exact hrel _ rfl rfl

/-! ### `add` -/

theorem lnk_setGraph (w : World) (i : Nat) (g : List Entry) (l : Nat) : (w.setGraph i g).lnk l = w.lnk l := rfl

theorem setGraph_link (w : World) (i : Nat) (g : List Entry) (j : Nat) :
    ((w.setGraph i g).op j).link = (w.op j).link := by
  rw [op_setGraph']; split
  · rename_i h; rw [← h.1]
  · rfl

theorem setGraph_isComp (w : World) (i : Nat) (g : List Entry) (j : Nat) :
    ((w.setGraph i g).op j).isComp = (w.op j).isComp := by
  rw [op_setGraph']; split
  · rename_i h; rw [← h.1]; rfl
  · rfl

theorem setGraph_graph_cases (w : World) (i : Nat) (g : List Entry) (j : Nat) :
    ((w.setGraph i g).op j).graph = if i = j ∧ i < w.ops.size then g else (w.op j).graph := by
  rw [op_setGraph']; split <;> rfl

theorem addToGraph_nodes (w : World) (g : List Entry) (o : Nat) :
    ∃ e : Entry, e.node = o ∧ (w.addToGraph g o).2 = g ++ [e] := by
  obtain ⟨p, hp⟩ : ∃ p, (w.addToGraph g o).2 = attach g p o := by
    unfold World.addToGraph
    simp only
    split
    · split
      · exact ⟨none, rfl⟩
      · split <;> exact ⟨_, rfl⟩
    · split
      · split
        · exact ⟨_, rfl⟩
        · split <;> exact ⟨_, rfl⟩
      · split <;> exact ⟨_, rfl⟩
  obtain ⟨k, hk⟩ := attach_eq g p o
  exact ⟨{ node := o, parent := p, key := k }, rfl, by rw [hp, hk]⟩

/-- the dependency edges after `add w c o`: old ones, `o →` a node of `c`, and `c → o`. -/
theorem dep_add {w : World} (hc : Closed w) (c o : Nat) {x y : Nat} (h : Dep (w.add c o) x y) :
    Dep w x y ∨ (x = o ∧ ∃ e ∈ (w.op c).graph, e.node = y) ∨ (x = c ∧ y = o) := by
  unfold World.add at h
  have ls := addToGraph_linkStep w (w.op c).graph o hc.link
  obtain ⟨e0, he0, hg⟩ := addToGraph_nodes w (w.op c).graph o
  simp only at h
  rcases h with hr | ⟨hcomp, e, he, rfl⟩
  · rw [setGraph_link, lnk_setGraph] at hr
    by_cases hx : x = o
    · subst hx
      rcases ls.refs_o y hr with h1 | h1
      · exact Or.inl (Or.inl h1)
      · exact Or.inr (Or.inl ⟨rfl, mem_listing_iff.mp h1⟩)
    · rw [ls.refs_other x hx] at hr
      exact Or.inl (Or.inl hr)
  · rw [setGraph_isComp, isComp_noLink (ls.shape x)] at hcomp
    rw [setGraph_graph_cases] at he
    split at he
    · rename_i hcx
      rw [hg] at he
      rcases List.mem_append.mp he with h1 | h1
      · rw [← hcx.1]
        refine Or.inl (Or.inr ⟨by rw [hcx.1]; exact hcomp, e, h1, rfl⟩)
      · simp only [List.mem_singleton] at h1
        subst h1
        exact Or.inr (Or.inr ⟨hcx.1.symm, he0⟩)
    · rw [graph_noLink (ls.shape x)] at he
      exact Or.inl (Or.inr ⟨hcomp, e, he, rfl⟩)

/-- **`add` keeps a ranking** that already puts `o` below `c` and above the nodes of `c`. -/
theorem add_ranked {w : World} {rk : Nat → Nat} (hc : Closed w) (h : Ranked w rk) (c o : Nat)
    (h1 : rk o < rk c) (h2 : ∀ e ∈ (w.op c).graph, rk e.node < rk o) : Ranked (w.add c o) rk := by
  rw [ranked_iff] at h ⊢
  intro x y hxy
  rcases dep_add hc c o hxy with hd | ⟨rfl, e, he, rfl⟩ | ⟨rfl, rfl⟩
  · exact h x y hd
  · exact h2 e he
  · exact h1

/-- `add` keeps the heap closed. -/
theorem add_closed {w : World} (hc : Closed w) (c o : Nat) (ho : o < w.ops.size) : Closed (w.add c o) := by
  have ls := addToGraph_linkStep w (w.op c).graph o hc.link
  obtain ⟨e0, he0, hg⟩ := addToGraph_nodes w (w.op c).graph o
  have hsz : (w.add c o).ops.size = w.ops.size := by
    unfold World.add; simp only [World.setGraph, setOp_size]; exact ls.size
  refine ⟨fun x r hr => ?_, fun x e he => ?_, fun x => ?_⟩
  · rw [hsz]
    rcases dep_add hc c o (Or.inl hr) with hd | ⟨_, e, he, rfl⟩ | ⟨_, rfl⟩
    · rcases hd with hd | ⟨_, e, he, rfl⟩
      · exact hc.ref x r hd
      · exact hc.node x e he
    · exact hc.node c e he
    · exact ho
  · rw [hsz]
    unfold World.add at he
    simp only at he
    rw [setGraph_graph_cases] at he
    split at he
    · rw [hg] at he
      rcases List.mem_append.mp he with h1 | h1
      · exact hc.node c e h1
      · simp only [List.mem_singleton] at h1
        subst h1; rw [he0]; exact ho
    · rw [graph_noLink (ls.shape x)] at he
      exact hc.node x e he
  · unfold World.add
    simp only
    rw [setGraph_link]
    exact ls.links_valid x

/-- **`add` preserves acyclicity**: `c` a composite, `o` does not depend on `c`, and no node of `c` depends on `o`. -/
theorem add_acyclic {w : World} (hc : Closed w) (h : Acyclic w) (c o : Nat) (hcomp : (w.op c).isComp = true)
    (hoc : ¬ Reach w o c) (hno : ∀ e ∈ (w.op c).graph, ¬ Reach w e.node o) : Acyclic (w.add c o) := by
  obtain ⟨rk0, hrk0⟩ := h
  obtain ⟨h1, hB⟩ := hrk0.compress hc
  have hE := ranked_iff.mp h1
  -- first insertion: o → nodes of c
  let T : Nat → Prop := fun y => ∃ e ∈ (w.op c).graph, e.node = y
  have hT : ∀ t, T t → ¬ ReachE (Dep w) t o := by
    rintro t ⟨e, he, rfl⟩; exact hno e he
  obtain ⟨hR1, hB1⟩ := insert_ranked hE hB o T hT
  -- second insertion: c → o
  have hT2 : ∀ t, (fun y => y = o) t → ¬ ReachE (InsE (Dep w) o T) t c := by
    rintro t rfl hr
    rcases reach_insert hr with h0 | ⟨_, t', ⟨e, he, rfl⟩, h0⟩
    · exact hoc h0
    · have hle := ReachE.rank_le hE h0
      have hlt := h1.node c hcomp e he
      omega
  obtain ⟨hR2, _⟩ := insert_ranked hR1 hB1 c (fun y => y = o) hT2
  have hfin : RankedE (Dep (w.add c o)) _ := fun x y hxy => hR2 x y (by
    rcases dep_add hc c o hxy with hd | ⟨rfl, e, he, rfl⟩ | ⟨rfl, rfl⟩
    · exact Or.inl (Or.inl hd)
    · exact Or.inl (Or.inr ⟨rfl, e, he, rfl⟩)
    · exact Or.inr ⟨rfl, rfl⟩)
  exact ⟨_, ranked_iff.mpr hfin⟩

/-- the usual builder situation: `o` is fresh as a target (nothing refers to it, no graph contains it). -/
theorem add_acyclic_of_unref {w : World} (hc : Closed w) (h : Acyclic w) (c o : Nat)
    (hcomp : (w.op c).isComp = true) (hu : Unref w o) (hoc : ¬ Reach w o c) : Acyclic (w.add c o) := by
  apply add_acyclic hc h c o hcomp hoc
  intro e he hr
  have : e.node = o := reach_unref hu hr
  exact hu c (Or.inr ⟨hcomp, e, he, this⟩)

/-- … and `c` is a root as well (a top-level circuit): it suffices that `o ≠ c`. -/
theorem add_acyclic_of_roots {w : World} (hc : Closed w) (h : Acyclic w) (c o : Nat)
    (hcomp : (w.op c).isComp = true) (hu : Unref w o) (huc : Unref w c) (hne : o ≠ c) : Acyclic (w.add c o) :=
  add_acyclic_of_unref hc h c o hcomp hu (fun hr => hne (reach_unref huc hr))

/-! ### `newLink`, `newOp`, `newCircuit` -/

theorem dep_newLink {w : World} (hc : Closed w) (L : Link) (x y : Nat) : Dep (w.newLink L).1 x y ↔ Dep w x y := by
  have hop : ∀ j, (w.newLink L).1.op j = w.op j := fun j => rfl
  unfold Dep
  rw [hop, lnk_newLink_old w L _ (hc.link x)]

theorem newLink_ranked {w : World} {rk : Nat → Nat} (hc : Closed w) (h : Ranked w rk) (L : Link) :
    Ranked (w.newLink L).1 rk := by
  rw [ranked_iff] at h ⊢
  intro x y hxy
  exact h x y ((dep_newLink hc L x y).mp hxy)

theorem newLink_closed {w : World} (hc : Closed w) (L : Link) : Closed (w.newLink L).1 := by
  have hop : ∀ j, (w.newLink L).1.op j = w.op j := fun j => rfl
  have hsz : (w.newLink L).1.ops.size = w.ops.size := rfl
  refine ⟨fun o r hr => ?_, fun o e he => ?_, fun o => ?_⟩
  · rw [hop, lnk_newLink_old w L _ (hc.link o)] at hr
    rw [hsz]; exact hc.ref o r hr
  · rw [hop] at he; rw [hsz]; exact hc.node o e he
  · rw [hop]
    have : (w.newLink L).1.links.size = w.links.size + 1 := by unfold World.newLink; simp
    rw [this]; have := hc.link o; omega

theorem op_newOp (w : World) (op : Op) (j : Nat) :
    (w.newOp op).1.op j = if j = w.ops.size then op else w.op j := by
  unfold World.newOp World.op
  simp only [Array.getD_eq_getD_getElem?, Array.getElem?_push]
  by_cases hj : j = w.ops.size
  · simp [hj]
  · simp [hj]

theorem lnk_newOp (w : World) (op : Op) (l : Nat) : (w.newOp op).1.lnk l = w.lnk l := rfl

theorem newOp_size (w : World) (op : Op) : (w.newOp op).1.ops.size = w.ops.size + 1 := by
  unfold World.newOp; simp

/-- the edges after `newOp`: old ones, or out of the new object. -/
theorem dep_newOp (w : World) (op : Op) {x y : Nat} (h : Dep (w.newOp op).1 x y) :
    Dep w x y ∨ (x = w.ops.size ∧ (y ∈ (w.lnk op.link).refs ∨ (op.isComp = true ∧ ∃ e ∈ op.graph, e.node = y))) := by
  unfold Dep at h
  rw [op_newOp, lnk_newOp] at h
  split at h
  · rename_i hx; exact Or.inr ⟨hx, h⟩
  · exact Or.inl h

/-- **`newOp` keeps a ranking** that already ranks the new id above what the new object refers to. -/
theorem newOp_ranked {w : World} {rk : Nat → Nat} (h : Ranked w rk) (op : Op)
    (h1 : ∀ r ∈ (w.lnk op.link).refs, rk r < rk w.ops.size)
    (h2 : op.isComp = true → ∀ e ∈ op.graph, rk e.node < rk w.ops.size) : Ranked (w.newOp op).1 rk := by
  rw [ranked_iff] at h ⊢
  intro x y hxy
  rcases dep_newOp w op hxy with hd | ⟨rfl, hr | ⟨hcomp, e, he, rfl⟩⟩
  · exact h x y hd
  · exact h1 y hr
  · exact h2 hcomp e he

theorem newOp_closed {w : World} (hc : Closed w) (op : Op) (hl : op.link < w.links.size)
    (h1 : ∀ r ∈ (w.lnk op.link).refs, r < w.ops.size) (h2 : ∀ e ∈ op.graph, e.node < w.ops.size) :
    Closed (w.newOp op).1 := by
  refine ⟨fun o r hr => ?_, fun o e he => ?_, fun o => ?_⟩
  · rw [newOp_size]
    rw [op_newOp, lnk_newOp] at hr
    split at hr
    · have := h1 r hr; omega
    · have := hc.ref o r hr; omega
  · rw [newOp_size]
    rw [op_newOp] at he
    split at he
    · have := h2 e he; omega
    · have := hc.node o e he; omega
  · rw [op_newOp]
    have : (w.newOp op).1.links.size = w.links.size := rfl
    rw [this]
    split
    · exact hl
    · exact hc.link o

/-- **a new object whose link and graph mention existing objects only can be ranked** (on top). -/
theorem newOp_acyclic {w : World} (hc : Closed w) (h : Acyclic w) (op : Op)
    (h1 : ∀ r ∈ (w.lnk op.link).refs, r < w.ops.size) (h2 : ∀ e ∈ op.graph, e.node < w.ops.size) :
    Acyclic (w.newOp op).1 := by
  obtain ⟨rk0, hrk0⟩ := h
  obtain ⟨hr, hB⟩ := hrk0.compress hc
  refine ⟨fun x => if x = w.ops.size then w.ops.size + 1 else crank w rk0 x, ranked_iff.mpr ?_⟩
  intro x y hxy
  have hyB := hB y
  rcases dep_newOp w op hxy with hd | ⟨rfl, hr' | ⟨_, e, he, rfl⟩⟩
  · have hy : y < w.ops.size := by
      rcases hd with hd | ⟨_, e, he, rfl⟩
      · exact hc.ref x y hd
      · exact hc.node x e he
    have hlt := ranked_iff.mp hr x y hd
    simp only
    rw [if_neg (by omega : ¬ y = w.ops.size)]
    split <;> omega
  · have := h1 y hr'
    simp only
    rw [if_neg (by omega : ¬ y = w.ops.size), if_pos trivial]; omega
  · have := h2 e he
    simp only
    rw [if_neg (by omega : ¬ e.node = w.ops.size), if_pos trivial]; omega

/-- `newCircuit` (an empty composite sharing link `0`) keeps every ranking. -/
theorem newCircuit_ranked {w : World} {rk : Nat → Nat} (h : Ranked w rk) (rep : Rep) :
    Ranked (w.newCircuit rep).1 rk := by
  unfold World.newCircuit
  have hd : (w.op w.ops.size).link = 0 := by
    unfold World.op; simp [Array.getD]; rfl
  apply newOp_ranked h
  · intro r hr
    apply h.ref w.ops.size r
    rw [hd]; exact hr
  · intro _ e he; cases he

theorem newCircuit_closed {w : World} (hc : Closed w) (rep : Rep) : Closed (w.newCircuit rep).1 := by
  unfold World.newCircuit
  have hd : (w.op w.ops.size).link = 0 := by
    unfold World.op; simp [Array.getD]; rfl
  apply newOp_closed hc
  · have := hc.link w.ops.size; rw [hd] at this; exact this
  · intro r hr
    apply hc.ref w.ops.size r
    rw [hd]; exact hr
  · intro e he; cases he

theorem newCircuit_acyclic {w : World} (h : Acyclic w) (rep : Rep) :
    Acyclic (w.newCircuit rep).1 := by
  obtain ⟨rk, hrk⟩ := h
  exact ⟨rk, newCircuit_ranked hrk rep⟩

/-- the empty heap is closed and ranked by anything. -/
theorem empty_closed : Closed ({} : World) := by
  refine ⟨fun o r hr => ?_, fun o e he => ?_, fun o => ?_⟩
  · have : (({} : World).lnk (({} : World).op o).link).refs = [] := by
      unfold World.op World.lnk; simp [Array.getD]; rfl
    rw [this] at hr; cases hr
  · have : (({} : World).op o).graph = [] := by unfold World.op; simp [Array.getD]; rfl
    rw [this] at he; cases he
  · have : (({} : World).op o).link = 0 := by unfold World.op; simp [Array.getD]; rfl
    rw [this]; decide

theorem empty_ranked (rk : Nat → Nat) : Ranked ({} : World) rk := by
  refine ⟨fun o r hr => ?_, fun o _ e he => ?_⟩
  · have : (({} : World).lnk (({} : World).op o).link).refs = [] := by
      unfold World.op World.lnk; simp [Array.getD]; rfl
    rw [this] at hr; cases hr
  · have : (({} : World).op o).graph = [] := by unfold World.op; simp [Array.getD]; rfl
    rw [this] at he; cases he

/-! ### `add` of an object with a plain (single) link: its old references do not matter

  After `add w c o` the references of a plain link of `o` are nodes of `c` in every branch of `addToGraph` (a kept
  explicit link refers to a node of the graph; otherwise the link is replaced), so `o` may have depended on `c`
  through its old link. -/

/-- `x` is a composite and `y` a node of its graph. -/
def GDep (w : World) (x y : Nat) : Prop := (w.op x).isComp = true ∧ ∃ e ∈ (w.op x).graph, e.node = y

theorem dep_add_single {w : World} (hc : Closed w) (c o : Nat) (ho : o < w.ops.size)
    (hs : SingleLink (w.lnk (w.op o).link)) {x y : Nat} (h : Dep (w.add c o) x y) :
    (x ≠ o ∧ Dep w x y) ∨ (x = o ∧ GDep w o y) ∨ (x = o ∧ ∃ e ∈ (w.op c).graph, e.node = y) ∨ (x = c ∧ y = o) := by
  unfold World.add at h
  have ls := addToGraph_linkStep w (w.op c).graph o hc.link
  obtain ⟨e0, he0, hg⟩ := addToGraph_nodes w (w.op c).graph o
  simp only at h
  have hgd : ∀ x y, GDep w x y → (x ≠ o ∧ Dep w x y) ∨ (x = o ∧ GDep w o y) ∨
      (x = o ∧ ∃ e ∈ (w.op c).graph, e.node = y) ∨ (x = c ∧ y = o) := by
    intro x y hxy
    by_cases hx : x = o
    · subst hx; exact Or.inr (Or.inl ⟨rfl, hxy⟩)
    · exact Or.inl ⟨hx, Or.inr hxy⟩
  rcases h with hr | ⟨hcomp, e, he, rfl⟩
  · rw [setGraph_link, lnk_setGraph] at hr
    by_cases hx : x = o
    · subst hx
      exact Or.inr (Or.inr (Or.inl ⟨rfl, mem_listing_iff.mp (ls.refs_o_single ho hs y hr)⟩))
    · rw [ls.refs_other x hx] at hr
      exact Or.inl ⟨hx, Or.inl hr⟩
  · rw [setGraph_isComp, isComp_noLink (ls.shape x)] at hcomp
    rw [setGraph_graph_cases] at he
    split at he
    · rename_i hcx
      rw [hg] at he
      rcases List.mem_append.mp he with h1 | h1
      · apply hgd
        rw [← hcx.1]
        exact ⟨by rw [hcx.1]; exact hcomp, e, h1, rfl⟩
      · simp only [List.mem_singleton] at h1
        subst h1
        exact Or.inr (Or.inr (Or.inr ⟨hcx.1.symm, he0⟩))
    · rw [graph_noLink (ls.shape x)] at he
      exact hgd _ _ ⟨hcomp, e, he, rfl⟩

/-- the two insertions behind `add`, over a sub-relation `E0` of the old edges. -/
theorem acyclic_of_edges {w' : World} {E0 : Nat → Nat → Prop} {rk : Nat → Nat} {B : Nat} (hE0 : RankedE E0 rk)
    (hB : ∀ x, rk x ≤ B) (o c : Nat) (T : Nat → Prop)
    (hdep : ∀ x y, Dep w' x y → E0 x y ∨ (x = o ∧ T y) ∨ (x = c ∧ y = o))
    (hcT : ∀ t, T t → E0 c t) (hoc : ¬ ReachE E0 o c) (hno : ∀ t, T t → ¬ ReachE E0 t o) : Acyclic w' := by
  obtain ⟨hR1, hB1⟩ := insert_ranked hE0 hB o T hno
  have hT2 : ∀ t, (fun y => y = o) t → ¬ ReachE (InsE E0 o T) t c := by
    rintro t rfl hr
    rcases reach_insert hr with h0 | ⟨_, t', ht', h0⟩
    · exact hoc h0
    · have hle := ReachE.rank_le hE0 h0
      have hlt := hE0 c t' (hcT t' ht')
      omega
  obtain ⟨hR2, _⟩ := insert_ranked hR1 hB1 c (fun y => y = o) hT2
  have hfin : RankedE (Dep w') _ := fun x y hxy => hR2 x y (by
    rcases hdep x y hxy with hd | ⟨rfl, ht⟩ | ⟨rfl, rfl⟩
    · exact Or.inl (Or.inl hd)
    · exact Or.inl (Or.inr ⟨rfl, ht⟩)
    · exact Or.inr ⟨rfl, rfl⟩)
  exact ⟨_, ranked_iff.mpr hfin⟩

/-- **`add` of an object with a plain link preserves acyclicity** when no node of `o` depends on `c` and no node of
    `c` depends on `o` (what the old link of `o` referred to does not matter). -/
theorem add_acyclic_single {w : World} (hc : Closed w) (h : Acyclic w) (c o : Nat) (ho : o < w.ops.size)
    (hcomp : (w.op c).isComp = true) (hs : SingleLink (w.lnk (w.op o).link)) (hne : o ≠ c)
    (hg : ∀ y, GDep w o y → ¬ Reach w y c) (hno : ∀ e ∈ (w.op c).graph, ¬ Reach w e.node o) :
    Acyclic (w.add c o) := by
  obtain ⟨rk0, hrk0⟩ := h
  obtain ⟨h1, hB⟩ := hrk0.compress hc
  have hE := ranked_iff.mp h1
  let E0 : Nat → Nat → Prop := fun x y => (x ≠ o ∧ Dep w x y) ∨ (x = o ∧ GDep w o y)
  have hsub : ∀ x y, E0 x y → Dep w x y := by
    intro x y hxy
    rcases hxy with ⟨_, hd⟩ | ⟨rfl, hd⟩
    · exact hd
    · exact Or.inr hd
  have hE0 : RankedE E0 (crank w rk0) := fun x y hxy => hE x y (hsub x y hxy)
  apply acyclic_of_edges hE0 hB o c (fun y => ∃ e ∈ (w.op c).graph, e.node = y)
  · intro x y hxy
    rcases dep_add_single hc c o ho hs hxy with h0 | h0 | h0 | h0
    · exact Or.inl (Or.inl h0)
    · exact Or.inl (Or.inr h0)
    · exact Or.inr (Or.inl h0)
    · exact Or.inr (Or.inr h0)
  · rintro t ⟨e, he, rfl⟩
    exact Or.inl ⟨hne.symm, Or.inr ⟨hcomp, e, he, rfl⟩⟩
  · intro hr
    cases hr with
    | refl => exact hne rfl
    | step he hrest =>
      rcases he with ⟨hx, _⟩ | ⟨_, hd⟩
      · exact hx rfl
      · exact hg _ hd (ReachE.mono hsub hrest)
  · rintro t ⟨e, he, rfl⟩ hr
    exact hno e he (ReachE.mono hsub hr)

theorem add_singleLinks {w : World} (hc : Closed w) (hs : SingleLinks w) (c o : Nat) : SingleLinks (w.add c o) := by
  have ls := addToGraph_linkStep w (w.op c).graph o hc.link
  intro l
  unfold World.add; simp only
  rw [lnk_setGraph]; exact ls.single hs l

/-! ### frame of `add` -/

theorem add_size {w : World} (hc : Closed w) (c o : Nat) : (w.add c o).ops.size = w.ops.size := by
  have ls := addToGraph_linkStep w (w.op c).graph o hc.link
  unfold World.add; simp only [World.setGraph, setOp_size]; exact ls.size

theorem add_lnk_old {w : World} (hc : Closed w) (c o l : Nat) (hl : l < w.links.size) :
    (w.add c o).lnk l = w.lnk l := by
  have ls := addToGraph_linkStep w (w.op c).graph o hc.link
  unfold World.add; simp only
  rw [lnk_setGraph]; exact ls.lnk_old l hl

theorem add_links_size {w : World} (hc : Closed w) (c o : Nat) : w.links.size ≤ (w.add c o).links.size := by
  have ls := addToGraph_linkStep w (w.op c).graph o hc.link
  unfold World.add; simp only
  exact ls.lsize

theorem add_op_other {w : World} (hc : Closed w) (c o j : Nat) (hjo : j ≠ o) (hjc : j ≠ c) :
    (w.add c o).op j = w.op j := by
  have ls := addToGraph_linkStep w (w.op c).graph o hc.link
  unfold World.add; simp only
  rw [op_setGraph', if_neg (fun h => hjc h.1.symm)]
  exact ls.op_other j hjo

theorem add_isComp {w : World} (hc : Closed w) (c o j : Nat) : ((w.add c o).op j).isComp = (w.op j).isComp := by
  have ls := addToGraph_linkStep w (w.op c).graph o hc.link
  unfold World.add; simp only
  rw [setGraph_isComp, isComp_noLink (ls.shape j)]

theorem unref_add {w : World} (hc : Closed w) (c o x : Nat) (hu : Unref w x) (hxo : x ≠ o)
    (hn : ∀ e ∈ (w.op c).graph, e.node ≠ x) : Unref (w.add c o) x := by
  intro y hy
  rcases dep_add hc c o hy with hd | ⟨_, e, he, hex⟩ | ⟨_, hxo'⟩
  · exact hu y hd
  · exact hn e he hex
  · exact hxo hxo'

/-! ### `setLink` to an existing link, and `extend` -/

theorem lnk_setLink (w : World) (i l k : Nat) : (w.setLink i l).lnk k = w.lnk k := rfl

/-- edges after handing the existing link `l` to `n`. -/
theorem dep_setLink (w : World) (n l : Nat) {x y : Nat} (h : Dep (w.setLink n l) x y) :
    Dep w x y ∨ (x = n ∧ y ∈ (w.lnk l).refs) := by
  unfold Dep at h
  rw [lnk_setLink, op_setLink] at h
  split at h
  · rename_i hx
    rcases h with h | h
    · exact Or.inr ⟨hx.1.symm, h⟩
    · rw [← hx.1]; exact Or.inl (Or.inr h)
  · exact Or.inl h

theorem setLink_ranked {w : World} {rk : Nat → Nat} (h : Ranked w rk) (n l : Nat)
    (hl : ∀ r ∈ (w.lnk l).refs, rk r < rk n) : Ranked (w.setLink n l) rk := by
  rw [ranked_iff] at h ⊢
  intro x y hxy
  rcases dep_setLink w n l hxy with hd | ⟨rfl, hr⟩
  · exact h x y hd
  · exact hl y hr

theorem setLink_closed {w : World} (hc : Closed w) (n l : Nat) (hl : l < w.links.size)
    (hr : ∀ r ∈ (w.lnk l).refs, r < w.ops.size) : Closed (w.setLink n l) := by
  refine ⟨fun o r hro => ?_, fun o e he => ?_, fun o => ?_⟩
  · rw [setLink_size]
    rcases dep_setLink w n l (Or.inl hro) with hd | ⟨_, h⟩
    · rcases hd with hd | ⟨_, e, he, rfl⟩
      · exact hc.ref o r hd
      · exact hc.node o e he
    · exact hr r h
  · rw [setLink_size]
    rw [op_setLink] at he
    split at he
    · rename_i hx; exact hc.node n e he
    · exact hc.node o e he
  · rw [setLink_links, op_setLink]
    split
    · exact hl
    · exact hc.link o

theorem mem_leaves {g : List Entry} {r : Nat} (h : r ∈ leaves g) : ∃ e ∈ g, e.node = r := by
  unfold leaves at h
  exact mem_listing_iff.mp (List.mem_filter.mp h).1

/-- invariant of the `extend` loop. -/
structure ExtInv (rk : Nat → Nat) (c rel : Nat) (N : List Nat) (w : World) (M : List Nat) : Prop where
  closed : Closed w
  ranked : Ranked w rk
  rel_lt : rel < w.links.size
  rel_rk : ∀ r ∈ (w.lnk rel).refs, ∀ n ∈ N, rk r < rk n
  rel_cl : ∀ r ∈ (w.lnk rel).refs, r < w.ops.size
  nodes : ∀ e ∈ (w.op c).graph, ∀ n ∈ M, rk e.node < rk n
  below : ∀ n ∈ M, rk n < rk c ∧ n < w.ops.size
  sub : ∀ n ∈ M, n ∈ N
  incr : M.Pairwise (fun a b => rk a < rk b)

theorem extInv_step {rk : Nat → Nat} {c rel : Nat} {N : List Nat} {w : World} {n : Nat} {M : List Nat}
    (h : ExtInv rk c rel N w (n :: M)) :
    ExtInv rk c rel N ((if !w.hasRel n then w.setLink n rel else w).add c n) M := by
  have hn := h.below n List.mem_cons_self
  have hnN := h.sub n List.mem_cons_self
  -- the world after the optional `setLink`
  have key : ∀ w1 : World, Closed w1 → Ranked w1 rk → w1.links = w.links → w1.ops.size = w.ops.size →
      (w1.op c).graph = (w.op c).graph → ExtInv rk c rel N (w1.add c n) M := by
    intro w1 hc1 hr1 hl1 hs1 hg1
    have hlnk : (w1.add c n).lnk rel = w.lnk rel := by
      rw [add_lnk_old hc1 c n rel (by rw [hl1]; exact h.rel_lt)]
      exact lnk_links_eq hl1 rel
    have hsz : (w1.add c n).ops.size = w.ops.size := by rw [add_size hc1, hs1]
    refine ⟨add_closed hc1 c n (by rw [hs1]; exact hn.2), ?_, ?_, ?_, ?_, ?_, ?_, ?_, ?_⟩
    · apply add_ranked hc1 hr1 c n hn.1
      intro e he; rw [hg1] at he
      exact h.nodes e he n List.mem_cons_self
    · have := add_links_size hc1 c n
      rw [hl1] at this; have := h.rel_lt; omega
    · rw [hlnk]; exact h.rel_rk
    · rw [hlnk, hsz]; exact h.rel_cl
    · intro e he m hm
      have ls := addToGraph_linkStep w1 (w1.op c).graph n hc1.link
      obtain ⟨e0, he0, hg⟩ := addToGraph_nodes w1 (w1.op c).graph n
      unfold World.add at he
      simp only at he
      rw [setGraph_graph_cases] at he
      split at he
      · rw [hg] at he
        rcases List.mem_append.mp he with h1 | h1
        · rw [hg1] at h1; exact h.nodes e h1 m (List.mem_cons_of_mem _ hm)
        · simp only [List.mem_singleton] at h1
          subst h1; rw [he0]
          exact (List.pairwise_cons.mp h.incr).1 m hm
      · rw [graph_noLink (ls.shape c), hg1] at he
        exact h.nodes e he m (List.mem_cons_of_mem _ hm)
    · intro m hm
      have := h.below m (List.mem_cons_of_mem _ hm)
      rw [hsz]; exact this
    · intro m hm; exact h.sub m (List.mem_cons_of_mem _ hm)
    · exact (List.pairwise_cons.mp h.incr).2
  split
  · apply key
    · exact setLink_closed h.closed n rel h.rel_lt h.rel_cl
    · exact setLink_ranked h.ranked n rel (fun r hr => h.rel_rk r hr n hnN)
    · exact setLink_links w n rel
    · exact setLink_size w n rel
    · rw [op_setLink]
      split
      · rename_i hx; rw [← hx.1]
      · rfl
  · exact key w h.closed h.ranked rfl rfl rfl

theorem extInv_fold {rk : Nat → Nat} {c rel : Nat} {N : List Nat} : ∀ (M : List Nat) (w : World),
    ExtInv rk c rel N w M →
    ExtInv rk c rel N (M.foldl (fun w n => (if !w.hasRel n then w.setLink n rel else w).add c n) w) [] := by
  intro M
  induction M with
  | nil => intro w h; exact h
  | cons n M ih => intro w h; exact ih _ (extInv_step h)

/-- **`extend` keeps a ranking** in which the nodes of `other` lie strictly between the nodes of `c` and `c`
    itself, increasing in listing order (the group link to the leaves of `c` is then ranked as well). -/
theorem extend_ranked {w : World} {rk : Nat → Nat} (hc : Closed w) (h : Ranked w rk) (c other : Nat)
    (h1 : ∀ n ∈ listing (w.op other).graph, rk n < rk c)
    (h2 : ∀ e ∈ (w.op c).graph, ∀ n ∈ listing (w.op other).graph, rk e.node < rk n)
    (h3 : (listing (w.op other).graph).Pairwise (fun a b => rk a < rk b)) :
    Ranked (w.extend c other) rk ∧ Closed (w.extend c other) := by
  unfold World.extend
  simp only
  have key : ∀ L : Link, (∀ r ∈ L.refs, ∃ e ∈ (w.op c).graph, e.node = r) →
      ExtInv rk c (w.newLink L).2 (listing (w.op other).graph) (w.newLink L).1 (listing (w.op other).graph) := by
    intro L hL
    have hop : ∀ j, (w.newLink L).1.op j = w.op j := fun j => rfl
    have hsz : (w.newLink L).1.ops.size = w.ops.size := rfl
    refine ⟨newLink_closed hc L, newLink_ranked hc h L, ?_, ?_, ?_, ?_, ?_, fun n hn => hn, h3⟩
    · unfold World.newLink; simp
    · rw [lnk_newLink_new]
      intro r hr n hn
      obtain ⟨e, he, rfl⟩ := hL r hr
      exact h2 e he n hn
    · rw [lnk_newLink_new, hsz]
      intro r hr
      obtain ⟨e, he, rfl⟩ := hL r hr
      exact hc.node c e he
    · rw [hop]; exact h2
    · intro n hn
      rw [hsz]
      refine ⟨h1 n hn, ?_⟩
      obtain ⟨e, he, rfl⟩ := mem_listing_iff.mp hn
      exact hc.node other e he
  split
  · have := extInv_fold _ _ (key {} (fun r hr => by cases hr))
    exact ⟨this.ranked, this.closed⟩
  · have := extInv_fold _ _ (key { multi := true, refs := leaves (w.op c).graph } (fun r hr => mem_leaves hr))
    exact ⟨this.ranked, this.closed⟩

/-! ### Boolean check of `Unref` on a literal heap -/

def unrefCheck (w : World) (o : Nat) : Bool :=
  (List.range (w.ops.size + 1)).all fun x =>
    ((w.lnk (w.op x).link).refs.all fun r => decide (r ≠ o)) &&
    ((w.op x).graph.all fun e => decide (e.node ≠ o))

theorem unref_of_check (w : World) (o : Nat) (h : unrefCheck w o = true) : Unref w o := by
  unfold unrefCheck at h
  rw [List.all_eq_true] at h
  intro x hx
  have key : ∃ x', x' < w.ops.size + 1 ∧ w.op x = w.op x' := by
    by_cases hlt : x < w.ops.size + 1
    · exact ⟨x, hlt, rfl⟩
    · exact ⟨w.ops.size, by omega, by
        rw [op_of_ge w (by omega : w.ops.size ≤ x), op_of_ge w (Nat.le_refl _)]⟩
  obtain ⟨x', hx', e1⟩ := key
  have := h x' (List.mem_range.mpr hx')
  simp only [Bool.and_eq_true, List.all_eq_true, decide_eq_true_eq] at this
  unfold Dep at hx
  rw [e1] at hx
  rcases hx with hr | ⟨_, e, he, hen⟩
  · exact this.1 o hr rfl
  · exact this.2 e he hen

end Qco.Defined
