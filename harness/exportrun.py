"""Build-program runner with the exporter observers (`stim`, `stimcount`, `openql`) — shared by C08 and C15.

`progs.ImplRun` is subclassed (progs.py / stream.py are shared files and stay untouched); the worker loop is the
one of `stream._run_one` with the run class as a parameter.

Canonical forms (identical to what the Lean driver prints):

  stim c       `NAME:targets:args;… # <measurements>`; targets `3` (qubit) or `r-2` (rec[-2]), one instruction per
               single-qubit target / per CZ pair, REPEAT blocks multiplied out (own unroller — `stim.Circuit.
               flattened()` is NOT used because it also folds SHIFT_COORDS into the detector coordinates);
               `error` when the exporter raises.
  openql c     see `openql_answer`.
"""
from __future__ import annotations
import atexit
import contextlib
import io
import json
import multiprocessing as mp
import os
import shutil
import tempfile
import uuid
import warnings

from . import common, progs

EXPORT_OBSERVERS = {'stim', 'stimcount', 'openql', 'openqlexec', 'openqlinorder'}

# ----------------------------------------------------------------------------- Stim canonical form

UNTARGETED = {'TICK', 'SHIFT_COORDS'}
WHOLE = {'DETECTOR', 'OBSERVABLE_INCLUDE'}      # all targets belong to one instruction (never fused by Stim)
PAIRED = {'CZ'}


class NonIntegral(Exception):
    pass


def _int_arg(x):
    if float(x) != int(x):
        raise NonIntegral(repr(x))
    return int(x)


def unroll(circ):
    """instructions of a stim.Circuit with REPEAT blocks multiplied out (SHIFT_COORDS kept)."""
    import stim
    out = []
    for ins in circ:
        if isinstance(ins, stim.CircuitRepeatBlock):
            body = unroll(ins.body_copy())
            for _ in range(ins.repeat_count):
                out.extend(body)
        else:
            out.append(ins)
    return out


def split_instruction(ins):
    """one stim instruction → list of (name, targets, args) with fused targets split."""
    name = ins.name
    ts = []
    for t in ins.targets_copy():
        if t.is_measurement_record_target:
            ts.append(f'r{t.value}')
        elif t.is_qubit_target:
            ts.append(str(t.value))
        else:
            ts.append(f'?{t}')
    args = tuple(_int_arg(a) for a in ins.gate_args_copy())
    if name in UNTARGETED or name in WHOLE:
        return [(name, tuple(ts), args)]
    if name in PAIRED:
        return [(name, (ts[i], ts[i + 1]), args) for i in range(0, len(ts), 2)]
    return [(name, (t,), args) for t in ts]


def flat_program(circ):
    return [y for ins in unroll(circ) for y in split_instruction(ins)]


def show_instr(i):
    return f'{i[0]}:{",".join(i[1])}:{",".join(str(a) for a in i[2])}'


def show_program(flat, nmeas):
    return (';'.join(show_instr(i) for i in flat) if flat else '-') + f' # {nmeas}'


def parse_program(text):
    """inverse of show_program (for the model's answer). Returns (flat, nmeas) or None for error/undef."""
    if text in ('error', 'undef', 'bad-op') or ' # ' not in text:
        return None
    body, n = text.rsplit(' # ', 1)
    flat = []
    if body != '-':
        for part in body.split(';'):
            name, ts, args = part.split(':')
            flat.append((name, tuple(ts.split(',')) if ts else (), tuple(int(a) for a in args.split(',')) if args else ()))
    return flat, int(n)


_stim_api = None


def stim_api():
    global _stim_api
    if _stim_api is None:
        progs.api()
        with contextlib.redirect_stderr(io.StringIO()):
            from qce_circuit.addon_stim.factory_manager import to_stim, StimFactoryManager
        _stim_api = (to_stim, StimFactoryManager)
    return _stim_api


def export_stim(circ):
    """(flat, nmeas) of the real exporter on a DeclarativeCircuit; raises what the exporter raises."""
    to_stim, _ = stim_api()
    s = to_stim(circ)
    return flat_program(s), s.num_measurements


# ----------------------------------------------------------------------------- OpenQL recording doubles

class RecKernel:
    """Recording stand-in for `ql.Kernel`. With `real` set it forwards every call to a real OpenQL kernel.
    Objects are identified by their construction index (names may collide)."""

    def __init__(self, log, name, real=None):
        self.log = log
        self.name = name
        self.real = real
        self.idx = sum(1 for e in log if e[0] in ('program', 'kernel'))
        log.append(('kernel', self.idx, name))

    def gate(self, name, qubits, *a, **kw):
        is_list = isinstance(qubits, (list, tuple))
        qs = list(qubits) if is_list else [qubits]
        self.log.append(('gate', self.idx, name, tuple(int(q) for q in qs), 'list' if is_list else 'int',
                         repr(a) if a else '', repr(sorted(kw.items())) if kw else ''))
        if self.real is not None:
            self.real.gate(name, qubits, *a, **kw)

    def cz(self, q0, q1):
        self.log.append(('cz', self.idx, int(q0), int(q1)))
        if self.real is not None:
            self.real.cz(q0, q1)

    def barrier(self, qubits):
        self.log.append(('barrier', self.idx, tuple(int(q) for q in qubits)))
        if self.real is not None:
            self.real.barrier(qubits)

    def wait(self, qubits, duration):
        self.log.append(('wait', self.idx, tuple(int(q) for q in qubits), duration))
        if self.real is not None:
            self.real.wait(qubits, duration)

    def __getattr__(self, item):
        if item.startswith('__'):
            raise AttributeError(item)

        def f(*a, **kw):
            self.log.append(('unknown', self.idx, item, repr(a), repr(kw)))
            if self.real is not None:
                return getattr(self.real, item)(*a, **kw)
        return f


class RecProgram:
    def __init__(self, log, name, real=None):
        self.log = log
        self.name = name
        self.real = real
        self.idx = sum(1 for e in log if e[0] in ('program', 'kernel'))
        log.append(('program', self.idx, name))

    def add_kernel(self, k):
        self.log.append(('add_kernel', self.idx, k.idx))
        if self.real is not None:
            self.real.add_kernel(k.real)

    def add_program(self, p):
        self.log.append(('add_program', self.idx, p.idx))
        if self.real is not None:
            self.real.add_program(p.real)

    def __getattr__(self, item):
        if item.startswith('__'):
            raise AttributeError(item)

        def f(*a, **kw):
            self.log.append(('unknown', self.idx, item, repr(a), repr(kw)))
            if self.real is not None:
                return getattr(self.real, item)(*a, **kw)
        return f


def _call_token(e):
    t = e[0]
    if t == 'gate':
        extra = (f'!{e[5]}{e[6]}' if (e[5] or e[6]) else '')
        if e[4] == 'list':
            return f'g:{e[2]}:{",".join(str(q) for q in e[3])}{extra}'
        return f'u:{e[2]}:{e[3][0]}{extra}'
    if t == 'cz':
        return f'cz:{e[2]},{e[3]}'
    if t == 'barrier':
        return f'b:{",".join(str(q) for q in e[2])}'
    if t == 'wait':
        d = e[3]
        return f'w:{",".join(str(q) for q in e[2])}:{d if isinstance(d, int) and not isinstance(d, bool) else repr(d)}'
    return f'?{e[2]}{e[3]}{e[4]}'


def openql_tokens(log):
    """Recorder log → trace tokens in the model's format (`open=<program name>|<kernel name>`, calls, `ap`,
    `close`).  Anything that breaks the bracket discipline of `construct` is spelled out with object indices, which
    can never equal a model answer."""
    toks = []
    stack = []          # [program idx, kernel idx | None, program name]
    last_closed = None
    for e in log:
        t = e[0]
        if t == 'program':
            stack.append([e[1], None, e[2]])
        elif t == 'kernel':
            if stack and stack[-1][1] is None:
                stack[-1][1] = e[1]
                toks.append(f'open={stack[-1][2]}|{e[2]}')
            else:
                toks.append(f'kernel!{e[1]}={e[2]}')
        elif t in ('gate', 'cz', 'barrier', 'wait', 'unknown'):
            tok = _call_token(e)
            if not stack or stack[-1][1] != e[1]:
                tok += f'@{e[1]}'
            toks.append(tok)
        elif t == 'add_program':
            ok = stack and stack[-1][0] == e[1] and last_closed == e[2]
            toks.append('ap' if ok else f'ap!{e[1]},{e[2]}')
        elif t == 'add_kernel':
            ok = stack and stack[-1][0] == e[1] and stack[-1][1] == e[2]
            toks.append('close' if ok else f'close!{e[1]},{e[2]}')
            if ok:
                last_closed = stack.pop()[0]
    return toks


def openql_exec(log):
    """Gate calls in the order the exported program executes them, from the recorder log: a program is the list of
    its kernels in the order they were added, `add_program` appends the other program's kernels (trusted reading of
    OpenQL; the thorough tier compares it with the cQASM OpenQL writes)."""
    kernels, programs, top = {}, {}, None
    for e in log:
        t = e[0]
        if t == 'program':
            programs[e[1]] = []
            top = e[1] if top is None else top
        elif t == 'kernel':
            kernels[e[1]] = []
        elif t in ('gate', 'cz', 'barrier', 'wait', 'unknown'):
            kernels.setdefault(e[1], []).append(_call_token(e))
        elif t == 'add_program':
            programs[e[1]] = programs[e[1]] + programs[e[2]]
        elif t == 'add_kernel':
            programs[e[1]] = programs[e[1]] + [e[2]]
    return [c for k in programs.get(top, []) for c in kernels[k]] if top is not None else []


def model_trace_to_names(text):
    """model trace (`open:<depth>:<top classes>:<classes>`) → the same trace with the names `construct` derives."""
    out = []
    for tok in text.split(';') if text else []:
        if tok.startswith('open:'):
            _, d, top, seq = tok.split(':')
            pn, _ = uuid_names(top.split('_') if top else [])
            _, kn = uuid_names(seq.split('_') if seq else [])
            out.append(f'open={"sub_" * int(d)}{pn}|{kn}')
        else:
            out.append(tok)
    return ';'.join(out)


class OpenQLRecorder:
    """Installs the doubles by replacing `PlatformManager.construct_program / construct_kernel` (class attributes
    of the imported module, nothing is written into /repo).  `real=True` additionally drives a real OpenQL
    platform built from `ql.Platform.get_platform_json()` in a private temporary directory."""

    _tmp = None
    _platform = None
    _base = None      # set by run_impl_many: pool workers put their directory below it, the parent removes it

    def __init__(self):
        progs.api()
        with contextlib.redirect_stderr(io.StringIO()):
            from qce_circuit.addon_openql import platform_manager as pm
            from qce_circuit.addon_openql.factory_manager import to_openql, OpenQLFactoryManager
        self.pm = pm
        self.to_openql = to_openql
        self.manager = OpenQLFactoryManager

    @classmethod
    def real_platform(cls):
        if cls._base is not None and (cls._tmp is None or not cls._tmp.startswith(cls._base)):
            cls._platform = None       # a pool worker never shares the parent's output directory
        if cls._platform is None:
            import openql as ql
            cls._tmp = tempfile.mkdtemp(prefix='qcoverif_openql_', dir=cls._base)
            if cls._base is None:
                atexit.register(shutil.rmtree, cls._tmp, True)   # (atexit does not run in pool workers)
            cfg = ql.Platform.get_platform_json()
            cfg['hardware_settings']['qubit_number'] = 100
            cfg['instructions']['update_ph'] = dict(prototype=['Z:qubit'], duration=40)   # as PlatformManager does
            path = os.path.join(cls._tmp, 'platform.json')
            with open(path, 'w') as f:
                json.dump(cfg, f)
            ql.set_option('output_dir', cls._tmp)
            ql.set_option('log_level', 'LOG_NOTHING')
            cls._platform = ql.Platform('qcoverif', path)
        return cls._platform

    def export(self, circ, real=False, circuit_id=None):
        """Runs `to_openql(circ)` with the doubles installed. Returns (log, program double or None, exception or None)."""
        log = []
        if real:
            import openql as ql
            plat = self.real_platform()
            nq = plat.get_qubit_number()
            mk_p = lambda name: RecProgram(log, name, ql.Program(name, plat, nq))
            mk_k = lambda name: RecKernel(log, name, ql.Kernel(name, plat, nq))
        else:
            mk_p = lambda name: RecProgram(log, name)
            mk_k = lambda name: RecKernel(log, name)
        PM = self.pm.PlatformManager
        old_p, old_k = PM.__dict__['construct_program'], PM.__dict__['construct_kernel']
        PM.construct_program = classmethod(lambda cls, name: mk_p(name))
        PM.construct_kernel = classmethod(lambda cls, name: mk_k(name))
        try:
            try:
                prog = self.to_openql(circ) if circuit_id is None else self.to_openql(circ, circuit_id=circuit_id)
                return log, prog, None
            except RecursionError:
                raise
            except Exception as e:  # noqa
                return log, None, e
        finally:
            PM.construct_program = old_p
            PM.construct_kernel = old_k


def uuid_names(class_names):
    """program/kernel names `construct` derives from a class-name sequence (uuid5, first 8 hex digits)."""
    u = str(uuid.uuid5(uuid.NAMESPACE_DNS, '_'.join(class_names)))[:8]
    return f'program_{u}', f'kernel_{u}'


# ----------------------------------------------------------------------------- runner

class ExportRun(progs.ImplRun):
    """ImplRun + exporter observers. Keeps the last exports for the probes."""

    openql_real = False

    def __init__(self, clear_cache=False):
        super().__init__(clear_cache=clear_cache)
        self.last_stim = None      # (circuit index, flat, nmeas) of the last successful `stim`
        self.last_stim_error = None
        self.last_openql = None
        self._rec = None

    def recorder(self):
        if self._rec is None:
            self._rec = OpenQLRecorder()
        return self._rec

    def step(self, cmd):
        k = cmd[0]
        if k in ('stim', 'stimcount'):
            self.last_stim = None
            self.last_stim_error = None
            try:
                flat, n = export_stim(self.circs[cmd[1]])
            except RecursionError:
                raise
            except NonIntegral as e:
                return f'EXC:NonIntegral:{e}'
            except Exception as e:  # noqa
                self.last_stim_error = f'{type(e).__name__}:{str(e)[:80]}'   # a string: the exception object would keep this run alive
                return 'error'
            self.last_stim = (cmd[1], flat, n)
            return show_program(flat, n) if k == 'stim' else str(n)
        if k == 'openql':
            return self.observe_openql(cmd[1])
        if k == 'openqlexec':
            log, _, exc = self.recorder().export(self.circs[cmd[1]])
            if exc is not None:
                return f'EXC:{type(exc).__name__}:{str(exc)[:80]}'
            return ';'.join(openql_exec(log)) or '-'
        return super().step(cmd)


def _observe_openql(self, c):
    """`openql c`: trace of the pure recording doubles (never raises inside OpenQL) + a second export driving real
    OpenQL objects, kept for the probes (exception, cQASM)."""
    circ = self.circs[c]
    rec = self.recorder()
    log, _, exc = rec.export(circ)
    info = {'circ': c, 'log': log, 'exc': None if exc is None else f'{type(exc).__name__}:{str(exc)[:120]}',
            'tokens': openql_tokens(log), 'exec': openql_exec(log), 'real_exc': None, 'real_log': None, 'qasm': None}
    if self.openql_real:
        rlog, rprog, rexc = rec.export(circ, real=True)
        info['real_log'] = rlog
        info['real_exc'] = None if rexc is None else f'{type(rexc).__name__}:{str(rexc).splitlines()[0][:160]}'
        if rexc is None and self.openql_compile:
            info['qasm'] = compile_qasm(rprog)
    self.last_openql = info
    if exc is not None:
        return f'EXC:{type(exc).__name__}:{str(exc)[:80]}'
    return ';'.join(info['tokens'])


ExportRun.observe_openql = _observe_openql
ExportRun.openql_compile = False


def compile_qasm(rprog):
    """`Program.compile()` on the real program; returns the gate lines of the cQASM OpenQL writes (or an error
    string). The output directory is the recorder's private temporary directory."""
    try:
        rprog.real.compile()
    except Exception as e:  # noqa
        return f'EXC:{type(e).__name__}:{str(e).splitlines()[0][:160]}'
    path = os.path.join(OpenQLRecorder._tmp, rprog.name + '.qasm')
    try:
        with open(path) as f:
            text = f.read()
    except OSError as e:
        return f'EXC:{type(e).__name__}'
    finally:
        for fn in os.listdir(OpenQLRecorder._tmp):
            if fn.endswith('.qasm') or fn.endswith('.json') and fn != 'platform.json':
                try:
                    os.remove(os.path.join(OpenQLRecorder._tmp, fn))
                except OSError:
                    pass
    return text


PROGRAM_TIMEOUT_S = 45


class ProgramTimeout(BaseException):
    pass


def _on_alarm(signum, frame):
    raise ProgramTimeout()


def _run_one(args):
    """Worker (same loop as stream._run_one, run class as a parameter). A program that takes longer than
    PROGRAM_TIMEOUT_S on the implementation (unrolling deeply nested repeated blocks is super-linear) is cut off:
    its answer list ends with 'TIMEOUT' and the caller drops it from the comparison (counted in the evidence)."""
    import signal
    old = signal.signal(signal.SIGALRM, _on_alarm)
    signal.setitimer(signal.ITIMER_REAL, PROGRAM_TIMEOUT_S)
    try:
        return _run_one_inner(args)
    except ProgramTimeout:
        return ['TIMEOUT'], []
    finally:
        signal.setitimer(signal.ITIMER_REAL, 0)
        signal.signal(signal.SIGALRM, old)


def _run_one_inner(args):
    prog, probe_names, clear_cache, run_cls = args
    from . import probes as P
    probe_objs = [P.REGISTRY[n]() for n in probe_names]
    r = run_cls(clear_cache=clear_cache)
    out = []
    fails = []
    try:
        with contextlib.redirect_stderr(io.StringIO()), warnings.catch_warnings():
            warnings.simplefilter('ignore')
            for i, cmd in enumerate(prog):
                try:
                    for p in probe_objs:
                        p.before(r, i, cmd)
                    ans = r.step(cmd)
                    out.append(ans)
                    for p in probe_objs:
                        for f in p.after(r, i, cmd, ans) or []:
                            fails.append({'probe': p.name, 'at': i, **f})
                except RecursionError:
                    out.append('undef')
                    break
                except progs.NonDyadic as e:
                    out.append(f'EXC:NonDyadic:{e}')
                    break
                except AssertionError as e:
                    out.append(f'EXC:Assert:{e}')
                    break
                except Exception as e:  # noqa
                    out.append(f'EXC:{type(e).__name__}:{str(e)[:120]}')
                    break
    finally:
        # leave a pending global-duration override explicitly (ImplRun relies on the generator being collected)
        if r.in_override and r.ctx is not None:
            try:
                r.ctx.__exit__(None, None, None)
            except Exception:  # noqa
                pass
            r.in_override = False
        r.close()
    return out, fails


def run_impl_many(programs, probe_names, run_cls=ExportRun, clear_cache=False, jobs=None):
    jobs = jobs or min(16, os.cpu_count() or 1)
    args = [(p, probe_names, clear_cache, run_cls) for p in programs]
    if jobs <= 1 or len(programs) < 32:
        return [_run_one(a) for a in args]
    base = tempfile.mkdtemp(prefix='qcoverif_openql_pool_')
    saved = (OpenQLRecorder._base, OpenQLRecorder._tmp, OpenQLRecorder._platform)
    OpenQLRecorder._base = base
    try:
        with mp.get_context('fork').Pool(jobs) as pool:
            return pool.map(_run_one, args, chunksize=4)
    finally:
        OpenQLRecorder._base, OpenQLRecorder._tmp, OpenQLRecorder._platform = saved
        shutil.rmtree(base, True)


def ended_in_mutator(prog, impl_out):
    """index of a non-observer command at which the implementation recursed without bound (R14 shape: `flatten`
    after an unrolling), else None."""
    for i, io in enumerate(impl_out):
        if io == 'undef' and prog[i][0] not in progs.OBSERVERS and prog[i][0] not in EXPORT_OBSERVERS:
            return i
    return None


def compare(prog, impl_out, model_out):
    """stream.compare, except that an unbounded recursion inside a MUTATOR ends the comparable part of the run:
    the implementation has no state left to export, and whether the heap model's `flatten`/`apply` is undefined
    there is the business of C01/C11 (finding R14), not of the exporters."""
    from . import stream
    i = ended_in_mutator(prog, impl_out)
    if i is not None:
        return stream.compare(prog[:i], impl_out[:i], model_out[:i])
    return stream.compare(prog, impl_out, model_out)


def timed_out(impl_out):
    return bool(impl_out) and impl_out[-1] == 'TIMEOUT'


def expanded_sizes(prog):
    """static estimate, per circuit, of the number of leaf operations after unrolling (counts from fixed strategies
    and the largest registry value 3) — used by the generators to keep `apply` affordable."""
    size, rep = [], []
    for cmd in prog:
        k = cmd[0]
        if k == 'new':
            size.append(0)
            rep.append(int(cmd[1][1:]) if cmd[1].startswith('f') else 3)
        elif k == 'copy':
            size.append(size[cmd[1]])
            rep.append(rep[cmd[1]])
        elif k == 'op':
            size[cmd[1]] += 1
        elif k == 'sub':
            size[cmd[1]] += rep[cmd[2]] * size[cmd[2]]
        elif k == 'apply':
            size[cmd[1]] *= rep[cmd[1]]
            rep[cmd[1]] = 1
    return [s * r for s, r in zip(size, rep)]
