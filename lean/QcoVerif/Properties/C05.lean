import QcoVerif.Model.Builder
import QcoVerif.Generated.CopyTable
import QcoVerif.Lemmas.CopyGraph
import QcoVerif.Lemmas.CopyGraphExample
import QcoVerif.Lemmas.CopyTiming
import QcoVerif.Lemmas.CopyNested
import QcoVerif.Lemmas.CopyNestedExample
/-
  C05 — copies are faithful and independent.

  Class level (full): the per-class `copy()` methods (`Op.copyFields`, written to mirror the source field by
  field; compared with the real methods for all 26 classes by the correspondence run) keep kind, qubits, channel,
  duration strategy, tag and annotation fields of every operation the constructors can produce, and the link
  copy keeps the relation type.  Heap level: a copy allocates only fresh objects and links and writes to no
  existing one (`copyLeaf_frame`, `copyLink_frame`) — the basis of independence.
  Graph level (false without a side condition; proved under the hypotheses H1–H4 in the sections appended at the end:
  `copy_graph_image_flat`, `copy_graph_image_nested`): "the copy's listing is the image of the
  original's with every internal relation re-pointed" fails when two distinct nodes are value-equal keys of the
  transfer lookup (known finding R3); `lookup_overwrite_witness` shows the conflation on the lookup itself.
-/
namespace Qco.C05

open Qco

/-- what the public constructors can produce: fields a class does not have keep their defaults, and classes whose
    duration strategy is not a constructor argument carry the class default. -/
def Op.WellFormed (op : Op) : Prop :=
  (op.cls ∈ [Cls.wait, .vacant, .empty, .twovacant] ∨ op.chan = .all) ∧
  (op.cls ∈ [Cls.single, .two, .wait, .vacant, .empty, .twovacant] ∨ op.dur = op.cls.defaultDur) ∧
  (op.cls = .measure ∨ (op.tag = 0 ∧ op.reg = 0)) ∧
  (op.cls ∈ [Cls.detector, .observable, .cshift] ∨ op.ints = []) ∧
  op.cls ≠ .comp

/-- **per-class copy is faithful**: kind, qubits, channel, duration strategy, acquisition tag and annotation
    fields are those of the original — for each of the 26 leaf classes. -/
theorem copy_class_faithful (op : Op) (h : Op.WellFormed op) :
    op.copyFields.cls = op.cls ∧ op.copyFields.qs = op.qs ∧ op.copyFields.chan = op.chan ∧
    op.copyFields.dur = op.dur ∧ op.copyFields.tag = op.tag ∧ op.copyFields.ints = op.ints ∧
    op.copyFields.leafChans = op.leafChans := by
  obtain ⟨hc, hd, ht, hi, hne⟩ := h
  cases hcls : op.cls <;>
    simp_all [Op.copyFields, Op.leafChans, Cls.defaultDur, Op.WellFormed]

/-- every class transfers its relation (Barrier and CoordinateShiftOperation since the R4 repair). -/
theorem copy_keeps_link_all_classes (c : Cls) : c.copyKeepsLink = true := rfl

theorem newLink_lnk_new (w : World) (L : Link) : (w.newLink L).1.lnk (w.newLink L).2 = L := by
  simp [World.newLink, World.lnk, Array.getD]

theorem newLink_lnk_old (w : World) (L : Link) (i : Nat) (h : i < w.links.size) :
    (w.newLink L).1.lnk i = w.lnk i := by
  simp [World.newLink, World.lnk, Array.getD, Array.size_push, h, Nat.lt_succ_of_lt h, Array.getElem_push_lt h]

theorem newOp_op_old (w : World) (o : Op) (i : Nat) (h : i < w.ops.size) : (w.newOp o).1.op i = w.op i := by
  simp [World.newOp, World.op, Array.getD, Array.size_push, h, Nat.lt_succ_of_lt h, Array.getElem_push_lt h]

theorem newOp_op_new (w : World) (o : Op) : (w.newOp o).1.op (w.newOp o).2 = o := by
  simp [World.newOp, World.op, Array.getD]

/-- the link copy is the allocation of ONE new link on a heap with the same objects and links. -/
theorem copyLink_eq (w : World) (l : Nat) (lk : Lookup) :
    ∃ (w' : World) (L : Link), w'.ops = w.ops ∧ w'.links = w.links ∧ w.copyLink l lk = w'.newLink L ∧
      L.rel = (w.lnk l).rel ∧ L.multi = (w.lnk l).multi := by
  unfold World.copyLink
  by_cases hm : (w.lnk l).multi = true
  · have hc : ¬ ((!(w.lnk l).multi) = true) := by simp [hm]
    simp only [if_neg hc]
    refine ⟨{ w with warnings := w.warnings +
        ((w.lnk l).refs.filter (fun r => (lk.get? (w.eqKey r)).isNone)).length },
      { multi := true, refs := (w.lnk l).refs.filterMap (fun r => lk.get? (w.eqKey r)), rel := (w.lnk l).rel },
      rfl, rfl, rfl, rfl, ?_⟩
    simp [hm]
  · have hm' : (w.lnk l).multi = false := by simpa using hm
    have hc : (!(w.lnk l).multi) = true := by simp [hm']
    simp only [if_pos hc]
    refine ⟨w, { refs := (match (w.lnk l).refs.head? with
        | none => []
        | some r => match lk.get? (w.eqKey r) with
          | none => []
          | some r' => [r']), rel := (w.lnk l).rel }, rfl, rfl, rfl, rfl, ?_⟩
    simp [hm']

/-- the link copy keeps the relation type and the kind of link. -/
theorem copyLink_rel (w : World) (l : Nat) (lk : Lookup) :
    ((w.copyLink l lk).1.lnk (w.copyLink l lk).2).rel = (w.lnk l).rel ∧
    ((w.copyLink l lk).1.lnk (w.copyLink l lk).2).multi = (w.lnk l).multi ∧
    (w.copyLink l lk).2 = w.links.size := by
  obtain ⟨w', L, _, hl, he, hr, hm⟩ := copyLink_eq w l lk
  rw [he, newLink_lnk_new]
  exact ⟨hr, hm, by simp [World.newLink, hl]⟩

/-- the link copy leaves every existing object and link as it was. -/
theorem copyLink_frame (w : World) (l : Nat) (lk : Lookup) :
    (w.copyLink l lk).1.ops = w.ops ∧
    ∀ i, i < w.links.size → (w.copyLink l lk).1.lnk i = w.lnk i := by
  obtain ⟨w', L, ho, hl, he, _, _⟩ := copyLink_eq w l lk
  rw [he]
  refine ⟨by simp [World.newLink, ho], fun i hi => ?_⟩
  rw [newLink_lnk_old w' L i (hl ▸ hi)]
  simp [World.lnk, hl]

/-- **a leaf copy is a fresh object**: its identity is new and no existing object or link is written — whatever
    is done to the copy later through its own identity cannot be observed through the original's. -/
theorem copyLeaf_frame (w : World) (o : Nat) (lk : Lookup) :
    (w.copyLeaf o lk).2 = w.ops.size ∧
    (∀ i, i < w.ops.size → (w.copyLeaf o lk).1.op i = w.op i) ∧
    (∀ i, i < w.links.size → (w.copyLeaf o lk).1.lnk i = w.lnk i) := by
  unfold World.copyLeaf
  simp only [copy_keeps_link_all_classes, if_true]
  have hf := copyLink_frame w (w.op o).link lk
  refine ⟨?_, ?_, ?_⟩
  · simp [World.newOp, hf.1]
  · intro i hi
    rw [newOp_op_old _ _ i (by rw [hf.1]; exact hi)]
    have h1 := hf.1
    unfold World.op at h1 ⊢
    rw [h1]
  · intro i hi
    simp only [World.newOp]
    exact hf.2 i hi

/-- the copy carries the class-faithful fields. -/
theorem copyLeaf_fields (w : World) (o : Nat) (lk : Lookup) :
    ((w.copyLeaf o lk).1.op (w.copyLeaf o lk).2).cls = (w.op o).copyFields.cls ∧
    ((w.copyLeaf o lk).1.op (w.copyLeaf o lk).2).qs = (w.op o).copyFields.qs ∧
    ((w.copyLeaf o lk).1.op (w.copyLeaf o lk).2).chan = (w.op o).copyFields.chan ∧
    ((w.copyLeaf o lk).1.op (w.copyLeaf o lk).2).dur = (w.op o).copyFields.dur ∧
    ((w.copyLeaf o lk).1.op (w.copyLeaf o lk).2).tag = (w.op o).copyFields.tag ∧
    ((w.copyLeaf o lk).1.op (w.copyLeaf o lk).2).ints = (w.op o).copyFields.ints := by
  unfold World.copyLeaf
  simp only [copy_keeps_link_all_classes, if_true]
  rw [newOp_op_new]
  exact ⟨rfl, rfl, rfl, rfl, rfl, rfl⟩

/-- the Python `dict` semantics of the transfer lookup: a second object with an equal key overwrites the entry of
    the first, so a follower of the first is re-pointed to the copy of the second (the mechanism behind R3). -/
theorem lookup_overwrite_witness (k : EqKey) (a b : Nat) :
    (Lookup.set (Lookup.set ([] : Lookup) k a) k b).get? k = some b := by
  simp [Lookup.set, Lookup.get?]

/-- after `set k v` the lookup answers `v` for `k` (whether the key was new or overwritten). -/
theorem lookup_get_set (lk : Lookup) (k : EqKey) (v : Nat) : (Lookup.set lk k v).get? k = some v := by
  unfold Lookup.set Lookup.get?
  induction lk with
  | nil => simp
  | cons p ps ih =>
    by_cases hp : p.1 = k
    · simp [hp]
    · have hp' : (p.1 == k) = false := by simpa using hp
      by_cases h : ps.any (fun p => p.1 == k) = true
      · simp only [List.any_cons, hp', Bool.false_or, h, if_true, List.map_cons, Bool.false_eq_true, if_false,
          List.find?_cons] at ih ⊢
        exact ih
      · have h' : ps.any (fun p => p.1 == k) = false := Bool.eq_false_iff.mpr h
        simp only [List.any_cons, hp', Bool.false_or, h', Bool.false_eq_true, if_false, List.cons_append,
          List.find?_cons] at ih ⊢
        exact ih

/-! ### the model's copy IS what the source text of the `copy()` methods says (regenerated on every run)

`Gen.copySources` is the abstract that `tools/extract_tables.py` reads with `ast` from the source of every `copy()` method
of the live code: constructed class, and which constructor arguments are passed on from the same field of `self`.
`Cls.copyAbstract` computes the same abstract from the MODEL's copy by copying a probe operation all of whose fields are
non-default.  The theorems below are re-checked by `lake build` against the regenerated table: an edit of a `copy()`
method that constructs another class or drops / adds a field breaks them. -/

/-- a probe operation of class `c` with every field set to a non-default value. -/
def probeOp (c : Cls) : Op :=
  { cls := c, qs := [7, 9], chan := .fl, dur := .fixed 123, link := 4, tag := 5, reg := 3,
    ints := [some 1, none, some 3, some 4, some 5] }

/-- the abstract of the model's per-class copy, in the vocabulary of `Gen.CopySrc`. -/
def Cls.copyAbstract (c : Cls) : Gen.CopySrc :=
  let cp := (probeOp c).copyFields
  { cls := c.name, target := cp.cls.name, qubits := cp.qs == (probeOp c).qs, chan := cp.chan == (probeOp c).chan,
    dur := cp.dur == (probeOp c).dur, link := c.copyKeepsLink, tag := cp.tag == (probeOp c).tag,
    reg := cp.reg == (probeOp c).reg && c == .measure, ints := cp.ints == (probeOp c).ints }

/-- **every `copy()` method of the source has exactly the abstract of the model's copy** (26 leaf classes). -/
theorem copy_methods_match_source :
    Gen.copySources = (Cls.all.filter (fun c => c != .comp)).map Cls.copyAbstract := by decide +kernel

/-- both link classes keep the relation type and re-point through the lookup — as `World.copyLink` does
    (`copyLink_rel`). -/
theorem link_copies_match_source :
    Gen.linkCopySources = [{ cls := "RelationLink", keepsType := true, usesLookup := true },
                           { cls := "MultiRelationLink", keepsType := true, usesLookup := true }] := by decide +kernel

/-- `CircuitCompositeOperation.copy` has the shape `World.copyObj` models: link copied through the lookup, count kept,
    the nodes copied in listing order with the shared lookup, each copy recorded in the lookup and added (3 statements). -/
theorem composite_copy_matches_source :
    Gen.compCopySource = { link := true, rep := true, listingOrder := true, copiesWithLookup := true,
                           recordsLookup := true, adds := true, statements := 3 } := by decide +kernel

/-- non-vacuity: a Wait on the flux channel with a registry duration, and a measurement with a tag. -/
example : Op.WellFormed { cls := .wait, qs := [1], chan := .fl, dur := .reg 2 } := by
  simp [Op.WellFormed]
example : Op.WellFormed { cls := .measure, qs := [0], dur := .glob .ro, tag := 2, reg := 5 } := by
  simp [Op.WellFormed, Cls.defaultDur]

/-! ### graph level: the copy of a flat block is the image of the block

`FlatOk w o` (Lemmas/CopyGraph.lean) bundles the hypotheses under which the graph-level statement is TRUE of model and code:
 H1 `keyInj`  the nodes are pairwise distinct as keys of the value-keyed transfer lookup (`w.eqKey`; automatic in the
              identity-keyed diagnostic twin, `keyInj_of_identKeys`) — excludes known finding R3;
 H2 `single`  no node carries a group link — excludes known finding R24;
 H3 `child` / `root` / `apart`  the tree is the one `add` builds from the links: a node hangs under the operation its relation
              refers to; a depth-1 node has no reference (or one outside the block that is no lookup key of the block) and
              shares no channel with an earlier depth-1 node;
 H4 `built` / `leaf` / `linkLt`  the tree was built by `attach` (canonical path keys, nodes distinct, parents present —
              `KeysOk` alone does not determine the listing of the copy), the nodes are existing leaf operations.
The node map is explicit: `copyMap w o n = w.ops.size + 1 + (position of n in the listing)`. -/

/-- H1 holds automatically in the identity-keyed twin. -/
theorem keyInj_of_identKeys (w : World) (h : w.identKeys = true) (a b : Nat) (hab : w.eqKey a = w.eqKey b) : a = b := by
  unfold World.eqKey at hab
  simp only [h, if_true] at hab
  exact EqKey.ident.inj hab

/- H1 is necessary (known finding R3), a concrete heap evaluated with `#eval` on the model (not a theorem: the kernel does
   not evaluate the merge-sort based listing): `c = [a = Rx180(0); x = Rx90(0), y = Rx90(0) both carrying the SAME link object
   FOLLOWED_BY a; z = Ry90(0) FOLLOWED_BY x]`, i.e. graph `[⟨1,none,[0]⟩, ⟨2,some 1,[0,0]⟩, ⟨3,some 1,[0,1]⟩, ⟨4,some 2,[0,0,0]⟩]`.
   `x` and `y` are value-equal, the lookup entry of `x` is overwritten by the copy of `y` (`collisions = 1`), and the copy's
   graph is `[⟨6,none,[0]⟩, ⟨7,some 6,[0,0]⟩, ⟨8,some 6,[0,1]⟩, ⟨9,some 8,[0,1,0]⟩]`: the copy of `z` follows the copy of `y`.
   All other hypotheses of `FlatOk` hold; with `identKeys := true` the copy is the image `…, ⟨9,some 7,[0,0,0]⟩`. -/

/-- **the copy of a well-linked flat block is its image under the node map** `φ = copyMap w o`:
    the copy is the fresh composite `w.ops.size` with the same count; its listing is the image of the listing; every `φ n`
    is a fresh object and `φ` is injective; for every entry `⟨n, p, k⟩` of the original, `⟨φ n, φ p, k⟩` is an entry of the
    copy (same key: same tree shape, same listing position) and there are no others; each copied operation has the
    class-faithful fields and owns a single link with the same relation type whose reference is the COPY of the node's
    tree parent — equivalently (`headRefImage`) the original head reference re-pointed to its copy if it is a node of the
    block, dropped otherwise; the copy satisfies the hypotheses again; nothing that existed is written. -/
theorem copy_graph_image_flat (w : World) (o : Nat) (H : FlatOk w o) :
    (w.copy o).2 = w.ops.size ∧
    ((w.copy o).1.op (w.copy o).2).cls = .comp ∧
    ((w.copy o).1.op (w.copy o).2).rep = (w.op o).rep ∧
    listing ((w.copy o).1.op (w.copy o).2).graph = (listing (w.op o).graph).map (copyMap w o) ∧
    (∀ n ∈ listing (w.op o).graph, w.ops.size < copyMap w o n ∧ copyMap w o n < (w.copy o).1.ops.size) ∧
    (∀ a ∈ listing (w.op o).graph, ∀ b ∈ listing (w.op o).graph, copyMap w o a = copyMap w o b → a = b) ∧
    ((w.copy o).1.op (w.copy o).2).graph.length = (w.op o).graph.length ∧
    (∀ e ∈ (w.op o).graph,
      ({ node := copyMap w o e.node, parent := e.parent.map (copyMap w o), key := e.key } : Entry) ∈
        ((w.copy o).1.op (w.copy o).2).graph) ∧
    (∀ e ∈ (w.op o).graph,
      ((w.copy o).1.op (copyMap w o e.node)).cls = (w.op e.node).copyFields.cls ∧
      ((w.copy o).1.op (copyMap w o e.node)).qs = (w.op e.node).copyFields.qs ∧
      ((w.copy o).1.op (copyMap w o e.node)).chan = (w.op e.node).copyFields.chan ∧
      ((w.copy o).1.op (copyMap w o e.node)).dur = (w.op e.node).copyFields.dur ∧
      ((w.copy o).1.op (copyMap w o e.node)).tag = (w.op e.node).copyFields.tag ∧
      ((w.copy o).1.op (copyMap w o e.node)).ints = (w.op e.node).copyFields.ints ∧
      ((w.copy o).1.lnk ((w.copy o).1.op (copyMap w o e.node)).link).multi = false ∧
      ((w.copy o).1.lnk ((w.copy o).1.op (copyMap w o e.node)).link).rel = (w.lnk (w.op e.node).link).rel ∧
      ((w.copy o).1.lnk ((w.copy o).1.op (copyMap w o e.node)).link).refs = (e.parent.map (copyMap w o)).toList ∧
      ((w.copy o).1.lnk ((w.copy o).1.op (copyMap w o e.node)).link).refs = headRefImage w o e.node) ∧
    FlatOk (w.copy o).1 (w.copy o).2 ∧
    (∀ j, j < w.ops.size → (w.copy o).1.op j = w.op j) ∧
    (∀ l, l < w.links.size → (w.copy o).1.lnk l = w.lnk l) := by
  have C := copy_flat_copy w o H
  refine ⟨C.fresh, C.cls, C.rep, C.listing_eq, ?_, ?_, ?_, ?_, ?_, FlatCopy.flatOk H C, C.oldop, C.oldlnk⟩
  · intro n hn; exact C.node_lt hn
  · intro a ha b hb h; exact copyMap_inj w o ha hb h
  · rw [C.graph, List.length_map]; exact (sortedEntries_perm _).length_eq
  · intro e he
    rw [C.graph]
    exact List.mem_map.mpr ⟨e, mem_sortedEntries.mpr he, rfl⟩
  · intro e he
    obtain ⟨⟨rg, hop⟩, hl⟩ := C.node e he
    have hlink : ((w.copy o).1.op (copyMap w o e.node)).link = copyLinkMap w o e.node := by rw [hop]
    rw [hlink, hl, ← H.parent_refs he, hop]
    exact ⟨rfl, rfl, rfl, rfl, rfl, rfl, rfl, rfl, rfl, rfl⟩

/-- with what the constructors produce (`Op.WellFormed`) the copied operations have the fields OF THE ORIGINAL. -/
theorem copy_graph_image_flat_fields (w : World) (o : Nat) (H : FlatOk w o) (e : Entry) (he : e ∈ (w.op o).graph)
    (hwf : Op.WellFormed (w.op e.node)) :
    ((w.copy o).1.op (copyMap w o e.node)).cls = (w.op e.node).cls ∧
    ((w.copy o).1.op (copyMap w o e.node)).qs = (w.op e.node).qs ∧
    ((w.copy o).1.op (copyMap w o e.node)).chan = (w.op e.node).chan ∧
    ((w.copy o).1.op (copyMap w o e.node)).dur = (w.op e.node).dur ∧
    ((w.copy o).1.op (copyMap w o e.node)).tag = (w.op e.node).tag ∧
    ((w.copy o).1.op (copyMap w o e.node)).ints = (w.op e.node).ints := by
  obtain ⟨h1, h2, h3, h4, h5, h6, _⟩ := (copy_graph_image_flat w o H).2.2.2.2.2.2.2.2.1 e he
  obtain ⟨f1, f2, f3, f4, f5, f6, _⟩ := copy_class_faithful (w.op e.node) hwf
  exact ⟨h1.trans f1, h2.trans f2, h3.trans f3, h4.trans f4, h5.trans f5, h6.trans f6⟩

/-- **the theorem iterates**: the copy of the copy is again the image, under the composed node map. -/
theorem copy_graph_image_flat_twice (w : World) (o : Nat) (H : FlatOk w o) :
    listing (((w.copy o).1.copy (w.copy o).2).1.op ((w.copy o).1.copy (w.copy o).2).2).graph =
      ((listing (w.op o).graph).map (copyMap w o)).map (copyMap (w.copy o).1 (w.copy o).2) ∧
    FlatOk ((w.copy o).1.copy (w.copy o).2).1 ((w.copy o).1.copy (w.copy o).2).2 := by
  have h1 := copy_graph_image_flat w o H
  have H' := h1.2.2.2.2.2.2.2.2.2.1
  have h2 := copy_graph_image_flat (w.copy o).1 (w.copy o).2 H'
  exact ⟨by rw [h2.2.2.2.1, h1.2.2.2.1], h2.2.2.2.2.2.2.2.2.2.1⟩

/-- **timing corollary**: if the per-class copy keeps the duration strategies (true of everything the constructors
    produce) and the depth-1 nodes of the block have no outside relation, the specification evaluator reports for the copy of
    a node exactly the start and end it reports for the node (the copy's relation equations are the image of the original's;
    `C01.schedule_unique` identifies the evaluator's answers with the solution of these equations). -/
theorem copy_flat_schedule (w : World) (o : Nat) (H : FlatOk w o)
    (hdur : ∀ e ∈ (w.op o).graph, (w.op e.node).copyFields.dur = (w.op e.node).dur)
    (hself : ∀ e ∈ (w.op o).graph, e.parent = none → (w.lnk (w.op e.node).link).refs.head? = none)
    (e : Entry) (he : e ∈ (w.op o).graph) (v : Int) :
    (Qco.C10.Start (w.copy o).1 (copyMap w o e.node) v ↔ Qco.C10.Start w e.node v) ∧
    (Qco.C10.End (w.copy o).1 (copyMap w o e.node) v ↔ Qco.C10.End w e.node v) := by
  have ht := copy_flat_times H (copy_flat_copy w o H) hdur hself
  constructor
  · constructor
    · rintro ⟨f, hf⟩; exact ⟨f, by rw [← (ht f e he).1]; exact hf⟩
    · rintro ⟨f, hf⟩; exact ⟨f, by rw [(ht f e he).1]; exact hf⟩
  · constructor
    · rintro ⟨f, hf⟩; exact ⟨f, by rw [← (ht f e he).2]; exact hf⟩
    · rintro ⟨f, hf⟩; exact ⟨f, by rw [(ht f e he).2]; exact hf⟩

/-- non-vacuity of `FlatOk` under the REAL semantics (`identKeys = false`): the block
    `a = Rx180(0); b = Rx90(1); d = DispersiveMeasure(1, relation=(a, JOINED_START)); e = Ry180(0)` built by the model's own
    `newCircuit / newLink / newOp / add` (Lemmas/CopyGraphExample.lean: two depth-1 nodes on two qubits, `d` under `a` by
    its explicit JOINED_START relation, `e` linked FOLLOWED_BY under `a` by `add`). -/
example : FlatOk exCopyWorld 0 ∧ exCopyWorld.identKeys = false ∧ (exCopyWorld.op 0).graph.length = 4 ∧
    (exCopyWorld.lnk (exCopyWorld.op 3).link).rel = .js :=
  ⟨exCopyWorld_flatOk, exCopyWorld_real, by rw [exCopyWorld_eq]; rfl, by rw [exCopyWorld_eq]; rfl⟩

/-- … whose operations are well formed, keep their duration strategy under copy, and whose depth-1 nodes have no outside
    relation (the extra hypotheses of `copy_graph_image_flat_fields` and `copy_flat_schedule`). -/
example : (∀ e ∈ (exCopyWorld.op 0).graph, Op.WellFormed (exCopyWorld.op e.node)) ∧
    (∀ e ∈ (exCopyWorld.op 0).graph, (exCopyWorld.op e.node).copyFields.dur = (exCopyWorld.op e.node).dur) ∧
    (∀ e ∈ (exCopyWorld.op 0).graph, e.parent = none →
      (exCopyWorld.lnk (exCopyWorld.op e.node).link).refs.head? = none) := by
  rw [exCopyWorld_eq]
  refine ⟨?_, by decide, by decide⟩
  intro e he
  have he' : e ∈ [(⟨1, none, [0]⟩ : Entry), ⟨2, none, [1]⟩, ⟨3, some 1, [0, 0]⟩, ⟨4, some 1, [0, 1]⟩] := he
  simp only [List.mem_cons, List.mem_nil_iff, or_false] at he'
  rcases he' with rfl | rfl | rfl | rfl <;> simp [Op.WellFormed, exCopyLit, exOpA, exOpB, exOpD, World.op, Cls.defaultDur]

/-- non-vacuity of `keyInj_of_identKeys`: the diagnostic twin of the example heap. -/
example : ({ exCopyLit with identKeys := true } : World).identKeys = true := rfl

/-- **why H4 asks for more than `KeysOk`**: a relation tree with consistent key LENGTHS (`KeysOk`) and pairwise different
    nodes whose sibling indices are not the canonical ones is listed `[10, 11, 13, 12]`, but the copy — built by `add`-ing the
    nodes in that order under the images of their parents, here with the identity as node map — is listed `[10, 11, 12, 13]`:
    the listing of the copy is NOT the image of the listing.  (`Built`, the reachable invariant, excludes this.) -/
theorem keysOk_insufficient_witness :
    let g : List Entry := [⟨10, none, [0]⟩, ⟨11, none, [1]⟩, ⟨13, some 11, [0, 0]⟩, ⟨12, some 10, [9, 9]⟩]
    KeysOk g ∧ (g.map (·.node)).Nodup ∧ listing g = [10, 11, 13, 12] ∧
    listing (attach (attach (attach (attach [] none 10) none 11) (some 11) 13) (some 10) 12) = [10, 11, 12, 13] := by
  refine ⟨?_, by decide, ?_, ?_⟩
  · intro e he
    simp only [List.mem_cons, List.mem_nil_iff, or_false] at he
    rcases he with rfl | rfl | rfl | rfl
    · rfl
    · rfl
    · exact ⟨⟨11, none, [1]⟩, by simp, rfl, rfl⟩
    · exact ⟨⟨10, none, [0]⟩, by simp, rfl, rfl⟩
  · rw [listing_of_sorted _ (by decide)]; rfl
  · unfold listing
    rw [sortedEntries_eq_of_perm (L := [⟨10, none, [0]⟩, ⟨11, none, [1]⟩, ⟨12, some 10, [0, 0]⟩, ⟨13, some 11, [1, 0]⟩])
      (by decide) (by decide) (by decide)]
    rfl

/-! ### graph level, nested blocks: the copy's tree is the image of the original's, level by level

`NestedOk w d o` (Lemmas/CopyNested.lean): the tree below `o` has depth `< d ≤ w.depthFuel` and is well formed at every level
(`TreeOk`: every object exists and carries an allocated single link — H2 —; every sub-circuit's relation tree was built by
`attach` and is well linked — H3/H4, depth-1 nodes pairwise channel-disjoint with a sub-circuit's channels the union of its
content); and ALL objects below `o`, at all levels, are pairwise distinct as keys of the transfer lookup and occur once
(`((w.desc d o).map w.eqKey).Nodup` — H1 over everything reachable: the lookup is threaded through all levels).
`CopyOf w w' f o o'` is the recursive statement "`o'` in `w'` is a copy of `o` in `w`"; `copyOf_composite` and `copyOf_leaf`
spell out one level. -/

/-- **the copy of a well-formed nested block is its image, level by level**; the copy is the fresh object `w.ops.size`,
    nothing that existed is written, and the copy satisfies the hypotheses again (the theorem can be iterated). -/
theorem copy_graph_image_nested (w : World) (d o : Nat) (H : NestedOk w d o) :
    (w.copy o).2 = w.ops.size ∧
    CopyOf w (w.copy o).1 w.depthFuel o (w.copy o).2 ∧
    (∀ j, j < w.ops.size → (w.copy o).1.op j = w.op j) ∧
    (∀ l, l < w.links.size → (w.copy o).1.lnk l = w.lnk l) ∧
    NestedOk (w.copy o).1 w.depthFuel (w.copy o).2 := by
  obtain ⟨h1, h2, h3, h4⟩ := copy_nested_full w d o H
  exact ⟨h1, h2, h3.oldop, h3.oldlnk, h4⟩

/-- **it iterates**: the copy of the copy is a copy of the copy (hence, level by level, an image of the original). -/
theorem copy_graph_image_nested_twice (w : World) (d o : Nat) (H : NestedOk w d o) :
    CopyOf (w.copy o).1 ((w.copy o).1.copy (w.copy o).2).1 (w.copy o).1.depthFuel (w.copy o).2
      ((w.copy o).1.copy (w.copy o).2).2 ∧
    NestedOk ((w.copy o).1.copy (w.copy o).2).1 (w.copy o).1.depthFuel ((w.copy o).1.copy (w.copy o).2).2 := by
  have H' := (copy_graph_image_nested w d o H).2.2.2.2
  have h2 := copy_graph_image_nested (w.copy o).1 w.depthFuel (w.copy o).2 H'
  exact ⟨h2.2.1, h2.2.2.2.2⟩

/-- the same for the recursive call with a given lookup whose values are existing objects (as `add_sub_circuit` makes it):
    the image statement, the frame, and the lookup is changed only on keys of objects below `o`. -/
theorem copyObj_graph_image_nested (w : World) (d o : Nat) (lk : Lookup) (H : NestedOk w d o)
    (hv : ∀ key v, lk.get? key = some v → v < w.ops.size) :
    (w.copyObj w.depthFuel o lk).2.1 = w.ops.size ∧
    CopyOf w (w.copyObj w.depthFuel o lk).1 w.depthFuel o w.ops.size ∧
    (∀ j, j < w.ops.size → (w.copyObj w.depthFuel o lk).1.op j = w.op j) ∧
    (∀ l, l < w.links.size → (w.copyObj w.depthFuel o lk).1.lnk l = w.lnk l) ∧
    (∀ key, (∀ x ∈ w.desc d o, w.eqKey x ≠ key) → (w.copyObj w.depthFuel o lk).2.2.get? key = lk.get? key) := by
  obtain ⟨h1, h2, h3, h4⟩ := copyObj_nested w d o lk H hv
  exact ⟨h1, h2, h3.oldop, h3.oldlnk, h4⟩

/-- **what `CopyOf` says at a sub-circuit**: same count, and a node map `φ`, injective on the listing, such that the copy's
    listing is the image of the listing, for every entry `⟨n, p, k⟩` the copy has the entry `⟨φ n, φ p, k⟩` (and no others),
    every `φ n` is an object allocated after the copy `o'`, its link is single and refers to the copy of `n`'s tree parent
    with the same relation type (no reference for depth-1 nodes: outside relations are dropped), and `φ n` is a copy of
    `n` in turn. -/
theorem copyOf_composite {w w' : World} {f o o' : Nat} (h : CopyOf w w' (f + 1) o o') (hc : (w.op o).isComp = true) :
    (w'.op o').cls = .comp ∧ (w'.op o').rep = (w.op o).rep ∧
    ∃ φ : Nat → Nat,
      (∀ a ∈ listing (w.op o).graph, ∀ b ∈ listing (w.op o).graph, φ a = φ b → a = b) ∧
      listing (w'.op o').graph = (listing (w.op o).graph).map φ ∧
      (w'.op o').graph.length = (w.op o).graph.length ∧
      (∀ e ∈ (w.op o).graph,
        ({ node := φ e.node, parent := e.parent.map φ, key := e.key } : Entry) ∈ (w'.op o').graph) ∧
      ∀ e ∈ (w.op o).graph,
        o' < φ e.node ∧ φ e.node < w'.ops.size ∧
        (w'.lnk (w'.op (φ e.node)).link).multi = false ∧
        (w'.lnk (w'.op (φ e.node)).link).refs = (e.parent.map φ).toList ∧
        (e.parent ≠ none → (w'.lnk (w'.op (φ e.node)).link).rel = (w.lnk (w.op e.node).link).rel) ∧
        CopyOf w w' f e.node (φ e.node) := h.comp hc

/-- **what `CopyOf` says at a leaf operation**: the class-faithful fields (those of the original for everything the
    constructors produce, `copy_class_faithful`). -/
theorem copyOf_leaf {w w' : World} {f o o' : Nat} (h : CopyOf w w' (f + 1) o o') (hc : (w.op o).isComp = false) :
    (w'.op o').cls = (w.op o).copyFields.cls ∧ (w'.op o').qs = (w.op o).copyFields.qs ∧
    (w'.op o').chan = (w.op o).copyFields.chan ∧ (w'.op o').dur = (w.op o).copyFields.dur ∧
    (w'.op o').tag = (w.op o).copyFields.tag ∧ (w'.op o').ints = (w.op o).copyFields.ints := h.leaf hc

/-- a copy has the channel identifiers of the original (a sub-circuit's being the union of its content's). -/
theorem copyOf_channels {w w' : World} {f o o' : Nat} (h : CopyOf w w' f o o') (hf : f ≤ w.depthFuel)
    (hsz : w.ops.size ≤ w'.ops.size) : w'.chansOf o' = w.chansOf o := chansOf_copyOf h hf hsz

/-- non-vacuity of `NestedOk` under the real semantics: the circuit `c = [a = Rx90(1), s = sub-circuit(x = Rx180(0),
    y = Ry90(0)) with count 2, d = DispersiveMeasure(1, JOINED_START a), b = CPhase(0,1)]` built by the model's own
    `newCircuit / newLink / newOp / add` (Lemmas/CopyNestedExample.lean): `s` is a node of `c`, `b` is linked behind `s`. -/
example : NestedOk nxWorld 3 0 ∧ nxWorld.identKeys = false ∧ (nxWorld.op 1).isComp = true ∧
    inGraph (nxWorld.op 0).graph 1 = true ∧ (nxWorld.lnk (nxWorld.op 5).link).rel = .js :=
  ⟨nxWorld_nestedOk, nxWorld_real, by rw [nxWorld_eq]; rfl, by rw [nxWorld_eq]; rfl, by rw [nxWorld_eq]; rfl⟩


end Qco.C05
