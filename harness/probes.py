"""Property predicates evaluated on the implementation's own objects while a build program runs.

Each probe is independent of the Lean model: it states the property directly over what the public API
reports.  A probe never mutates the circuit beyond what the observer it piggybacks on already did."""
from __future__ import annotations
from collections import Counter

from . import progs

REGISTRY = {}


def register(cls):
    REGISTRY[cls.name] = cls
    return cls


class Probe:
    name = '?'

    def before(self, run, i, cmd):
        pass

    def after(self, run, i, cmd, ans):
        return []


graph_nodes = progs.graph_nodes
expand = progs.expand
sig = progs.sig


def ch_match(x, y):
    a = progs.api()
    return x.id == y.id and (x.channel == y.channel or x.channel == a.QubitChannel.ALL or y.channel == a.QubitChannel.ALL)


@register
class TimingProbe(Probe):
    """C01: relation equations on reported times; implicit predecessor is a deepest channel-sharing node."""
    name = 'C01'

    def before(self, run, i, cmd):
        self.pre = None
        if cmd[0] == 'op':
            a = progs.api()
            st = run.circs[cmd[1]].circuit_structure
            nodes = graph_nodes(st)
            ids = {id(o): o for o in nodes}
            depth = {}

            def dep(o, guard=0):
                if id(o) in depth:
                    return depth[id(o)]
                if guard > 2000:
                    return 0
                link = o.relation_link
                ref = getattr(link, '_reference_node', None)
                if isinstance(link, a.MultiRelationLink):
                    # latest of the group is the tree parent; depth = 1 + max over refs that are in the graph is an
                    # upper bound, the parent is one of them: use the reported reference node
                    try:
                        ref = link.reference_node
                    except RecursionError:
                        ref = None
                d = 1 + dep(ref, guard + 1) if (ref is not None and id(ref) in ids) else 1
                depth[id(o)] = d
                return d
            self.pre = (nodes, {id(o): dep(o) for o in nodes})

    def after(self, run, i, cmd, ans):
        fails = []
        a = progs.api()
        if cmd[0] == 'op' and self.pre is not None:
            nodes, depth = self.pre
            op = run.handles[-1]
            rel = cmd[9]
            explicit_in_graph = False
            if rel is not None and cmd[2] not in progs.NO_RELATION_ARG:
                target = run.handles[rel[0]]
                explicit_in_graph = any(target is o for o in nodes)
            if not explicit_in_graph:
                chs = op.channel_identifiers
                cands = [o for o in nodes if any(ch_match(x, y) for x in chs for y in o.channel_identifiers)]
                ref = op.relation_link.reference_node
                if not cands:
                    if ref is not None:
                        fails.append({'what': 'implicit placement: no channel-sharing node, yet a reference was assigned'})
                else:
                    best = max(depth[id(o)] for o in cands)
                    if ref is None or not any(ref is o and depth[id(o)] == best for o in cands):
                        fails.append({'what': 'implicit placement: reference is not a deepest channel-sharing node',
                                      'deepest': best})
                    elif op.relation_link.relation_type != a.RelationType.FOLLOWED_BY:
                        fails.append({'what': 'implicit placement: relation type is not FOLLOWED_BY'})
            else:
                link = op.relation_link
                if link.reference_node is not run.handles[rel[0]] or link.relation_type != a.RT[rel[1]]:
                    fails.append({'what': 'explicit relation was not kept'})
        if cmd[0] == 'list' and ans not in (None, 'undef') and run.last_ops is not None:
            for k, o in enumerate(run.last_ops):
                link = o.relation_link
                ref = link.reference_node
                s, d, e = o.start_time, o.duration, o.end_time
                if e != s + d:
                    fails.append({'what': 'end != start + duration', 'pos': k})
                if ref is None:
                    ok = s == 0.0
                    why = 'no relation: must start with the top-level circuit (0)'
                else:
                    rt = link.relation_type
                    if rt == a.RelationType.FOLLOWED_BY:
                        ok = s == ref.end_time
                        why = 'FOLLOWED_BY: start != end of reference'
                    elif rt == a.RelationType.JOINED_START:
                        ok = s == ref.start_time
                        why = 'JOINED_START: start != start of reference'
                    else:
                        ok = e == ref.end_time
                        why = 'JOINED_END: end != end of reference'
                if not ok:
                    fails.append({'what': why, 'pos': k, 'op': type(o).__name__})
                    break
        return fails


@register
class ListingProbe(Probe):
    """C02: the listing is exactly the added leaves (sub-circuits expanded), causal and stable."""
    name = 'C02'

    def after(self, run, i, cmd, ans):
        fails = []
        if cmd[0] == 'list' and ans not in (None, 'undef') and run.last_ops is not None:
            a = progs.api()
            ops = run.last_ops
            circ = run.circs[cmd[1]]
            exp = run.shadow_expected(cmd[1])
            if exp is not None:
                got = Counter(sig(o) for o in ops)
                if got != exp:
                    missing = list((exp - got).items())[:3]
                    extra = list((got - exp).items())[:3]
                    fails.append({'what': 'listing is not the multiset of added leaf operations',
                                  'missing': repr(missing), 'extra': repr(extra)})
            pos = {id(o): k for k, o in enumerate(ops)}
            if len(pos) != len(ops):
                fails.append({'what': 'an operation object is listed twice'})
            for k, o in enumerate(ops):
                ref = o.relation_link.reference_node
                if ref is None:
                    continue
                targets = expand(ref) if isinstance(ref, a.CircuitCompositeOperation) else [ref]
                for t in targets:
                    if id(t) in pos and pos[id(t)] > k:
                        fails.append({'what': 'operation listed before the operation its relation refers to', 'pos': k})
                        break
            again = circ.operations
            if len(again) != len(ops) or any(x is not y for x, y in zip(again, ops)):
                fails.append({'what': 'listing twice gives a different sequence'})
        return fails


@register
class DurationProbe(Probe):
    """C04: duration of every (sub-)circuit = latest end - earliest start over all contained leaves."""
    name = 'C04'

    def after(self, run, i, cmd, ans):
        fails = []
        if cmd[0] == 'list' and ans not in (None, 'undef') and run.last_ops is not None:
            a = progs.api()
            circ = run.circs[cmd[1]]
            blocks = [circ.circuit_structure] + list(circ.composite_operations)
            spans = {}
            for b in blocks:
                leaves = expand(b)
                if not leaves:
                    span, lo, hi = 0.0, None, None
                else:
                    lo = min(o.start_time for o in leaves)
                    hi = max(o.end_time for o in leaves)
                    span = hi - lo
                spans[id(b)] = (lo, hi)
                if b.duration != span:
                    fails.append({'what': 'duration of a (sub-)circuit is not the span of its content',
                                  'reported': b.duration, 'span': span, 'top': b is circ.circuit_structure})
                    break
            if not fails:
                for o in run.last_ops + [b for b in blocks[1:]]:
                    link = o.relation_link
                    ref = link.reference_node
                    if ref is None or not isinstance(ref, a.CircuitCompositeOperation) or id(ref) not in spans:
                        continue
                    if link.relation_type != a.RelationType.FOLLOWED_BY:
                        continue
                    lo, hi = spans[id(ref)]
                    if hi is None:
                        continue
                    heads = ref._circuit_graph.get_nodes_at(depth=1)
                    head_lo = min(n.operation.start_time for n in heads)
                    if lo >= head_lo and o.start_time < hi:
                        fails.append({'what': 'operation FOLLOWED_BY a block starts before the block content ended'})
                        break
        return fails
