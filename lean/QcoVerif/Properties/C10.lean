import QcoVerif.Lemmas.C10Order
import QcoVerif.Lemmas.C10Sched
import QcoVerif.Generated.C10Worlds
/-
  C10 — library circuits never double-book a qubit channel.

  Full statement (properties.jsonl): in every circuit produced by the repetition-code and state-calibration
  constructors, no two operations of non-zero length that occupy a common qubit channel overlap in time, and no
  operation overlaps a barrier on one of the barrier's qubits, whatever the configured durations are; as
  constructed and after unrolling.

  What is proved here, about the evaluator `evStart / evEnd / evDur / evLeadSpan / evInterval / evRef`
  (QcoVerif/Model/Timing.lean; the definitions the driver's memoised evaluator mirrors) and about
  `linkStart`, `pickLatest`, `leadSpan`:

  GENERAL (every world, every non-negative duration setting, no bound on anything)
    * `followed_by_chain_no_overlap`  two operations on one FOLLOWED_BY path never overlap
      (single links and the multi links created by unrolling);
    * `fixed_relation_order_*`        FOLLOWED_BY / JOINED_START / JOINED_END pin start resp. end;
    * `block_after_block`             whatever is FOLLOWED_BY a block whose lead is 0 starts after every
                                      node of the block has ended (`leadSpan`), `interval_covers_nodes`
                                      extends this to all nesting depths;
    * `head_starts_with_block`        the hypothesis of the former is what the listing establishes.
  Times are read through `Start w o s := ∃ fuel, evStart w fuel o = some s` (likewise `End`, …); by
  `ev_mono_step` (Lemmas/C10Timing) a defined answer does not depend on the fuel, so these are partial
  functions (`Start.unique`, …).

  LIBRARY CLAUSE (second half of this file).  Deviation from DESIGN.md §4 C10, and why: the planned checker
  `layeredOk` was to work on recorded *programs* (segments between all-qubit barriers, one chain per channel,
  deepest chain coefficient-wise longest).  Its soundness needs a verified theory of the builder (`add`,
  copy, the mutating listing) and the builder cannot be evaluated by the kernel (`listing` is a `mergeSort`,
  well-founded recursion).  Instead the checker `scheduleOk` works on the HEAP the model builds for the
  recorded program (dumped by the driver, plain data) together with a symbolic schedule — start / lead / span
  of every object as linear forms in the global durations, decoupling wait split into the two regimes
  readout ≥ / < microwave — supplied as an untrusted certificate.  The checker verifies the certificate
  against the evaluator's local equations (minima / maxima of `leadSpan` justified by coefficient-wise
  dominance, which is the "deepest chain is a longest one" condition) and then separates every pair of
  channel-sharing operations coefficient-wise.
    * `layered_no_overlap`            soundness of the checker: `scheduleOk` ⇒ no double booking for ALL
                                      non-negative values of the variables (full, any world);
    * `layered_no_overlap_all_durations`  both regimes ⇒ all non-negative duration settings;
    * `library_schedules_checked_partial_*`, `library_no_double_booking_partial`: the checker evaluated by
      `decide +kernel` on the worlds of the shipped descriptions — BOUNDED: the generated list
      (Generated/C10Worlds.lean: both constructors, chain and the three Surface-17 layouts' sub-chains,
      calibration circuits; heaps of at most 110 objects because the kernel evaluation costs ≈ n^2.6), as
      constructed only (after unrolling the heap contains multi links whose choice depends on the
      durations at unrolling time; `checkStart` rejects them).
  Not proved: that the evaluator is *defined* on these worlds (it is: the driver prints their schedules in
  the correspondence run), that `contents` lists exactly the operations of `World.operations`, that the
  heap does not depend on the durations in force while building, and everything about larger inputs —
  there the general theorems above and the correspondence run are what there is.
-/
namespace Qco.C10

open Qco

/-! ## General theorems -/

/-- `b` is reachable from `a` through FOLLOWED_BY links (`a` is an ancestor of `b` in the relation tree). -/
inductive FbChain (w : World) : Nat → Nat → Prop
  | step {a b} : FbStep w a b → FbChain w a b
  | tail {a m b} : FbChain w a m → FbStep w m b → FbChain w a b

/-- **Two operations on one FOLLOWED_BY path never overlap**: in any world in which every leaf duration is
    non-negative, if `b` is reachable from `a` through FOLLOWED_BY links and the evaluator answers, then
    `end a ≤ start b` — for all durations, all shapes, all nesting. -/
theorem followed_by_chain_no_overlap {w : World} (hd : LeafDurNonneg w) {a b : Nat} (h : FbChain w a b)
    {ea sb : Int} (ha : End w a ea) (hb : Start w b sb) : ea ≤ sb := by
  induction h generalizing sb with
  | step hs =>
    obtain ⟨ea', hea', hle⟩ := fbStep_end_le_start hs hb
    rw [ha.unique hea']; exact hle
  | tail _ hs ih =>
    obtain ⟨em, hem, hle⟩ := fbStep_end_le_start hs hb
    obtain ⟨sm, dm, hsm, hdm, heq⟩ := hem.decompose
    have h0 : 0 ≤ dm := dur_nonneg hd hdm
    have := ih hsm
    omega

/-- the same as an interval statement: `[start a, end a)` and `[start b, end b)` are disjoint. -/
theorem followed_by_chain_disjoint {w : World} (hd : LeafDurNonneg w) {a b : Nat} (h : FbChain w a b)
    {sa ea sb eb : Int} (_hsa : Start w a sa) (ha : End w a ea) (hb : Start w b sb) (_heb : End w b eb) :
    ¬ (sa < eb ∧ sb < ea) := by
  have := followed_by_chain_no_overlap hd h ha hb
  omega

/-- FOLLOWED_BY: the successor starts exactly when the reference ends. -/
theorem fixed_relation_order_followed_by {w : World} {a b : Nat} (h : DirectRel w .fb a b)
    {ea sb : Int} (ha : End w a ea) (hb : Start w b sb) : sb = ea := by
  obtain ⟨sa, ea', d, _, hea', _, heq⟩ := start_of_direct h hb
  rw [heq, ha.unique hea']; rfl

/-- JOINED_START: both start together. -/
theorem fixed_relation_order_joined_start {w : World} {a b : Nat} (h : DirectRel w .js a b)
    {sa sb : Int} (ha : Start w a sa) (hb : Start w b sb) : sb = sa := by
  obtain ⟨sa', ea', d, hsa', _, _, heq⟩ := start_of_direct h hb
  rw [heq, ha.unique hsa']; rfl

/-- JOINED_END: both end together. -/
theorem fixed_relation_order_joined_end {w : World} {a b : Nat} (h : DirectRel w .je a b)
    {ea eb : Int} (ha : End w a ea) (hb : End w b eb) : eb = ea := by
  obtain ⟨sb, db, hsb, hdb, heq⟩ := hb.decompose
  obtain ⟨sa', ea', d, _, hea', hd', heq'⟩ := start_of_direct h hsb
  have h1 : d = db := hd'.unique hdb
  have h2 : ea = ea' := ha.unique hea'
  rw [heq, heq', h1, h2]
  simp only [linkStart]
  omega

/-- JOINED_START with a shorter (or equal) successor: the successor lies inside the reference. -/
theorem fixed_relation_order_joined_start_within {w : World} {a b : Nat} (h : DirectRel w .js a b)
    {sa ea sb eb da db : Int} (hsa : Start w a sa) (hea : End w a ea) (hsb : Start w b sb) (heb : End w b eb)
    (hda : DurV w a da) (hdb : DurV w b db) (hle : db ≤ da) : sa = sb ∧ eb ≤ ea := by
  have h1 := fixed_relation_order_joined_start h hsa hsb
  obtain ⟨s1, d1, hs1, hd1, e1⟩ := hea.decompose
  obtain ⟨s2, d2, hs2, hd2, e2⟩ := heb.decompose
  have := hs1.unique hsa; have := hs2.unique hsb; have := hd1.unique hda; have := hd2.unique hdb
  omega

/-- What the listing establishes for the first operations of a block: a node that carries the block's own
    link object (and the link is not JOINED_END — unreachable for sub-circuits through the API) starts when
    the block starts. -/
theorem head_starts_with_block {w : World} {c h : Nat} (hl : (w.op h).link = (w.op c).link)
    (hje : (w.lnk (w.op c).link).rel ≠ .je) {sh sc : Int} (hh : Start w h sh) (hc : Start w c sc) : sh = sc := by
  obtain ⟨d1, r1, _, hr1, hcase1⟩ := hh.decompose
  obtain ⟨d2, r2, _, hr2, hcase2⟩ := hc.decompose
  rw [hl] at hr1 hcase1
  have hr : r1 = r2 := hr1.unique hr2
  subst hr
  rcases hcase1 with ⟨hn1, e1⟩ | ⟨r', sr, er, hs1, hsr, her, e1⟩
  · rcases hcase2 with ⟨_, e2⟩ | ⟨r'', _, _, hs2, _, _, _⟩
    · rw [e1, e2]; rfl
    · rw [hn1] at hs2; cases hs2
  · rcases hcase2 with ⟨hn2, _⟩ | ⟨r'', sr', er', hs2, hsr', her', e2⟩
    · rw [hn2] at hs1; cases hs1
    · rw [hs1] at hs2; cases hs2
      have := hsr.unique hsr'; have := her.unique her'
      subst_vars
      cases hrel : (w.lnk (w.op c).link).rel with
      | fb => simp [linkStart]
      | js => simp [linkStart]
      | je => exact absurd hrel hje

/-- The interval of a block whose first operations start with it covers the interval of every node. -/
theorem interval_covers_nodes {w : World} {c : Nat} (hc : (w.op c).isComp = true)
    (hne : (w.op c).graph.isEmpty = false) (hheadsne : heads (w.op c).graph ≠ [])
    (hheads : ∀ h ∈ heads (w.op c).graph, ∀ sh sc, Start w h sh → Start w c sc → sh = sc)
    {iv : Int × Int} (hiv : IntervalV w c iv) {n : Nat} (hn : n ∈ listing (w.op c).graph)
    {ivn : Int × Int} (hivn : IntervalV w n ivn) : iv.1 ≤ ivn.1 ∧ ivn.2 ≤ iv.2 := by
  obtain ⟨sc, lead, span, hsc, hls, heq⟩ := hiv.decompose
  obtain ⟨hs, ivs, h1, h2, h3, _, _, hv⟩ := hls.comp hc hne
  -- every head start equals the block's start
  have hmin : minOf hs = sc := by
    have hsne : hs ≠ [] := by
      cases hh : heads (w.op c).graph with
      | nil => exact absurd hh hheadsne
      | cons x xs =>
        obtain ⟨s, hs', _⟩ := h1 x (by rw [hh]; exact List.mem_cons_self)
        exact List.ne_nil_of_mem hs'
    obtain ⟨n', hn', hs'⟩ := h2 _ (minOf_mem hsne)
    exact hheads n' hn' _ _ hs' hsc
  obtain ⟨iv', hiv', hivn'⟩ := h3 n hn
  have : iv' = ivn := hivn'.unique hivn
  subst this
  have hlo : minOf (ivs.map (·.1)) ≤ iv'.1 := minOf_le (List.mem_map.mpr ⟨iv', hiv', rfl⟩)
  have hhi : iv'.2 ≤ maxOf (ivs.map (·.2)) := le_maxOf (List.mem_map.mpr ⟨iv', hiv', rfl⟩)
  simp only [leadSpan, Prod.mk.injEq] at hv
  obtain ⟨hv1, hv2⟩ := hv
  rw [heq]
  simp only
  omega

/-- **Block after block**: an operation FOLLOWED_BY a sub-circuit whose lead is 0 (no contained operation
    starts before the block's first operations) and whose first operations start with it starts after
    every node of the block has ended. -/
theorem block_after_block {w : World} {c x : Nat} (hc : (w.op c).isComp = true)
    (hne : (w.op c).graph.isEmpty = false) (hheadsne : heads (w.op c).graph ≠ [])
    (hheads : ∀ h ∈ heads (w.op c).graph, ∀ sh sc, Start w h sh → Start w c sc → sh = sc)
    (hx : FbStep w c x) {span : Int} (hls : LeadSpanV w c (0, span))
    {sx : Int} (hsx : Start w x sx) {n : Nat} (hn : n ∈ listing (w.op c).graph)
    {ivn : Int × Int} (hivn : IntervalV w n ivn) : ivn.2 ≤ sx := by
  obtain ⟨ec, hec, hle⟩ := fbStep_end_le_start hx hsx
  obtain ⟨sc, dc, hsc, hdc, heq⟩ := hec.decompose
  obtain ⟨l', hls'⟩ := hdc.decompose
  have := hls.unique hls'
  simp only [Prod.mk.injEq] at this
  obtain ⟨hl0, hsp⟩ := this
  have hiv : IntervalV w c (sc - 0, sc - 0 + span) := IntervalV.of_start_leadSpan hsc hls
  have := (interval_covers_nodes hc hne hheadsne hheads hiv hn hivn).2
  simp only at this
  omega

/-- for a contained *leaf* operation: it has ended. -/
theorem block_after_block_leaf {w : World} {c x : Nat} (hc : (w.op c).isComp = true)
    (hne : (w.op c).graph.isEmpty = false) (hheadsne : heads (w.op c).graph ≠ [])
    (hheads : ∀ h ∈ heads (w.op c).graph, ∀ sh sc, Start w h sh → Start w c sc → sh = sc)
    (hx : FbStep w c x) {span : Int} (hls : LeadSpanV w c (0, span))
    {sx : Int} (hsx : Start w x sx) {n : Nat} (hn : n ∈ listing (w.op c).graph)
    (hleaf : (w.op n).isComp = false) {en : Int} (hen : End w n en) : en ≤ sx := by
  obtain ⟨sn, dn, hsn, hdn, heq⟩ := hen.decompose
  obtain ⟨l, hl⟩ := hdn.decompose
  have hl0 := hl.leaf hleaf
  simp only [Prod.mk.injEq] at hl0
  have hiv := IntervalV.of_start_leadSpan hsn hl
  have := block_after_block hc hne hheadsne hheads hx hls hsx hn hiv
  simp only at this
  omega

/-! ### the hypotheses are satisfiable (non-vacuity) -/

/-- q0: Rx180, then a measurement FOLLOWED_BY it, then a barrier FOLLOWED_BY the measurement; a second
    Rx180 JOINED_START / a third JOINED_END to the measurement. Default durations (8, 16, 4 units). -/
def demo : World :=
  { ops := #[ { cls := .rx180, qs := [0], dur := .glob .mw, link := 1 },
              { cls := .measure, qs := [0], dur := .glob .ro, link := 2 },
              { cls := .barrier, qs := [0], dur := .fixed 4, link := 3 },
              { cls := .rx180, qs := [1], dur := .glob .mw, link := 4 },
              { cls := .rx180, qs := [2], dur := .glob .mw, link := 5 } ],
    links := #[ {}, {}, { refs := [0] }, { refs := [1] }, { refs := [1], rel := .js }, { refs := [1], rel := .je } ] }

example : FbChain demo 0 2 := .tail (.step ⟨rfl, Or.inl ⟨rfl, rfl⟩⟩) ⟨rfl, Or.inl ⟨rfl, rfl⟩⟩
example : End demo 0 8 := ⟨4, by decide +kernel⟩
example : Start demo 2 24 := ⟨12, by decide +kernel⟩
example : DirectRel demo .js 1 3 ∧ Start demo 3 8 ∧ Start demo 1 8 :=
  ⟨⟨rfl, rfl, rfl⟩, ⟨12, by decide +kernel⟩, ⟨12, by decide +kernel⟩⟩
example : DirectRel demo .je 1 4 ∧ End demo 4 24 ∧ End demo 1 24 :=
  ⟨⟨rfl, rfl, rfl⟩, ⟨12, by decide +kernel⟩, ⟨12, by decide +kernel⟩⟩
example : LeafDurNonneg demo := by
  intro o _
  have hcases : o = 0 ∨ o = 1 ∨ o = 2 ∨ o = 3 ∨ o = 4 ∨ 5 ≤ o := by omega
  rcases hcases with rfl | rfl | rfl | rfl | rfl | h
  · decide +kernel
  · decide +kernel
  · decide +kernel
  · decide +kernel
  · decide +kernel
  · have hs : demo.ops.size = 5 := rfl
    have : demo.op o = default := by
      unfold World.op
      rw [Array.getD_eq_getD_getElem?, Array.getElem?_eq_none (by omega)]
      rfl
    rw [this]; decide +kernel

/-! ## Library clause -/

/-- **Soundness of the schedule checker** (`layered_no_overlap` of DESIGN.md, on heaps instead of programs):
    if `scheduleOk w R T c` holds then for ALL non-negative values of the variables (for which the regime's
    `wait` is the decoupling wait), under the durations the regime assigns, no two distinct operations of
    circuit `c` that share a channel and are both of non-zero length overlap, and nothing overlaps a
    barrier — whenever the evaluator answers. -/
theorem layered_no_overlap {w : World} {R : Regime} {T : Table} {c : Nat} (hok : scheduleOk w R T c = true)
    {v : Vars} (hv : v.Nonneg) (hR : R.Valid v) : NoDoubleBooking (R.world w v) c :=
  scheduleOk_sound hok hv hR

/-- Both regimes checked ⇒ all non-negative durations (readout − microwave even when non-negative: the
    integer time unit can always be halved). -/
theorem layered_no_overlap_all_durations {w : World} {c : Nat} {TA TB : Table}
    (hA : scheduleOk w regimeA TA c = true) (hB : scheduleOk w regimeB TB c = true)
    {ro mw fl rs : Int} (hro : 0 ≤ ro) (hmw : 0 ≤ mw) (hfl : 0 ≤ fl) (hrs : 0 ≤ rs)
    (heven : mw ≤ ro → (ro - mw) % 2 = 0) : NoDoubleBooking (withDurations w ro mw fl rs) c :=
  noDoubleBooking_of_both_regimes hA hB hro hmw hfl hrs heven

/- Full statement, NOT proved: for every constructor input the heap built by the model satisfies
   `NoDoubleBooking` for all non-negative durations, as constructed and after `applyModifiers`.
   Proved: the generated list below (bounded), as constructed. -/
theorem library_schedules_checked_partial_0 : Generated.chunk0.all Case.ok = true := by decide +kernel
theorem library_schedules_checked_partial_1 : Generated.chunk1.all Case.ok = true := by decide +kernel
theorem library_schedules_checked_partial_2 : Generated.chunk2.all Case.ok = true := by decide +kernel
theorem library_schedules_checked_partial_3 : Generated.chunk3.all Case.ok = true := by decide +kernel

/-- every generated library circuit: no double booking for all non-negative durations. -/
theorem library_no_double_booking_partial (x : Case) (hx : x ∈ Generated.cases)
    {ro mw fl rs : Int} (hro : 0 ≤ ro) (hmw : 0 ≤ mw) (hfl : 0 ≤ fl) (hrs : 0 ≤ rs)
    (heven : mw ≤ ro → (ro - mw) % 2 = 0) : NoDoubleBooking (withDurations x.w ro mw fl rs) x.c := by
  have hok : x.ok = true := by
    unfold Generated.cases at hx
    simp only [List.mem_append] at hx
    rcases hx with ((h | h) | h) | h
    · exact List.all_eq_true.mp library_schedules_checked_partial_0 x h
    · exact List.all_eq_true.mp library_schedules_checked_partial_1 x h
    · exact List.all_eq_true.mp library_schedules_checked_partial_2 x h
    · exact List.all_eq_true.mp library_schedules_checked_partial_3 x h
  unfold Case.ok at hok
  rw [Bool.and_eq_true] at hok
  exact noDoubleBooking_of_both_regimes hok.1 hok.2 hro hmw hfl hrs heven

/-! non-vacuity: the list is not empty, the circuits contain operations, channel-sharing pairs exist, and the
    hypotheses on the durations are satisfiable. -/
example : 0 < Generated.cases.length := by decide +kernel
example : ∀ x ∈ Generated.cases, 8 ≤ (contents x.w (x.w.ops.size + 2) x.c).length := by decide +kernel
example : ((contents Generated.w0 (Generated.w0.ops.size + 2) 0).any (fun a =>
    (contents Generated.w0 (Generated.w0.ops.size + 2) 0).any (fun b =>
      a != b && mustBeDisjoint Generated.w0 Generated.tA0 a b))) = true := by decide +kernel
example : (0:Int) ≤ 16 ∧ (0:Int) ≤ 8 ∧ ((8:Int) ≤ 16 → (16 - 8 : Int) % 2 = 0) := by decide
example : (Vars.mk 3 5 1 1).Nonneg ∧ regimeA.Valid ⟨3, 5, 1, 1⟩ ∧ regimeB.Valid ⟨3, 5, 1, 1⟩ :=
  have h : (Vars.mk 3 5 1 1).Nonneg := ⟨by decide, by decide, by decide, by decide⟩
  ⟨h, regimeA_valid h, regimeB_valid h⟩

end Qco.C10
