import QcoVerif.Lemmas.C10ParamProg
/-
  C10, parametric layer lemmas: a LAYER as the builder makes it.

  `LInv w c desc opener kb groups`: the flat block `c` has been built by program steps; `opener` (if any) is the node
  with the greatest path key `kb` among the nodes of the finished layers; `groups` are the paths of the open layer in
  creation order — the `j`-th operation of the `i`-th path has the path key `kb ++ i :: 0 … 0` (`j` zeros); every
  operation carries a single FOLLOWED_BY link to its parent in the relation tree (no reference for depth-1 nodes);
  `desc` remembers the description each operation was created from.
  Three kinds of program steps keep the invariant (for any number of paths and any path lengths):
    * `step_new`    an operation that shares a channel with the opener but with no operation of the open layer starts
                    a new path;
    * `step_ext`    one that shares a channel with the LAST operation of one path and with no operation of another path
                    extends that path;
    * `step_close`  one that shares a channel with the last operation of a path that is (among the) longest — the last
                    one among the longest — closes the layer: it becomes the opener of the next layer.
-/
namespace Qco.C10Param

open Qco Qco.C10

/-! ### paths and groups as entries of the relation tree -/

/-- the entries of a path below `parent`, with keys `key, key ++ [0], key ++ [0, 0], …`. -/
def PathAt (g : List Entry) : Option Nat → List Nat → List Nat → Prop
  | _, _, [] => True
  | parent, key, x :: xs => (⟨x, parent, key⟩ : Entry) ∈ g ∧ PathAt g (some x) (key ++ [0]) xs

/-- the paths of a layer: the `i`-th path starts with key `kb ++ [i]`. -/
def GroupsAt (g : List Entry) (opener : Option Nat) (kb : List Nat) : Nat → List (List Nat) → Prop
  | _, [] => True
  | i, G :: rest => PathAt g opener (kb ++ [i]) G ∧ G ≠ [] ∧ GroupsAt g opener kb (i + 1) rest

theorem PathAt.mono {g g' : List Entry} (h : ∀ e ∈ g, e ∈ g') : ∀ {xs : List Nat} {parent : Option Nat}
    {key : List Nat}, PathAt g parent key xs → PathAt g' parent key xs := by
  intro xs
  induction xs with
  | nil => intro _ _ _; trivial
  | cons x xs ih => intro parent key hp; exact ⟨h _ hp.1, ih hp.2⟩

theorem GroupsAt.mono {g g' : List Entry} (h : ∀ e ∈ g, e ∈ g') {opener : Option Nat} {kb : List Nat} :
    ∀ {gs : List (List Nat)} {i : Nat}, GroupsAt g opener kb i gs → GroupsAt g' opener kb i gs := by
  intro gs
  induction gs with
  | nil => intro _ _; trivial
  | cons G rest ih => intro i hg; exact ⟨hg.1.mono h, hg.2.1, ih hg.2.2⟩

theorem groupsAt_append {g : List Entry} {opener : Option Nat} {kb : List Nat} :
    ∀ {A B : List (List Nat)} {i : Nat},
      GroupsAt g opener kb i (A ++ B) ↔ GroupsAt g opener kb i A ∧ GroupsAt g opener kb (i + A.length) B := by
  intro A
  induction A with
  | nil => intro B i; simp [GroupsAt]
  | cons G rest ih =>
    intro B i
    simp only [List.cons_append, GroupsAt, List.length_cons]
    rw [ih]
    have : i + 1 + rest.length = i + (rest.length + 1) := by omega
    rw [this]
    constructor
    · rintro ⟨h1, h2, h3, h4⟩; exact ⟨⟨h1, h2, h3⟩, h4⟩
    · rintro ⟨⟨h1, h2, h3⟩, h4⟩; exact ⟨h1, h2, h3, h4⟩

/-- the entry of the last operation of a path `pre ++ [x]`: its key is `key ++ 0 … 0`. -/
theorem PathAt.last_entry {g : List Entry} : ∀ {pre : List Nat} {parent : Option Nat} {key : List Nat} {x : Nat},
    PathAt g parent key (pre ++ [x]) →
      ∃ p, (⟨x, p, key ++ List.replicate pre.length 0⟩ : Entry) ∈ g := by
  intro pre
  induction pre with
  | nil => intro parent key x h; exact ⟨parent, by simpa using h.1⟩
  | cons y ys ih =>
    intro parent key x h
    obtain ⟨p, hp⟩ := ih h.2
    refine ⟨p, ?_⟩
    have : key ++ [0] ++ List.replicate ys.length 0 = key ++ List.replicate (y :: ys).length 0 := by
      simp [List.replicate_succ]
    rw [← this]; exact hp

/-- every operation of a path has an entry whose key extends `key` by at most `length − 1` zeros. -/
theorem PathAt.entry_of_mem {g : List Entry} : ∀ {xs : List Nat} {parent : Option Nat} {key : List Nat} {y : Nat},
    PathAt g parent key xs → y ∈ xs →
      ∃ p j, j < xs.length ∧ (⟨y, p, key ++ List.replicate j 0⟩ : Entry) ∈ g := by
  intro xs
  induction xs with
  | nil => intro _ _ y _ hy; cases hy
  | cons x xs ih =>
    intro parent key y h hy
    cases hy with
    | head => exact ⟨parent, 0, by simp, by simpa using h.1⟩
    | tail _ hy' =>
      obtain ⟨p, j, hj, hmem⟩ := ih h.2 hy'
      refine ⟨p, j + 1, by simp; omega, ?_⟩
      have : key ++ [0] ++ List.replicate j 0 = key ++ List.replicate (j + 1) 0 := by
        simp [List.replicate_succ]
      rw [← this]; exact hmem

/-! ### the invariant -/

/-- see the header. -/
structure LInv (w : World) (c : Nat) (desc : Nat → Op) (opener : Option Nat) (kb : List Nat)
    (groups : List (List Nat)) : Prop where
  flat : FlatBlock w c
  built : Built (w.op c).graph
  openerOk : ∀ b, opener = some b → (∃ e ∈ (w.op c).graph, e.node = b ∧ e.key = kb) ∧ b ∉ groups.flatten
  openerNone : opener = none → kb = []
  groupsAt : GroupsAt (w.op c).graph opener kb 0 groups
  cover : ∀ e ∈ (w.op c).graph, e.node ∈ groups.flatten ∨ e.key.length ≤ kb.length ∧ keyLe e.key kb = true
  sibOpener : sibCount (w.op c).graph opener = groups.length
  sibLast : ∀ G ∈ groups, ∀ pre x, G = pre ++ [x] → sibCount (w.op c).graph (some x) = 0
  descOk : ∀ e ∈ (w.op c).graph, (w.op e.node).leafChans = (desc e.node).leafChans ∧
    (w.op e.node).dur = (desc e.node).dur
  links : ∀ e ∈ (w.op c).graph, (w.op e.node).link < w.links.size ∧
    (w.lnk (w.op e.node).link).multi = false ∧ (w.lnk (w.op e.node).link).rel = .fb ∧
    (w.lnk (w.op e.node).link).refs = e.parent.toList

theorem sharesChannel_congr_right {d a b : Op} (h : a.leafChans = b.leafChans) :
    sharesChannel d a = sharesChannel d b := by
  unfold sharesChannel; rw [h]

theorem leafChans_with_link (d : Op) (l : Nat) : ({ d with link := l } : Op).leafChans = d.leafChans := rfl

theorem sibCount_snoc (g : List Entry) (e : Entry) (p : Option Nat) :
    sibCount (g ++ [e]) p = sibCount g p + (if e.parent == p then 1 else 0) := by
  rw [sibCount_append]
  congr 1
  unfold sibCount
  by_cases h : e.parent == p <;> simp [h]

/-- no entry of a built graph hangs below a node that is not in the graph. -/
theorem sibCount_absent {g : List Entry} (hb : Built g) {o : Nat} (ho : inGraph g o = false) :
    sibCount g (some o) = 0 := by
  unfold sibCount
  rw [List.length_eq_zero_iff, List.filter_eq_nil_iff]
  intro e he hp
  have hp' : e.parent = some o := by simpa using hp
  obtain ⟨pe, hpe, hq, _⟩ := hb.parent_mem he hp'
  have := inGraph_false_iff.mp ho pe hpe
  exact this hq

/-- the nodes of the graph of a flat block are smaller than the heap size, hence different from the next object. -/
theorem FlatBlock.fresh {w : World} {c : Nat} (h : FlatBlock w c) : inGraph (w.op c).graph w.ops.size = false := by
  rw [inGraph_false_iff]
  intro e he heq
  have := (h.2 e he).1
  omega

theorem keyLe_refl (a : List Nat) : keyLe a a = true := by
  simp [keyLe, lexLt_irrefl]

theorem keyLe_length {a b : List Nat} (h : keyLe a b = true) : a.length ≤ b.length := by
  simp only [keyLe, Bool.or_eq_true, decide_eq_true_eq, Bool.and_eq_true, beq_iff_eq] at h
  rcases h with h | ⟨h, _⟩ <;> omega

/-! ### what every step does, whatever the layer structure -/

/-- descriptions after a step: the new object `o` gets `d`. -/
def descUpd (desc : Nat → Op) (o : Nat) (d : Op) : Nat → Op := fun x => if x = o then d else desc x

/-- the heap-level facts after a program step that hangs the new operation below `par`. -/
structure StepFacts (w : World) (c : Nat) (desc : Nat → Op) (d : Op) (par : Option Nat) (W : World) : Prop where
  graph : (W.op c).graph = (w.op c).graph ++
    [⟨w.ops.size, par, baseKey (w.op c).graph par ++ [sibCount (w.op c).graph par]⟩]
  flat : FlatBlock W c
  built : Built (W.op c).graph
  descOk : ∀ e ∈ (W.op c).graph, (W.op e.node).leafChans = (descUpd desc w.ops.size d e.node).leafChans ∧
    (W.op e.node).dur = (descUpd desc w.ops.size d e.node).dur
  links : ∀ e ∈ (W.op c).graph, (W.op e.node).link < W.links.size ∧
    (W.lnk (W.op e.node).link).multi = false ∧ (W.lnk (W.op e.node).link).rel = .fb ∧
    (W.lnk (W.op e.node).link).refs = e.parent.toList

theorem step_common {w : World} {c : Nat} {desc : Nat → Op} {opener : Option Nat} {kb : List Nat}
    {groups : List (List Nat)} (h : LInv w c desc opener kb groups) {d : Op} (hd : d.isComp = false)
    {par : Option Nat} (hpick : pickParent w c d = par)
    (hpar : ∀ q, par = some q → inGraph (w.op c).graph q = true) :
    StepFacts w c desc d par (addNew c w d) := by
  have hs := addNew_spec w c d h.flat hd
  have hfresh := h.flat.fresh
  have hgraph : ((addNew c w d).op c).graph = (w.op c).graph ++
      [⟨w.ops.size, par, baseKey (w.op c).graph par ++ [sibCount (w.op c).graph par]⟩] := by
    rw [hs.graph, hpick, attach_def]
  obtain ⟨l, hop, hl1, hl2, hm, hr, hrefs⟩ := hs.newOp
  rw [hpick] at hrefs
  refine ⟨hgraph, ?_, ?_, ?_, ?_⟩
  · -- flat
    refine ⟨by rw [hs.size]; exact Nat.lt_succ_of_lt h.flat.1, ?_⟩
    intro e he
    rw [hgraph, List.mem_append, List.mem_singleton] at he
    rcases he with he | rfl
    · obtain ⟨h1, h2, h3⟩ := h.flat.2 e he
      exact ⟨by rw [hs.size]; omega, h2, by rw [hs.opOld _ h1 h2]; exact h3⟩
    · refine ⟨by rw [hs.size]; exact Nat.lt_succ_self _, Nat.ne_of_gt h.flat.1, ?_⟩
      show ((addNew c w d).op w.ops.size).isComp = false
      rw [hop]; exact hd
  · rw [hgraph, ← attach_def]
    exact built_attach h.built par _ hpar hfresh
  · intro e he
    rw [hgraph, List.mem_append, List.mem_singleton] at he
    rcases he with he | rfl
    · obtain ⟨h1, h2, _⟩ := h.flat.2 e he
      have hne : e.node ≠ w.ops.size := Nat.ne_of_lt h1
      rw [hs.opOld _ h1 h2]
      simp only [descUpd, hne, if_false]
      exact h.descOk e he
    · show ((addNew c w d).op w.ops.size).leafChans = _ ∧ ((addNew c w d).op w.ops.size).dur = _
      rw [hop]
      simp [descUpd, leafChans_with_link]
  · intro e he
    rw [hgraph, List.mem_append, List.mem_singleton] at he
    rcases he with he | rfl
    · obtain ⟨h1, h2, _⟩ := h.flat.2 e he
      obtain ⟨k1, k2, k3, k4⟩ := h.links e he
      rw [hs.opOld _ h1 h2, hs.lnkOld _ k1]
      exact ⟨Nat.lt_of_lt_of_le k1 hs.linksGrow, k2, k3, k4⟩
    · show ((addNew c w d).op w.ops.size).link < _ ∧ _
      rw [hop]
      exact ⟨hl2, hm, hr, hrefs⟩

/-! ### the three kinds of steps -/

theorem LInv.shares {w : World} {c : Nat} {desc : Nat → Op} {opener : Option Nat} {kb : List Nat}
    {groups : List (List Nat)} (h : LInv w c desc opener kb groups) (d : Op) {e : Entry}
    (he : e ∈ (w.op c).graph) : sharesChannel d (w.op e.node) = sharesChannel d (desc e.node) :=
  sharesChannel_congr_right (h.descOk e he).1

theorem LInv.node_lt {w : World} {c : Nat} {desc : Nat → Op} {opener : Option Nat} {kb : List Nat}
    {groups : List (List Nat)} (h : LInv w c desc opener kb groups) {e : Entry}
    (he : e ∈ (w.op c).graph) : e.node < w.ops.size := (h.flat.2 e he).1

/-- the base key `attach` computes below the opener is `kb`. -/
theorem LInv.baseKey_opener {w : World} {c : Nat} {desc : Nat → Op} {opener : Option Nat} {kb : List Nat}
    {groups : List (List Nat)} (h : LInv w c desc opener kb groups) : baseKey (w.op c).graph opener = kb := by
  cases hop : opener with
  | none => rw [h.openerNone hop]; rfl
  | some b =>
    obtain ⟨⟨e, he, hn, hk⟩, _⟩ := h.openerOk b hop
    rw [← hn, baseKey_of_mem h.built.nodup (fun x hx => hx) he, hk]

/-- **a new path**: the operation shares a channel with the opener (if there is one) and with no operation of the
    open layer. -/
theorem step_new {w : World} {c : Nat} {desc : Nat → Op} {opener : Option Nat} {kb : List Nat}
    {groups : List (List Nat)} (h : LInv w c desc opener kb groups) {d : Op} (hd : d.isComp = false)
    (hop : ∀ b, opener = some b → sharesChannel d (desc b) = true)
    (hno : ∀ x ∈ groups.flatten, sharesChannel d (desc x) = false) :
    LInv (addNew c w d) c (descUpd desc w.ops.size d) opener kb (groups ++ [[w.ops.size]]) := by
  -- the parent `add` picks is the opener
  have hpick : pickParent w c d = opener := by
    cases hopn : opener with
    | none =>
      apply pickParent_none
      intro e he
      rw [h.shares d he]
      rcases h.cover e he with h1 | ⟨h1, _⟩
      · exact hno _ h1
      · rw [h.openerNone hopn] at h1
        have := h.built.key_ne_nil he
        have : e.key = [] := List.eq_nil_of_length_eq_zero (by simpa using h1)
        contradiction
    | some b =>
      obtain ⟨⟨eb, heb, hn, hk⟩, _⟩ := h.openerOk b hopn
      rw [← hn]
      apply pickParent_of_max h.built heb
      · rw [h.shares d heb, hn]; exact hop b hopn
      · intro e' he' hm
        rw [h.shares d he'] at hm
        rcases h.cover e' he' with h1 | ⟨_, h1⟩
        · rw [hno _ h1] at hm; cases hm
        · rw [hk]; exact h1
  have hpar : ∀ q, opener = some q → inGraph (w.op c).graph q = true := by
    intro q hq
    obtain ⟨⟨e, he, hn, _⟩, _⟩ := h.openerOk q hq
    exact inGraph_iff.mpr ⟨e, he, hn⟩
  have hf := step_common h hd hpick hpar
  have hg := hf.graph
  rw [h.baseKey_opener, h.sibOpener] at hg
  have hmono : ∀ e ∈ (w.op c).graph, e ∈ ((addNew c w d).op c).graph := by
    intro e he; rw [hg]; exact List.mem_append_left _ he
  refine ⟨hf.flat, hf.built, ?_, h.openerNone, ?_, ?_, ?_, ?_, hf.descOk, hf.links⟩
  · intro b hb
    obtain ⟨⟨e, he, hn, hk⟩, hnot⟩ := h.openerOk b hb
    refine ⟨⟨e, hmono e he, hn, hk⟩, ?_⟩
    rw [List.flatten_append, List.mem_append]
    rintro (h1 | h1)
    · exact hnot h1
    · have : b = w.ops.size := by simpa using h1
      have := h.node_lt he
      omega
  · rw [groupsAt_append]
    refine ⟨h.groupsAt.mono hmono, ?_, by simp, trivial⟩
    refine ⟨?_, trivial⟩
    rw [hg]
    simp
  · intro e he
    rw [hg, List.mem_append, List.mem_singleton] at he
    rcases he with he | rfl
    · rcases h.cover e he with h1 | h1
      · left; rw [List.flatten_append, List.mem_append]; exact Or.inl h1
      · exact Or.inr h1
    · left; simp
  · rw [hg, sibCount_snoc]
    simp [h.sibOpener]
  · intro G hG pre x hGx
    rw [hg, sibCount_snoc]
    rw [List.mem_append, List.mem_singleton] at hG
    have hneq : (opener == some x) = false := by
      cases hopn : opener with
      | none => rfl
      | some b =>
        obtain ⟨⟨e, he, hn, _⟩, hnot⟩ := h.openerOk b hopn
        have hbx : b ≠ x := by
          rcases hG with hG | hG
          · intro hbx
            apply hnot
            rw [hbx, List.mem_flatten]
            exact ⟨G, hG, by rw [hGx]; simp⟩
          · have hx : x = w.ops.size := by
              rw [hGx] at hG
              have hlen := congrArg List.length hG
              cases pre with
              | nil => simpa using hG
              | cons y ys => simp at hlen
            have := h.node_lt he
            omega
        simp [hbx]
    simp only [hneq, Bool.false_eq_true, if_false, Nat.add_zero]
    rcases hG with hG | hG
    · exact h.sibLast G hG pre x hGx
    · have hx : x = w.ops.size := by
        rw [hGx] at hG
        have hlen := congrArg List.length hG
        cases pre with
        | nil => simpa using hG
        | cons y ys => simp at hlen
      rw [hx]
      exact sibCount_absent h.built h.flat.fresh

/-- parent of the element that follows the path `xs` (hanging below `parent`). -/
def nextParent (parent : Option Nat) : List Nat → Option Nat
  | [] => parent
  | x :: xs => nextParent (some x) xs

theorem nextParent_snoc (parent : Option Nat) (xs : List Nat) (x : Nat) : nextParent parent (xs ++ [x]) = some x := by
  induction xs generalizing parent with
  | nil => rfl
  | cons y ys ih => exact ih (some y)

theorem pathAt_snoc {g : List Entry} : ∀ {xs : List Nat} {parent : Option Nat} {key : List Nat} {o : Nat},
    PathAt g parent key (xs ++ [o]) ↔
      PathAt g parent key xs ∧ (⟨o, nextParent parent xs, key ++ List.replicate xs.length 0⟩ : Entry) ∈ g := by
  intro xs
  induction xs with
  | nil => intro parent key o; simp [PathAt, nextParent]
  | cons y ys ih =>
    intro parent key o
    simp only [List.cons_append, PathAt, nextParent, List.length_cons]
    rw [ih]
    have : key ++ [0] ++ List.replicate ys.length 0 = key ++ List.replicate (ys.length + 1) 0 := by
      simp [List.replicate_succ]
    rw [this]
    constructor
    · rintro ⟨h1, h2, h3⟩; exact ⟨⟨h1, h2⟩, h3⟩
    · rintro ⟨⟨h1, h2⟩, h3⟩; exact ⟨h1, h2, h3⟩

theorem layerKey_eq (kb : List Nat) (i j : Nat) : kb ++ [i] ++ List.replicate j 0 = layerKey kb i j := by
  simp [layerKey]

theorem snoc_inj {α} {l l' : List α} {a a' : α} (h : l ++ [a] = l' ++ [a']) : l = l' ∧ a = a' := by
  have := List.append_inj' h rfl
  exact ⟨this.1, by simpa using this.2⟩

/-- the key of an entry of an operation of the open layer. -/
theorem LInv.group_key {w : World} {c : Nat} {desc : Nat → Op} {opener : Option Nat} {kb : List Nat}
    {A B : List (List Nat)} {G : List Nat} (h : LInv w c desc opener kb (A ++ G :: B)) {e : Entry}
    (he : e ∈ (w.op c).graph) (hG : e.node ∈ G) : ∃ j, j < G.length ∧ e.key = layerKey kb A.length j := by
  have hg := (groupsAt_append.mp h.groupsAt).2
  simp only [Nat.zero_add] at hg
  obtain ⟨p, j, hj, hmem⟩ := hg.1.entry_of_mem hG
  have := node_unique h.built.nodup he hmem rfl
  refine ⟨j, hj, ?_⟩
  rw [this]
  exact layerKey_eq kb A.length j

/-- **extending a path**: the operation shares a channel with the LAST operation of one path and with no operation
    of another path of the open layer. -/
theorem step_ext {w : World} {c : Nat} {desc : Nat → Op} {opener : Option Nat} {kb : List Nat}
    {A B : List (List Nat)} {pre : List Nat} {x : Nat}
    (h : LInv w c desc opener kb (A ++ (pre ++ [x]) :: B)) {d : Op} (hd : d.isComp = false)
    (hx : sharesChannel d (desc x) = true)
    (hno : ∀ y ∈ (A ++ B).flatten, sharesChannel d (desc y) = false) :
    LInv (addNew c w d) c (descUpd desc w.ops.size d) opener kb (A ++ (pre ++ [x] ++ [w.ops.size]) :: B) := by
  have hgroups := (groupsAt_append.mp h.groupsAt).2
  simp only [Nat.zero_add] at hgroups
  obtain ⟨hpathG, _, hgroupsB⟩ := hgroups
  obtain ⟨p, hex⟩ := hpathG.last_entry
  rw [layerKey_eq] at hex
  -- `x` is not an operation of another path
  have hxnot : x ∉ (A ++ B).flatten := by
    intro hmem
    rw [hno x hmem] at hx; cases hx
  have hflat : ∀ y, y ∈ (A ++ (pre ++ [x]) :: B).flatten ↔ y ∈ (A ++ B).flatten ∨ y ∈ pre ++ [x] := by
    intro y
    simp only [List.flatten_append, List.flatten_cons, List.mem_append]
    constructor
    · rintro (h1 | (h1 | h1) | h1)
      · exact Or.inl (Or.inl h1)
      · exact Or.inr (Or.inl h1)
      · exact Or.inr (Or.inr h1)
      · exact Or.inl (Or.inr h1)
    · rintro ((h1 | h1) | (h1 | h1))
      · exact Or.inl h1
      · exact Or.inr (Or.inr h1)
      · exact Or.inr (Or.inl (Or.inl h1))
      · exact Or.inr (Or.inl (Or.inr h1))
  -- the parent `add` picks is `x`
  have hpick : pickParent w c d = some x := by
    apply pickParent_of_max h.built hex
    · rw [h.shares d hex]; exact hx
    · intro e' he' hm
      rw [h.shares d he'] at hm
      rcases h.cover e' he' with h1 | ⟨h1, _⟩
      · rcases (hflat _).mp h1 with h2 | h2
        · rw [hno _ h2] at hm; cases hm
        · obtain ⟨j, hj, hk⟩ := h.group_key he' h2
          rw [hk]
          apply keyLe_layerKey
          simp only [List.length_append, List.length_cons, List.length_nil] at hj
          omega
      · apply keyLe_of_shorter
        show e'.key.length < (layerKey kb A.length pre.length).length
        rw [layerKey_length]; omega
  have hpar : ∀ q, some x = some q → inGraph (w.op c).graph q = true := by
    intro q hq
    cases hq
    exact inGraph_iff.mpr ⟨_, hex, rfl⟩
  have hf := step_common h hd hpick hpar
  have hg := hf.graph
  have hbase : baseKey (w.op c).graph (some x) = layerKey kb A.length pre.length :=
    baseKey_of_mem h.built.nodup (fun y hy => hy) hex
  have hsib : sibCount (w.op c).graph (some x) = 0 :=
    h.sibLast (pre ++ [x]) (by simp) pre x rfl
  rw [hbase, hsib, ← layerKey_succ] at hg
  have hmono : ∀ e ∈ (w.op c).graph, e ∈ ((addNew c w d).op c).graph := by
    intro e he; rw [hg]; exact List.mem_append_left _ he
  have hxlt : x < w.ops.size := h.node_lt hex
  have hflat' : ∀ y, y ∈ (A ++ (pre ++ [x] ++ [w.ops.size]) :: B).flatten ↔
      y ∈ (A ++ (pre ++ [x]) :: B).flatten ∨ y = w.ops.size := by
    intro y
    simp only [List.flatten_append, List.flatten_cons, List.mem_append, List.mem_cons,
      List.not_mem_nil, or_false]
    constructor
    · rintro (h1 | ((h1 | h1) | h1) | h1)
      · exact Or.inl (Or.inl h1)
      · exact Or.inl (Or.inr (Or.inl (Or.inl h1)))
      · exact Or.inl (Or.inr (Or.inl (Or.inr h1)))
      · exact Or.inr h1
      · exact Or.inl (Or.inr (Or.inr h1))
    · rintro ((h1 | (h1 | h1) | h1) | h1)
      · exact Or.inl h1
      · exact Or.inr (Or.inl (Or.inl (Or.inl h1)))
      · exact Or.inr (Or.inl (Or.inl (Or.inr h1)))
      · exact Or.inr (Or.inr h1)
      · exact Or.inr (Or.inl (Or.inr h1))
  refine ⟨hf.flat, hf.built, ?_, h.openerNone, ?_, ?_, ?_, ?_, hf.descOk, hf.links⟩
  · intro b hb
    obtain ⟨⟨e, he, hn, hk⟩, hnot⟩ := h.openerOk b hb
    refine ⟨⟨e, hmono e he, hn, hk⟩, ?_⟩
    intro hmem
    rcases (hflat' b).mp hmem with h1 | h1
    · exact hnot h1
    · have := h.node_lt he
      omega
  · rw [groupsAt_append]
    refine ⟨(groupsAt_append.mp h.groupsAt).1.mono hmono, ?_, by simp, by simpa using hgroupsB.mono hmono⟩
    simp only [Nat.zero_add]
    rw [pathAt_snoc]
    refine ⟨hpathG.mono hmono, ?_⟩
    rw [nextParent_snoc, layerKey_eq, hg]
    simp
  · intro e he
    rw [hg, List.mem_append, List.mem_singleton] at he
    rcases he with he | rfl
    · rcases h.cover e he with h1 | h1
      · exact Or.inl ((hflat' _).mpr (Or.inl h1))
      · exact Or.inr h1
    · exact Or.inl ((hflat' _).mpr (Or.inr rfl))
  · rw [hg, sibCount_snoc]
    have hneq : ((some x : Option Nat) == opener) = false := by
      cases hopn : opener with
      | none => rfl
      | some b =>
        obtain ⟨_, hnot⟩ := h.openerOk b hopn
        have hbx : x ≠ b := by
          intro hbx
          apply hnot
          rw [← hbx]
          exact (hflat x).mpr (Or.inr (by simp))
        simp [hbx]
    simp only [hneq, Bool.false_eq_true, if_false, Nat.add_zero]
    rw [h.sibOpener]
    simp
  · intro G hG pre' x' hGx
    rw [hg, sibCount_snoc]
    rw [List.mem_append, List.mem_cons] at hG
    rcases hG with hG | hG | hG
    · -- a path of `A`
      have hx' : x' ∈ (A ++ B).flatten := by
        rw [List.flatten_append, List.mem_append, List.mem_flatten]
        exact Or.inl ⟨G, hG, by rw [hGx]; simp⟩
      have hne : x ≠ x' := fun hh => hxnot (hh ▸ hx')
      simp only [show ((some x : Option Nat) == some x') = false by simp [hne], Bool.false_eq_true, if_false,
        Nat.add_zero]
      exact h.sibLast G (by simp [hG]) pre' x' hGx
    · -- the extended path: its last operation is the new one
      rw [hG] at hGx
      obtain ⟨_, hx'⟩ := snoc_inj hGx
      rw [← hx']
      have hne : x ≠ w.ops.size := Nat.ne_of_lt hxlt
      simp only [show ((some x : Option Nat) == some w.ops.size) = false by simp [hne], Bool.false_eq_true,
        if_false, Nat.add_zero]
      exact sibCount_absent h.built h.flat.fresh
    · have hx' : x' ∈ (A ++ B).flatten := by
        rw [List.flatten_append, List.mem_append, List.mem_flatten]
        exact Or.inr (by rw [List.mem_flatten]; exact ⟨G, hG, by rw [hGx]; simp⟩)
      have hne : x ≠ x' := fun hh => hxnot (hh ▸ hx')
      simp only [show ((some x : Option Nat) == some x') = false by simp [hne], Bool.false_eq_true, if_false,
        Nat.add_zero]
      exact h.sibLast G (by simp [hG]) pre' x' hGx

/-- the key of an entry of an operation of the open layer, whatever its path: `layerKey kb i j` with `i` the
    position of the path and `j` smaller than its length. -/
theorem LInv.any_group_key {w : World} {c : Nat} {desc : Nat → Op} {opener : Option Nat} {kb : List Nat}
    {groups : List (List Nat)} (h : LInv w c desc opener kb groups) {e : Entry}
    (he : e ∈ (w.op c).graph) (hG : e.node ∈ groups.flatten) :
    ∃ A G B j, groups = A ++ G :: B ∧ j < G.length ∧ e.key = layerKey kb A.length j := by
  rw [List.mem_flatten] at hG
  obtain ⟨G, hGm, hnG⟩ := hG
  obtain ⟨A, B, rfl⟩ := List.append_of_mem hGm
  obtain ⟨j, hj, hk⟩ := h.group_key he hnG
  exact ⟨A, G, B, j, rfl, hj, hk⟩

/-- two decompositions of one list at different positions. -/
theorem split_cases {α} {A B A' B' : List α} {G G' : α} (h : A ++ G :: B = A' ++ G' :: B') :
    (A'.length < A.length ∧ G' ∈ A) ∨ (A' = A ∧ G' = G ∧ B' = B) ∨ (A.length < A'.length ∧ G' ∈ B) := by
  induction A generalizing A' with
  | nil =>
    cases A' with
    | nil =>
      simp only [List.nil_append, List.cons.injEq] at h
      exact Or.inr (Or.inl ⟨rfl, h.1.symm, h.2.symm⟩)
    | cons a as =>
      simp only [List.nil_append, List.cons_append, List.cons.injEq] at h
      right; right
      refine ⟨by simp, ?_⟩
      rw [h.2]; simp
  | cons x xs ih =>
    cases A' with
    | nil =>
      simp only [List.nil_append, List.cons_append, List.cons.injEq] at h
      left
      exact ⟨by simp, by rw [← h.1]; simp⟩
    | cons a as =>
      simp only [List.cons_append, List.cons.injEq] at h
      rcases ih h.2 with ⟨h1, h2⟩ | ⟨h1, h2, h3⟩ | ⟨h1, h2⟩
      · left; exact ⟨by simp; omega, List.mem_cons_of_mem _ h2⟩
      · right; left; exact ⟨by rw [h.1, h1], h2, h3⟩
      · right; right; exact ⟨by simp; omega, h2⟩

/-- **closing the layer**: the operation shares a channel with the last operation `x` of a path that is at least as
    long as every earlier path and longer than every later one (so `x` carries the greatest path key of the whole
    tree): it is hung below `x` and becomes the opener of the next layer. -/
theorem step_close {w : World} {c : Nat} {desc : Nat → Op} {opener : Option Nat} {kb : List Nat}
    {A B : List (List Nat)} {pre : List Nat} {x : Nat}
    (h : LInv w c desc opener kb (A ++ (pre ++ [x]) :: B)) {d : Op} (hd : d.isComp = false)
    (hx : sharesChannel d (desc x) = true)
    (hA : ∀ G ∈ A, G.length ≤ pre.length + 1) (hB : ∀ G ∈ B, G.length < pre.length + 1) :
    LInv (addNew c w d) c (descUpd desc w.ops.size d) (some w.ops.size)
      (layerKey kb A.length (pre.length + 1)) [] ∧
    (⟨w.ops.size, some x, layerKey kb A.length (pre.length + 1)⟩ : Entry) ∈ ((addNew c w d).op c).graph ∧
    ∀ e ∈ (w.op c).graph, e ∈ ((addNew c w d).op c).graph := by
  have hgroups := (groupsAt_append.mp h.groupsAt).2
  simp only [Nat.zero_add] at hgroups
  obtain ⟨hpathG, _, _⟩ := hgroups
  obtain ⟨p, hex⟩ := hpathG.last_entry
  rw [layerKey_eq] at hex
  -- `x` carries the greatest key
  have hmaxall : ∀ e' ∈ (w.op c).graph, keyLe e'.key (layerKey kb A.length pre.length) = true := by
    intro e' he'
    rcases h.cover e' he' with h1 | ⟨h1, _⟩
    · obtain ⟨A', G', B', j, hsplit, hj, hk⟩ := h.any_group_key he' h1
      rw [hk]
      apply keyLe_layerKey
      rcases split_cases hsplit with ⟨h2, h3⟩ | ⟨h2, h3, _⟩ | ⟨h2, h3⟩
      · have := hA G' h3
        omega
      · subst h2; subst h3
        simp only [List.length_append, List.length_cons, List.length_nil] at hj
        omega
      · have := hB G' h3
        omega
    · apply keyLe_of_shorter
      rw [layerKey_length]; omega
  have hpick : pickParent w c d = some x := by
    apply pickParent_of_max h.built hex
    · rw [h.shares d hex]; exact hx
    · intro e' he' _
      exact hmaxall e' he'
  have hpar : ∀ q, some x = some q → inGraph (w.op c).graph q = true := by
    intro q hq
    cases hq
    exact inGraph_iff.mpr ⟨_, hex, rfl⟩
  have hf := step_common h hd hpick hpar
  have hg := hf.graph
  have hbase : baseKey (w.op c).graph (some x) = layerKey kb A.length pre.length :=
    baseKey_of_mem h.built.nodup (fun y hy => hy) hex
  have hsib : sibCount (w.op c).graph (some x) = 0 :=
    h.sibLast (pre ++ [x]) (by simp) pre x rfl
  rw [hbase, hsib, ← layerKey_succ] at hg
  have hmono : ∀ e ∈ (w.op c).graph, e ∈ ((addNew c w d).op c).graph := by
    intro e he; rw [hg]; exact List.mem_append_left _ he
  have hxlt : x < w.ops.size := h.node_lt hex
  have hnew : (⟨w.ops.size, some x, layerKey kb A.length (pre.length + 1)⟩ : Entry) ∈
      ((addNew c w d).op c).graph := by rw [hg]; simp
  refine ⟨⟨hf.flat, hf.built, ?_, (by intro hh; cases hh), trivial, ?_, ?_, ?_, hf.descOk, hf.links⟩, hnew, hmono⟩
  · intro b hb
    cases hb
    exact ⟨⟨_, hnew, rfl, rfl⟩, by simp⟩
  · intro e he
    right
    rw [hg, List.mem_append, List.mem_singleton] at he
    rcases he with he | rfl
    · have h1 := keyLe_length (hmaxall e he)
      rw [layerKey_length] at h1
      constructor
      · rw [layerKey_length]; omega
      · apply keyLe_of_shorter
        rw [layerKey_length]; omega
    · exact ⟨Nat.le_refl _, keyLe_refl _⟩
  · rw [hg, sibCount_snoc]
    have hne : x ≠ w.ops.size := Nat.ne_of_lt hxlt
    simp only [show ((some x : Option Nat) == some w.ops.size) = false by simp [hne], Bool.false_eq_true,
      if_false, Nat.add_zero, List.length_nil]
    exact sibCount_absent h.built h.flat.fresh
  · intro G hG
    cases hG

/-- **the last operation of the greatest path becomes the opener** (no program step: the next operations will be
    hung below it because it carries the greatest path key). -/
theorem promote {w : World} {c : Nat} {desc : Nat → Op} {opener : Option Nat} {kb : List Nat}
    {A B : List (List Nat)} {pre : List Nat} {x : Nat}
    (h : LInv w c desc opener kb (A ++ (pre ++ [x]) :: B))
    (hA : ∀ G ∈ A, G.length ≤ pre.length + 1) (hB : ∀ G ∈ B, G.length < pre.length + 1) :
    LInv w c desc (some x) (layerKey kb A.length pre.length) [] := by
  have hgroups := (groupsAt_append.mp h.groupsAt).2
  simp only [Nat.zero_add] at hgroups
  obtain ⟨hpathG, _, _⟩ := hgroups
  obtain ⟨p, hex⟩ := hpathG.last_entry
  rw [layerKey_eq] at hex
  have hmaxall : ∀ e' ∈ (w.op c).graph, keyLe e'.key (layerKey kb A.length pre.length) = true := by
    intro e' he'
    rcases h.cover e' he' with h1 | ⟨h1, _⟩
    · obtain ⟨A', G', B', j, hsplit, hj, hk⟩ := h.any_group_key he' h1
      rw [hk]
      apply keyLe_layerKey
      rcases split_cases hsplit with ⟨h2, h3⟩ | ⟨h2, h3, _⟩ | ⟨h2, h3⟩
      · have := hA G' h3
        omega
      · subst h2; subst h3
        simp only [List.length_append, List.length_cons, List.length_nil] at hj
        omega
      · have := hB G' h3
        omega
    · apply keyLe_of_shorter
      rw [layerKey_length]; omega
  refine ⟨h.flat, h.built, ?_, (by intro hh; cases hh), trivial, ?_, ?_, ?_, h.descOk, h.links⟩
  · intro b hb
    cases hb
    exact ⟨⟨_, hex, rfl, rfl⟩, by simp⟩
  · intro e he
    exact Or.inr ⟨keyLe_length (hmaxall e he), hmaxall e he⟩
  · simp only [List.length_nil]
    exact h.sibLast (pre ++ [x]) (by simp) pre x rfl
  · intro G hG
    cases hG

/-- a circuit to which nothing has been added yet. -/
theorem linv_fresh (w : World) (c : Nat) (desc : Nat → Op) (hc : c < w.ops.size) (hg : (w.op c).graph = []) :
    LInv w c desc none [] [] := by
  refine ⟨⟨hc, ?_⟩, ?_, ?_, fun _ => rfl, trivial, ?_, ?_, ?_, ?_, ?_⟩
  · rw [hg]; intro e he; cases he
  · rw [hg]; exact built_nil
  · intro b hb; cases hb
  · rw [hg]; intro e he; cases he
  · rw [hg]; rfl
  · intro G hG; cases hG
  · rw [hg]; intro e he; cases he
  · rw [hg]; intro e he; cases he

/-- what the invariant says about the heap: every operation of the open layer carries a single FOLLOWED_BY link to
    its predecessor on its path (to the opener for the first operation of a path). -/
theorem LInv.directFb {w : World} {c : Nat} {desc : Nat → Op} {opener : Option Nat} {kb : List Nat}
    {groups : List (List Nat)} (h : LInv w c desc opener kb groups) {e : Entry} (he : e ∈ (w.op c).graph)
    {p : Nat} (hp : e.parent = some p) : DirectFb w p e.node := by
  obtain ⟨_, h2, h3, h4⟩ := h.links e he
  rw [hp] at h4
  exact ⟨h3, Or.inl ⟨h2, by rw [h4]; rfl⟩⟩

end Qco.C10Param
