import QcoVerif.Model.Noise
import QcoVerif.Lemmas.PauliError
/-
  C14 — noise dressing only adds noise, with the configured strengths.

  About `Qco.Noise.dress` (Model/Noise.lean), the function the driver module `noise` executes and
  `harness/c14.py` compares with `apply_noise` instruction by instruction.
-/
namespace Qco.C14
open Qco.Noise Qco.Noise.Analysis

/-! ## blocks: `split_instruction_blocks` -/

/-- a block that ends with its only TICK. -/
def TickTerminated (b : List Instr) : Prop :=
  ∃ b0 t, b = b0 ++ [t] ∧ isTick t = true ∧ ∀ i ∈ b0, isTick i = false

def TickFree (b : List Instr) : Prop := ∀ i ∈ b, isTick i = false

/-- the blocks concatenate to the input … -/
theorem splitBlocks_flatten (l : List Instr) : (splitBlocks l).flatten = l := by
  induction l with
  | nil => rfl
  | cons i rest ih =>
    unfold splitBlocks
    split
    · simp [ih]
    · split
      · rename_i b bs h; rw [h] at ih; simpa using ih
      · rename_i h; rw [h] at ih; simp at ih; simp [ih]

/-- … and are: maximal TICK-terminated segments, then one trailing TICK-free (possibly empty) block. -/
theorem splitBlocks_shape (l : List Instr) :
    ∃ bs last, splitBlocks l = bs ++ [last] ∧ (∀ b ∈ bs, TickTerminated b) ∧ TickFree last := by
  induction l with
  | nil => exact ⟨[], [], rfl, by simp, by simp [TickFree]⟩
  | cons i rest ih =>
    obtain ⟨bs, last, h, hbs, hlast⟩ := ih
    unfold splitBlocks
    by_cases ht : isTick i = true
    · rw [if_pos ht, h]
      refine ⟨[i] :: bs, last, rfl, ?_, hlast⟩
      intro b hb
      rcases List.mem_cons.1 hb with rfl | hb
      · exact ⟨[], i, rfl, ht, by simp⟩
      · exact hbs b hb
    · rw [if_neg ht, h]
      have ht' : isTick i = false := by simpa using ht
      cases bs with
      | nil =>
        refine ⟨[], i :: last, rfl, by simp, ?_⟩
        intro j hj
        rcases List.mem_cons.1 hj with rfl | hj
        · exact ht'
        · exact hlast j hj
      | cons b bs2 =>
        refine ⟨(i :: b) :: bs2, last, rfl, ?_, hlast⟩
        intro x hx
        rcases List.mem_cons.1 hx with rfl | hx
        · obtain ⟨b0, t, e, h1, h2⟩ := hbs b (by simp)
          refine ⟨i :: b0, t, by simp [e], h1, ?_⟩
          intro j hj
          rcases List.mem_cons.1 hj with rfl | hj
          · exact ht'
          · exact h2 j hj
        · exact hbs x (by simp [hx])

/-- one block per TICK, plus the trailing one. -/
theorem splitBlocks_length (l : List Instr) : (splitBlocks l).length = (l.filter isTick).length + 1 := by
  induction l with
  | nil => rfl
  | cons i rest ih =>
    unfold splitBlocks
    by_cases ht : isTick i = true
    · simp [ht, ih]
    · have ht' : isTick i = false := by simpa using ht
      rw [if_neg ht, List.filter_cons, ht']
      simp only [Bool.false_eq_true, ↓reduceIte]
      split
      · rename_i b bs h; rw [h] at ih; simpa using ih
      · rename_i h; rw [h] at ih; simp at ih

/-- the loop with the accumulator `sub_set`, as written in the code, computes the same blocks. -/
theorem splitBlocksLoop_eq (cur l : List Instr) :
    splitBlocksLoop cur l = (match splitBlocks l with | b :: bs => (cur ++ b) :: bs | [] => [cur]) := by
  induction l generalizing cur with
  | nil => simp [splitBlocksLoop, splitBlocks]
  | cons i rest ih =>
    unfold splitBlocksLoop splitBlocks
    by_cases ht : isTick i = true
    · simp only [ht, ↓reduceIte]
      rw [ih]
      obtain ⟨bs, last, h, -, -⟩ := splitBlocks_shape rest
      cases bs <;> simp [h]
    · simp only [ht, Bool.false_eq_true, ↓reduceIte]
      rw [ih]
      obtain ⟨bs, last, h, -, -⟩ := splitBlocks_shape rest
      cases bs <;> simp [h]

theorem splitBlocksLoop_nil (l : List Instr) : splitBlocksLoop [] l = splitBlocks l := by
  rw [splitBlocksLoop_eq]
  obtain ⟨bs, last, h, -, -⟩ := splitBlocks_shape l
  cases bs <;> simp [h]

/-! ## block duration and settings lookups -/

theorem foldl_max_spec (l : List Int) (x : Int) :
    x ≤ l.foldl max x ∧ (∀ y ∈ l, y ≤ l.foldl max x) ∧ (l.foldl max x = x ∨ l.foldl max x ∈ l) := by
  induction l generalizing x with
  | nil => simp
  | cons z zs ih =>
    obtain ⟨h1, h2, h3⟩ := ih (max x z)
    simp only [List.foldl_cons, List.mem_cons, forall_eq_or_imp]
    refine ⟨by omega, ⟨by omega, h2⟩, ?_⟩
    rcases h3 with h3 | h3
    · rw [h3]; rcases Int.le_total x z with h | h
      · right; left; omega
      · left; omega
    · right; right; exact h3

/-- `max(…, default=0)`: an upper bound of the list … -/
theorem maxDefault_ge (l : List Int) (y : Int) (hy : y ∈ l) : y ≤ Noise.maxDefault l := by
  cases l with
  | nil => simp at hy
  | cons x xs =>
    obtain ⟨h1, h2, -⟩ := foldl_max_spec xs x
    rcases List.mem_cons.1 hy with rfl | hy
    · exact h1
    · exact h2 y hy

/-- … attained by one of its elements, 0 for the empty block. -/
theorem maxDefault_mem (l : List Int) (h : l ≠ []) : Noise.maxDefault l ∈ l := by
  cases l with
  | nil => exact absurd rfl h
  | cons x xs =>
    obtain ⟨-, -, h3⟩ := foldl_max_spec xs x
    rcases h3 with h3 | h3
    · simp [Noise.maxDefault, h3]
    · simp [Noise.maxDefault, h3]

theorem blockDuration_nil (s : Settings) : blockDuration s [] = 0 := rfl

/-- the block duration dominates the duration of every instruction in the block. -/
theorem blockDuration_ge (s : Settings) (b : List Instr) (i : Instr) (hi : i ∈ b) :
    s.duration i.name ≤ blockDuration s b :=
  maxDefault_ge _ _ (List.mem_map.2 ⟨i, hi, rfl⟩)

/-- and is the duration of one of them. -/
theorem blockDuration_attained (s : Settings) (b : List Instr) (h : b ≠ []) :
    ∃ i ∈ b, blockDuration s b = s.duration i.name := by
  have := maxDefault_mem (b.map (fun i => s.duration i.name)) (by simpa using h)
  obtain ⟨i, hi, e⟩ := List.mem_map.1 this
  exact ⟨i, hi, e.symm⟩

/-- duration lookup: the five names the table answers to — MEASUREMENTS INCLUDED under the name Stim reports. -/
theorem duration_lookup (s : Settings) :
    s.duration "M" = s.durations.mz ∧ s.duration "MZ" = s.durations.mz ∧ s.duration "CZ" = s.durations.cz ∧
    s.duration "H" = s.durations.h ∧ s.duration "X" = s.durations.x ∧ s.duration "Y" = 0 ∧ s.duration "TICK" = 0 := by
  refine ⟨?_, ?_, ?_, ?_, ?_, ?_, ?_⟩ <;>
    simp [Settings.duration, DurParams.table, List.lookup]

/-- so a block containing a measurement idles for at least half the measurement duration. -/
theorem measurement_block_duration (s : Settings) (b : List Instr) (i : Instr) (hi : i ∈ b) (hm : i.name = "M") :
    s.durations.mz ≤ blockDuration s b := by
  have := blockDuration_ge s b i hi
  rw [hm, (duration_lookup s).1] at this
  exact this

/-- per-qubit lookup: the override of the mapped identifier … -/
theorem noiseOf_mapped (s : Settings) (q : Nat) (id : String) (n : QNoise)
    (h1 : s.indexMap.lookup q = some id) (h2 : s.individual.lookup id = some n) : s.noiseOf q = n := by
  simp [Settings.noiseOf, h1, h2]

/-- … else the default (index not mapped, or mapped to an identifier without individual parameters). -/
theorem noiseOf_default (s : Settings) (q : Nat)
    (h : s.indexMap.lookup q = none ∨ ∃ id, s.indexMap.lookup q = some id ∧ s.individual.lookup id = none) :
    s.noiseOf q = s.default := by
  rcases h with h | ⟨id, h1, h2⟩
  · simp [Settings.noiseOf, h]
  · simp [Settings.noiseOf, h1, h2]

example : ∃ (s : Settings) (q : Nat) (id : String) (n : QNoise),
    s.indexMap.lookup q = some id ∧ s.individual.lookup id = some n ∧ n ≠ s.default :=
  ⟨{ default := ⟨⟨1, 1⟩, ⟨2, 1⟩, ⟨0, 1⟩⟩, individual := [("D1", ⟨⟨5, 1⟩, ⟨7, 1⟩, ⟨3, 100⟩⟩)], indexMap := [(1, "D1")],
     durations := ⟨400, 60, 20, 20⟩ }, 1, "D1", ⟨⟨5, 1⟩, ⟨7, 1⟩, ⟨3, 100⟩⟩, by decide⟩

/-! ## qubit targets: `sorted(set(…))` -/

theorem mem_insertNat (x y : Nat) (l : List Nat) : y ∈ insertNat x l ↔ y = x ∨ y ∈ l := by
  induction l with
  | nil => simp [insertNat]
  | cons z zs ih =>
    unfold insertNat
    split
    · simp
    · split
      · rename_i h; subst h; simp
      · simp only [List.mem_cons, ih]; tauto

theorem insertNat_sorted (x : Nat) (l : List Nat) (h : l.Pairwise (· < ·)) : (insertNat x l).Pairwise (· < ·) := by
  induction l with
  | nil => simp [insertNat]
  | cons z zs ih =>
    rw [List.pairwise_cons] at h
    unfold insertNat
    split
    · rename_i hxz
      refine List.pairwise_cons.2 ⟨?_, List.pairwise_cons.2 h⟩
      intro a ha
      rcases List.mem_cons.1 ha with rfl | ha
      · exact hxz
      · exact Nat.lt_trans hxz (h.1 a ha)
    · split
      · exact List.pairwise_cons.2 h
      · rename_i h1 h2
        refine List.pairwise_cons.2 ⟨?_, ih h.2⟩
        intro a ha
        rcases (mem_insertNat x a zs).1 ha with rfl | ha
        · omega
        · exact h.1 a ha

theorem sortDedup_mem (l : List Nat) (y : Nat) : y ∈ sortDedup l ↔ y ∈ l := by
  induction l with
  | nil => simp [sortDedup]
  | cons x xs ih =>
    have : sortDedup (x :: xs) = insertNat x (sortDedup xs) := rfl
    rw [this, mem_insertNat, ih]; simp

/-- strictly ascending: sorted and without duplicates. -/
theorem sortDedup_sorted (l : List Nat) : (sortDedup l).Pairwise (· < ·) := by
  induction l with
  | nil => simp [sortDedup]
  | cons x xs ih => exact insertNat_sorted x _ ih

/-- the idle noise is placed on exactly the qubits some non-annotation instruction names, ascending. -/
theorem allTargets_spec (c : List Instr) :
    (allTargets c).Pairwise (· < ·) ∧ ∀ q, q ∈ allTargets c ↔ ∃ i ∈ c, q ∈ i.qubits := by
  refine ⟨sortDedup_sorted _, fun q => ?_⟩
  simp [allTargets, sortDedup_mem, List.mem_flatMap]

/-! ## the dressed circuit -/

theorem wrapBlock_eq (noise : Nat → Instr) (ts : List Nat) (b : List Instr) :
    wrapBlock noise ts b = ts.reverse.map noise ++ b ++ ts.map noise := by
  induction ts generalizing b with
  | nil => simp [wrapBlock]
  | cons q ts ih =>
    have : wrapBlock noise (q :: ts) b = wrapBlock noise ts ([noise q] ++ b ++ [noise q]) := rfl
    rw [this, ih]; simp

/-- **idle_structure.** The dressed circuit is, block by block (blocks as in `splitBlocks_shape`, taken of the
    measurement-dressed circuit): one idle-noise instruction per target qubit in DESCENDING order, the block,
    one per target qubit in ASCENDING order (the code wraps in ascending order, innermost first); the parameter
    of every noise instruction of a block is `d = blockDuration` (the code uses `t = d/2`, see `Arg.eval`) and
    the qubit's own `T1`, `T2`. -/
theorem idle_structure (s : Settings) (c out : List Instr) (h : dress s c = some out) :
    out = (splitBlocks (measDress s c)).flatMap (fun b =>
      (allTargets (measDress s c)).reverse.map (noiseInstr s (blockDuration s b)) ++ b ++
      (allTargets (measDress s c)).map (noiseInstr s (blockDuration s b))) := by
  unfold dress at h
  split at h
  · injection h with h
    rw [← h, idleDress]
    congr 1
    funext b
    exact wrapBlock_eq _ _ _
  · exact absurd h (by simp)

/-- where the code answers at all: every instruction outside the three annotation names has only plain qubit
    targets and at most one argument (otherwise `int(token)` raises). -/
theorem dress_isSome_iff (s : Settings) (c : List Instr) :
    (dress s c).isSome = true ↔ ∀ i ∈ c, i.parseable = true := by
  unfold dress
  split
  · rename_i h; simpa using h
  · rename_i h; simpa using h

/-! ### strip -/

/-- remove noise and measurement arguments, after un-fusing. -/
def clean (l : List Instr) : List Instr := strip (flatten l)

theorem clean_append (a b : List Instr) : clean (a ++ b) = clean a ++ clean b := by
  simp [clean, flatten, strip]

theorem clean_flatMap {α} (L : List α) (g : α → List Instr) : clean (L.flatMap g) = L.flatMap (fun x => clean (g x)) := by
  induction L with
  | nil => rfl
  | cons x xs ih => simp [List.flatMap_cons, clean_append, ih]

theorem clean_noise (s : Settings) (d : Int) (ts : List Nat) : clean (ts.map (noiseInstr s d)) = [] := by
  induction ts with
  | nil => rfl
  | cons q ts ih =>
    rw [List.map_cons, ← List.singleton_append, clean_append, ih]
    have a1 : arity "PAULI_CHANNEL_1" = 1 := by decide
    have a2 : isNoise "PAULI_CHANNEL_1" = true := by decide
    simp [clean, flatten, strip, splitTargets, noiseInstr, a1, stripInstr, a2]

theorem clean_idleDress (s : Settings) (m : List Instr) : clean (idleDress s m) = clean m := by
  unfold idleDress
  rw [clean_flatMap]
  have : ∀ b, clean (wrapBlock (noiseInstr s (blockDuration s b)) (allTargets m) b) = clean b := by
    intro b
    rw [wrapBlock_eq, clean_append, clean_append, clean_noise, clean_noise]
    simp
  simp only [this]
  conv_rhs => rw [← splitBlocks_flatten m]
  rw [List.flatten_eq_flatMap, clean_flatMap]
  rfl

theorem clean_measDressInstr (s : Settings) (i : Instr) (hp : i.parseable = true) :
    clean (measDressInstr s i) = clean [i] := by
  unfold measDressInstr
  split
  · rename_i hm
    obtain ⟨name, ts, as⟩ := i
    have hn : name = "M" := by simpa [isMeasure] using hm
    subst hn
    have a1 : arity "M" = 1 := by decide
    have a2 : isNoise "M" = false := by decide
    have a3 : isMeasure "M" = true := by decide
    have a4 : isAnnotation "M" = false := by decide
    have hq : ts.all Target.isQ = true := by
      simp only [Instr.parseable, a4, Bool.false_or, Bool.and_eq_true] at hp
      exact hp.1
    simp only [clean, flatten, strip, Instr.qubits, a4, Bool.false_eq_true, ↓reduceIte, List.flatMap_cons,
      List.flatMap_nil, List.append_nil, splitTargets, a1]
    clear hp hm
    induction ts with
    | nil => rfl
    | cons t ts ih =>
      simp only [List.all_cons, Bool.and_eq_true] at hq
      cases t with
      | q n =>
        simp only [List.filterMap_cons, Target.q?, List.map_cons, List.flatMap_cons]
        rw [List.filterMap_append, ih hq.2]
        simp [measInstr, splitTargets, a1, stripInstr, a2, a3]
      | mrec k => simp [Target.isQ] at hq
      | other k => simp [Target.isQ] at hq
  · rfl

theorem clean_measDress (s : Settings) (c : List Instr) (hp : ∀ i ∈ c, i.parseable = true) :
    clean (measDress s c) = clean c := by
  induction c with
  | nil => rfl
  | cons i rest ih =>
    have : measDress s (i :: rest) = measDressInstr s i ++ measDress s rest := by simp [measDress]
    rw [this, clean_append, clean_measDressInstr s i (hp i (by simp)), ih (fun j hj => hp j (by simp [hj])),
      ← clean_append]
    rfl

/-- **strip_dress.** For EVERY instruction list and EVERY settings on which the code answers: removing the noise
    instructions and the measurement arguments from the dressed circuit gives back the (un-fused) flattened
    input, itself cleaned the same way … -/
theorem strip_dress (s : Settings) (c out : List Instr) (h : dress s c = some out) :
    strip (flatten out) = strip (flatten c) := by
  have hp : ∀ i ∈ c, i.parseable = true := (dress_isSome_iff s c).1 (by rw [h]; rfl)
  unfold dress at h
  split at h
  · injection h with h
    rw [← h]
    exact (clean_idleDress s _).trans (clean_measDress s c hp)
  · exact absurd h (by simp)

/-- a circuit the exporter produces: no noise channel, no measurement argument. -/
def Noiseless (c : List Instr) : Prop := ∀ i ∈ c, isNoise i.name = false ∧ (isMeasure i.name = true → i.args = [])

theorem strip_noiseless (c : List Instr) (h : Noiseless c) : strip c = c := by
  induction c with
  | nil => rfl
  | cons i rest ih =>
    obtain ⟨h1, h2⟩ := h i (by simp)
    have hr : Noiseless rest := fun j hj => h j (by simp [hj])
    simp only [strip, List.filterMap_cons, stripInstr, h1, Bool.false_eq_true, ↓reduceIte]
    by_cases hm : isMeasure i.name = true
    · have : ({ i with args := [] } : Instr) = i := by
        obtain ⟨n, t, a⟩ := i; simp at h2 ⊢; exact h2 hm
      simp only [hm, ↓reduceIte, this]; congr 1; exact ih hr
    · simp only [hm, Bool.false_eq_true, ↓reduceIte]; congr 1; exact ih hr

theorem flatten_noiseless (c : List Instr) (h : Noiseless c) : Noiseless (flatten c) := by
  intro j hj
  obtain ⟨i, hi, hji⟩ := List.mem_flatMap.1 hj
  have hn : j.name = i.name ∧ j.args = i.args := by
    unfold splitTargets at hji
    split at hji
    · simp at hji; subst hji; exact ⟨rfl, rfl⟩
    · obtain ⟨t, -, e⟩ := List.mem_map.1 hji; subst e; exact ⟨rfl, rfl⟩
    · obtain ⟨t, -, e⟩ := List.mem_map.1 hji; subst e; exact ⟨rfl, rfl⟩
  rw [hn.1, hn.2]; exact h i hi

/-- … which for an exporter-produced (noiseless) input is exactly the split-target flattened input. -/
theorem strip_dress_noiseless (s : Settings) (c out : List Instr) (h : dress s c = some out) (hc : Noiseless c) :
    strip (flatten out) = flatten c := by
  rw [strip_dress s c out h, strip_noiseless _ (flatten_noiseless c hc)]

example : ∃ (s : Settings) (c out : List Instr), dress s c = some out ∧ Noiseless c ∧ c ≠ [] ∧ out ≠ c :=
  ⟨{ default := ⟨⟨1, 1⟩, ⟨2, 1⟩, ⟨1, 100⟩⟩, durations := ⟨400, 60, 20, 20⟩ },
   [⟨"H", [.q 0], []⟩, ⟨"TICK", [], []⟩, ⟨"M", [.q 0, .q 1], []⟩], _, rfl, by
     intro i hi; simp at hi; rcases hi with rfl | rfl | rfl <;> decide, by decide, by decide⟩

/-! ### measurement arguments -/

theorem mem_measDress (s : Settings) (c : List Instr) (j : Instr) (hj : j ∈ measDress s c) :
    (∃ q, j = measInstr s q) ∨ (j ∈ c ∧ isMeasure j.name = false) := by
  obtain ⟨i, hi, hji⟩ := List.mem_flatMap.1 hj
  unfold measDressInstr at hji
  split at hji
  · obtain ⟨q, -, e⟩ := List.mem_map.1 hji
    exact Or.inl ⟨q, e.symm⟩
  · rename_i hm
    simp at hji; subst hji
    exact Or.inr ⟨hi, by simpa using hm⟩

theorem mem_dress (s : Settings) (c out : List Instr) (h : dress s c = some out) (j : Instr) (hj : j ∈ out) :
    j ∈ measDress s c ∨ ∃ b ∈ splitBlocks (measDress s c), ∃ q ∈ allTargets (measDress s c),
      j = noiseInstr s (blockDuration s b) q := by
  rw [idle_structure s c out h] at hj
  obtain ⟨b, hb, hjb⟩ := List.mem_flatMap.1 hj
  simp only [List.mem_append, List.mem_map, List.mem_reverse] at hjb
  rcases hjb with (⟨q, hq, e⟩ | hjb) | ⟨q, hq, e⟩
  · exact Or.inr ⟨b, hb, q, hq, e.symm⟩
  · left
    rw [← splitBlocks_flatten (measDress s c)]
    exact List.mem_flatten.2 ⟨b, hb, hjb⟩
  · exact Or.inr ⟨b, hb, q, hq, e.symm⟩

/-- **measurement_arg.** Every measurement of the dressed circuit is a single-target `M` carrying the assignment
    error configured for ITS qubit (per-qubit override else default: `noiseOf_mapped`, `noiseOf_default`). -/
theorem measurement_arg (s : Settings) (c out : List Instr) (h : dress s c = some out) (j : Instr) (hj : j ∈ out)
    (hm : j.name = "M") : ∃ q, j.targets = [.q q] ∧ j.args = [.assign (s.noiseOf q).assign] := by
  rcases mem_dress s c out h j hj with hj | ⟨b, -, q, -, e⟩
  · rcases mem_measDress s c j hj with ⟨q, e⟩ | ⟨-, hn⟩
    · exact ⟨q, by rw [e]; rfl, by rw [e]; rfl⟩
    · rw [hm] at hn; exact absurd hn (by decide)
  · rw [e] at hm; exact absurd hm (by simp [noiseInstr])

/-- and none is lost: the measurements of the dressed circuit are, in order, the measurement targets of the input. -/
theorem measurements_kept (s : Settings) (c out : List Instr) (h : dress s c = some out) :
    ((flatten out).filter (fun i => isMeasure i.name)).map (·.targets) =
    ((flatten c).filter (fun i => isMeasure i.name)).map (·.targets) := by
  have key : ∀ l : List Instr, ((strip l).filter (fun i => isMeasure i.name)).map (·.targets) =
      (l.filter (fun i => isMeasure i.name)).map (·.targets) := by
    intro l
    induction l with
    | nil => rfl
    | cons i rest ih =>
      simp only [strip, List.filterMap_cons, stripInstr]
      by_cases hn : isNoise i.name = true
      · have : isMeasure i.name = false := by
          unfold isNoise at hn; unfold isMeasure
          rcases i with ⟨n, t, a⟩
          simp only [List.mem_cons, List.not_mem_nil, or_false, decide_eq_true_eq] at hn
          rcases hn with h | h | h | h | h | h | h | h | h | h | h | h <;> subst h <;> simp
        simp only [hn, ↓reduceIte, List.filter_cons, this, Bool.false_eq_true]
        exact ih
      · by_cases hm : isMeasure i.name = true
        · simp only [hn, Bool.false_eq_true, ↓reduceIte, hm, List.filter_cons, List.map_cons]
          congr 1
        · simp only [hn, Bool.false_eq_true, ↓reduceIte, hm, List.filter_cons]
          exact ih
  rw [← key (flatten out), ← key (flatten c), strip_dress s c out h]

/-! ## probabilities (over the reals) -/

noncomputable def Q.toReal (v : Q) : ℝ := (v.num : ℝ) / (v.den : ℝ)

noncomputable def component : Axis → ℝ × ℝ × ℝ → ℝ
  | .x, p => p.1
  | .y, p => p.2.1
  | .z, p => p.2.2

/-- the number an argument stands for: the idle channel is `get_pauli_error(t = d/2, T1, T2)`. -/
noncomputable def Arg.eval : Arg → ℝ
  | .lit v => Q.toReal v
  | .assign v => Q.toReal v
  | .pauli a d t1 t2 => component a (pauliError ((d : ℝ) / 2) (Q.toReal t1) (Q.toReal t2))

/-- **probabilities.** The three arguments of every inserted idle-noise instruction are the X, Y, Z components of
    the T1/T2 formula for half the block duration; each lies in [0, 1] and X + Y + Z ≤ 1. Guard: `T1 ≠ 0`,
    `T2 ≠ 0` — where the code divides (it raises `ZeroDivisionError` otherwise; Lean's `x/0 = 0` would make the
    statement hold there for the wrong reason). No relation between `T1` and `T2` is needed: for `T2 > 2·T1` the
    raw Z value is negative for short times (`pzRaw_neg_witness`) and the code's clamping returns 0. -/
theorem noise_probabilities (s : Settings) (d : Int) (q : Nat)
    (_h1 : Q.toReal (s.noiseOf q).t1 ≠ 0) (_h2 : Q.toReal (s.noiseOf q).t2 ≠ 0) :
    ∃ px py pz, (noiseInstr s d q).args.map Arg.eval = [px, py, pz] ∧
      (px, py, pz) = pauliError ((d : ℝ) / 2) (Q.toReal (s.noiseOf q).t1) (Q.toReal (s.noiseOf q).t2) ∧
      0 ≤ px ∧ px ≤ 1 ∧ 0 ≤ py ∧ py ≤ 1 ∧ 0 ≤ pz ∧ pz ≤ 1 ∧ px + py + pz ≤ 1 := by
  have hb := pauliError_bounds ((d : ℝ) / 2) (Q.toReal (s.noiseOf q).t1) (Q.toReal (s.noiseOf q).t2)
  have hs := pauliError_sum_le_one ((d : ℝ) / 2) (Q.toReal (s.noiseOf q).t1) (Q.toReal (s.noiseOf q).t2)
  refine ⟨_, _, _, rfl, rfl, hb.1.1, hb.1.2, hb.2.1.1, hb.2.1.2, hb.2.2.1, hb.2.2.2, hs⟩

example : ∃ s : Settings, Q.toReal (s.noiseOf 0).t1 ≠ 0 ∧ Q.toReal (s.noiseOf 0).t2 ≠ 0 :=
  ⟨{ default := ⟨⟨10000, 1⟩, ⟨20000, 1⟩, ⟨1, 100⟩⟩, durations := ⟨400, 60, 20, 20⟩ }, by
    simp [Settings.noiseOf, Q.toReal, List.lookup]⟩

/-- a block of duration 0 (empty trailing block, or only unconfigured gates) gets the zero channel. -/
theorem noise_zero_duration (s : Settings) (q : Nat) :
    (noiseInstr s 0 q).args.map Arg.eval = [0, 0, 0] := by
  simp [noiseInstr, Arg.eval, component, pauliError]

/-- in the physical regime (`d ≥ 0`, `T1, T2 > 0`) the total error stays below 3/4, and for `T2 ≤ 2·T1` the Z
    component is the unclamped formula. -/
theorem noise_physical (s : Settings) (d : Int) (q : Nat) (hd : 0 ≤ d)
    (h1 : 0 < Q.toReal (s.noiseOf q).t1) (h2 : 0 < Q.toReal (s.noiseOf q).t2) :
    ((noiseInstr s d q).args.map Arg.eval).sum ≤ 3 / 4 ∧
    (Q.toReal (s.noiseOf q).t2 ≤ 2 * Q.toReal (s.noiseOf q).t1 →
      0 ≤ pzRaw ((d : ℝ) / 2) (Q.toReal (s.noiseOf q).t1) (Q.toReal (s.noiseOf q).t2)) := by
  have hd' : (0 : ℝ) ≤ (d : ℝ) / 2 := by
    have : (0 : ℝ) ≤ (d : ℝ) := by exact_mod_cast hd
    linarith
  constructor
  · have := pauliError_sum_le_physical ((d : ℝ) / 2) (Q.toReal (s.noiseOf q).t1) (Q.toReal (s.noiseOf q).t2) hd' h1
    simp only [noiseInstr, List.map_cons, List.map_nil, Arg.eval, component, List.sum_cons, List.sum_nil, add_zero]
    linarith
  · intro h; exact pzRaw_nonneg_of_T2_le _ _ _ hd' h1 h2 h

/-- the clamp is really needed: `T1 = 1, T2 = 4, t = 1` has a negative raw Z value; the code returns 0. -/
theorem pz_clamp_witness : pzRaw 1 1 4 < 0 ∧ (pauliError 1 1 4).2.2 = 0 := pzRaw_neg_witness

/-- assignment errors are passed through unchanged (Stim itself rejects values outside [0, 1]). -/
theorem measurement_arg_eval (s : Settings) (q : Nat) :
    (measInstr s q).args.map Arg.eval = [Q.toReal (s.noiseOf q).assign] := rfl

end Qco.C14
