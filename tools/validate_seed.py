#!/usr/bin/env python3
"""Confirms a candidate seeded change in a scratch worktree of /repo and files it under /verif/seeded/<name>/.

usage: tools/validate_seed.py <candidate dir with patch.diff demo.py meta.json> <name>

Steps (all in a fresh detached worktree under /tmp, removed afterwards):
  1. demo on the unchanged tree  -> must exit 0
  2. git apply patch.diff        -> must apply
  3. full existing test suite    -> must be 61 passed, 0 failed
  4. demo on the changed tree    -> must exit non-zero
Only then the candidate is copied to seeded/<name>/ with meta.json extended by what was run here."""
import json
import re
import shutil
import subprocess
import sys
import tempfile
from pathlib import Path

VERIF = Path(__file__).resolve().parent.parent


def sh(cmd, cwd=None, env=None, timeout=1800):
    return subprocess.run(cmd, cwd=cwd, env=env, capture_output=True, text=True, timeout=timeout)


def main():
    cand = Path(sys.argv[1])
    name = sys.argv[2]
    wt = Path(tempfile.mkdtemp(prefix='seedval_', dir='/tmp')) / 'wt'
    r = sh(['git', '-C', '/repo', 'worktree', 'add', '--detach', str(wt), 'HEAD', '-q'])
    if r.returncode:
        print('worktree failed', r.stderr)
        return 2
    import os
    env = dict(os.environ, PYTHONPATH=str(wt / 'src'), MPLBACKEND='Agg', TQDM_DISABLE='1')
    env.pop('QCO_REPO', None)
    ok = False
    rec = {}
    try:
        d0 = sh(['/venv/bin/python', str(cand / 'demo.py')], cwd=str(wt), env=env)
        rec['demo_unchanged_exit'] = d0.returncode
        ap = sh(['git', '-C', str(wt), 'apply', '--whitespace=nowarn', str(cand / 'patch.diff')])
        rec['patch_applies'] = ap.returncode == 0
        if ap.returncode:
            print('patch does not apply', ap.stderr)
            return 1
        t = sh(['/venv/bin/python', '-m', 'pytest', '-q', '-p', 'no:cacheprovider', '--timeout=900'], cwd=str(wt), env=env)
        tail = t.stdout.strip().splitlines()[-1] if t.stdout.strip() else ''
        rec['suite_with_change'] = tail
        m = re.search(r'(\d+) passed', tail)
        suite_ok = t.returncode == 0 and m and int(m.group(1)) == 61 and 'failed' not in tail
        d1 = sh(['/venv/bin/python', str(cand / 'demo.py')], cwd=str(wt), env=env)
        rec['demo_changed_exit'] = d1.returncode
        rec['demo_changed_tail'] = (d1.stdout + d1.stderr)[-600:]
        rec['files_changed'] = sh(['git', '-C', str(wt), 'diff', '--stat']).stdout.strip().splitlines()
        ok = d0.returncode == 0 and suite_ok and d1.returncode != 0
        print(json.dumps({k: v for k, v in rec.items() if k != 'demo_changed_tail'}))
    finally:
        sh(['git', '-C', '/repo', 'worktree', 'remove', '--force', str(wt)])
        shutil.rmtree(wt.parent, ignore_errors=True)
    if not ok:
        print(f'REJECTED {name}')
        return 1
    dst = VERIF / 'seeded' / name
    dst.mkdir(parents=True, exist_ok=True)
    shutil.copy(cand / 'patch.diff', dst / 'patch.diff')
    shutil.copy(cand / 'demo.py', dst / 'demo.py')
    meta = json.loads((cand / 'meta.json').read_text())
    meta['confirmed_here'] = {
        'how': 'fresh detached worktree of /repo HEAD under /tmp; PYTHONPATH=<worktree>/src; '
               'demo.py (unchanged) -> git apply patch.diff -> pytest -q -p no:cacheprovider --timeout=900 -> demo.py (changed); worktree removed',
        **rec}
    (dst / 'meta.json').write_text(json.dumps(meta, indent=1) + '\n')
    print(f'ACCEPTED {name}')
    return 0


if __name__ == '__main__':
    sys.exit(main())
