import QcoVerif.Lemmas.RepChainBlocks
/-
  C09, all chain lengths: final data measurement, final detectors, logical observable.
-/
namespace Qco.RepChain
open Qco.StimSem Qco.RepCode

section
variable (m : Nat) (r : Bool) (nD nA : Nat)

local notation "d" => chainDesc (m + 1) r

/-- look-up of data qubit `2i` in the final measurement -/
theorem lookback_fin (b : Bool) (R : List Nat) (i : Nat) (hi : i < m + 1) :
    lookback (finB d nD b ++ R) ((i : Int) - (m + 1 : Nat)) = some (finalFormB d nD b (2 * i)) := by
  rw [finB_chain, data_chunk]
  exact lookback_hit (m + 1) _ R i hi _ rfl

theorem run_fin_M (b ba : Bool) (R D : List Nat) (o : Nat) :
    run ((dataL m).map .M) ⟨mk (2 * m + 1) (SB d nD nA b ba), R, D, o⟩ =
      some ⟨mk (2 * m + 1) (SB d nD nA b ba), finB d nD b ++ R, D, o⟩ := by
  rw [run_M_layer _ _ _ (fun q hq => ⟨data_lt hq, SB_Z _ _ _ _ _ q⟩), finB_chain]
  have : (dataL m).map (fun q => (SB d nD nA b ba q).f) = (dataL m).map (finalFormB d nD b) :=
    List.map_congr_left (fun q hq => by rw [SB_data m r nD nA b ba hq])
  rw [this]

/-- the final part, given the value of each final detector -/
theorem run_finalPart_core (pos more : Bool) (L Q : List Ins) (ts : Nat → List Int) (v : Nat → Nat)
    (b ba : Bool) (R D : List Nat)
    (hts : ∀ j, j < m →
      detTargets (lastAcq (L ++ (dataL m).map .M)) (some (lastAcqOf (L ++ (dataL m).map .M) (2 * j)))
        (some (lastAcqOf (L ++ (dataL m).map .M) (2 * j + 2)))
        (if pos then some ((lastAcq Q + 1) - lastAcqOf Q (2 * j + 1) + ((m + 1 : Nat) : Int)) else none)
        (if more then some ((m : Nat) : Int) else none) = ts j)
    (hv : ∀ j, j < m → sumLookbacks (finB d nD b ++ R) (ts j) = some (v (2 * j + 1))) :
    run (finalPart d pos more L Q) ⟨mk (2 * m + 1) (SB d nD nA b ba), R, D, 0⟩ =
      some ⟨mk (2 * m + 1) (SB d nD nA b ba), finB d nD b ++ R, ((ancL m).map v).reverse ++ D,
            expectedObservableB d nD b⟩ := by
  unfold finalPart
  simp only [chain_measData, chain_dataIdx, chain_ancIdx, dataL_length, ancL_length]
  rw [List.append_assoc, run_append_some (run_fin_M m r nD nA b ba R D 0)]
  -- detectors
  have hz : (ancL m).zip (chainDesc (m + 1) r).nbr = (List.range m).map fun j => (2 * j + 1, (2 * j, 2 * j + 2)) := by
    rw [chain_nbr, ancL, List.zip_map']
  rw [hz, List.map_map]
  have hdet := run_DET_layer (List.range m) (fun j => ((2 * j + 1 : Nat) : Int)) (fun _ => 0)
    (fun j => detTargets (lastAcq (L ++ (dataL m).map .M)) (some (lastAcqOf (L ++ (dataL m).map .M) (2 * j)))
        (some (lastAcqOf (L ++ (dataL m).map .M) (2 * j + 2)))
        (if pos then some ((lastAcq Q + 1) - lastAcqOf Q (2 * j + 1) + ((m + 1 : Nat) : Int)) else none)
        (if more then some ((m : Nat) : Int) else none))
    (fun j => v (2 * j + 1)) (mk (2 * m + 1) (SB d nD nA b ba)) (finB d nD b ++ R) D 0
    (fun j hj => by rw [hts j (List.mem_range.mp hj)]; exact hv j (List.mem_range.mp hj))
  refine Eq.trans (run_append_some hdet) ?_
  -- observable
  have hobs := run_OBS_layer (dataL m)
    (fun q => detTargets (lastAcq (L ++ (dataL m).map .M)) (some (lastAcqOf (L ++ (dataL m).map .M) q)) none none none)
    (finalFormB d nD b) (mk (2 * m + 1) (SB d nD nA b ba)) (finB d nD b ++ R)
    (((List.range m).map fun j => v (2 * j + 1)).reverse ++ D) 0
    (fun q hq => by
      have h := mem_dataL.mp hq
      obtain ⟨i, rfl⟩ : ∃ i, q = 2 * i := ⟨q / 2, by omega⟩
      have hi : i < m + 1 := by omega
      rw [lastAcqOf_data m L i hi, lastAcq_data]
      simp only [detTargets]
      apply sl_one
      have := lookback_fin m r nD b R i hi
      rw [← this]; congr 1
      push_cast; omega)
  rw [hobs]
  simp only [expectedObservableB, chain_dataIdx, ancL, List.map_map, Function.comp_def]


/-! ### the algebra of the final detectors -/

theorem xor_bits3 (x1 x2 c : Nat) : (x1 ^^^ c) ^^^ (x2 ^^^ c) = x1 ^^^ x2 := by
  apply Nat.eq_of_testBit_eq
  intro i
  simp only [Nat.testBit_xor]
  cases x1.testBit i <;> cases x2.testBit i <;> cases c.testBit i <;> rfl

theorem final_pair (b : Bool) (j : Nat) (hj : j < m) :
    finalFormB d nD b (2 * j) ^^^ finalFormB d nD b (2 * j + 2) = parityForm d nD (2 * j + 1) := by
  have ht : 2 * j + 1 ∈ ancL m := mem_ancL.mpr ⟨by omega, by omega⟩
  simp only [finalFormB, parityForm, chain_nbrOf m r ht, Nat.add_sub_cancel]
  exact xor_bits3 _ _ _

theorem cycle_pair (x : Bool) (t : Nat) :
    cycleFormB d nD nA x t ^^^ cycleFormB d nD nA (!x) t = parityForm d nD t := by
  simp only [cycleFormB]
  generalize aVar d nD nA t = A
  generalize parityForm d nD t = P
  cases x
  · simp only [Bool.not_false, Bool.false_eq_true, if_false, if_true, Nat.xor_zero]
    rw [← Nat.xor_assoc, Nat.xor_self, Nat.zero_xor]
  · simp only [Bool.not_true, Bool.false_eq_true, if_false, if_true, Nat.xor_zero]
    rw [Nat.xor_comm, ← Nat.xor_assoc, Nat.xor_self, Nat.zero_xor]

theorem lookback_skip_fin (b : Bool) (R : List Nat) (t : Int) (ht : t + ((m + 1 : Nat) : Int) < 0) :
    lookback (finB d nD b ++ R) t = lookback R (t + ((m + 1 : Nat) : Int)) := by
  rw [finB_chain, data_chunk]
  exact lookback_skip_chunk _ _ _ _ ht

/-- look-up of ancilla `2j+1` one cycle earlier -/
theorem lookback_c1 (b0 b1 : Bool) (T : List Nat) (j : Nat) (hj : j < m) :
    lookback (cB d nD nA b0 ++ (cB d nD nA b1 ++ T)) ((j : Int) - m - m) =
      some (cycleFormB d nD nA b1 (2 * j + 1)) := by
  rw [cB_chain, cB_chain, anc_chunk, anc_chunk, lookback_skip_chunk _ _ _ _ (by omega)]
  exact lookback_hit m _ T j hj _ (by omega)

/-- the targets of the final detector of ancilla `2j+1` -/
theorem final_targets (pos more : Bool) (L Q : List Ins) (K : List Nat) (hQ : measured Q = K ++ ancL m)
    (j : Nat) (hj : j < m) :
    detTargets (lastAcq (L ++ (dataL m).map .M)) (some (lastAcqOf (L ++ (dataL m).map .M) (2 * j)))
        (some (lastAcqOf (L ++ (dataL m).map .M) (2 * j + 2)))
        (if pos then some ((lastAcq Q + 1) - lastAcqOf Q (2 * j + 1) + ((m + 1 : Nat) : Int)) else none)
        (if more then some ((m : Nat) : Int) else none) =
      [(j : Int) - ((m + 1 : Nat) : Int), ((j + 1 : Nat) : Int) - ((m + 1 : Nat) : Int)] ++
        (if pos then [(j : Int) - m - ((m + 1 : Nat) : Int)] ++
          (if more then [(j : Int) - m - ((m + 1 : Nat) : Int) - m] else []) else []) := by
  have e2 : 2 * j + 2 = 2 * (j + 1) := by omega
  rw [e2, lastAcqOf_data m L j (by omega), lastAcqOf_data m L (j + 1) (by omega), lastAcq_data,
    lastAcqOf_anc m Q K hQ j hj, lastAcq_anc m Q K hQ]
  cases pos <;> cases more <;> simp only [detTargets, if_true, if_false, Bool.false_eq_true,
    List.cons_append, List.nil_append, List.append_nil, List.cons.injEq, and_true] <;>
    (push_cast; omega)

/-- no QEC cycle: the final detectors are the parities -/
theorem run_finalPart_0 (L Q : List Ins) (K : List Nat) (hQ : measured Q = K ++ ancL m)
    (b ba : Bool) (R D : List Nat) :
    run (finalPart d false false L Q) ⟨mk (2 * m + 1) (SB d nD nA b ba), R, D, 0⟩ =
      some ⟨mk (2 * m + 1) (SB d nD nA b ba), finB d nD b ++ R,
            ((ancL m).map (parityForm d nD)).reverse ++ D, expectedObservableB d nD b⟩ := by
  apply run_finalPart_core m r nD nA false false L Q _ _ b ba R D
    (fun j hj => final_targets m false false L Q K hQ j hj)
  intro j hj
  simp only [Bool.false_eq_true, if_false, List.append_nil]
  rw [← final_pair m r nD b j hj]
  exact sl_two (lookback_fin m r nD b R j (by omega)) (lookback_fin m r nD b R (j + 1) (by omega))

/-- one QEC cycle: the final detectors compare the parity with the one cycle -/
theorem run_finalPart_1 (L Q : List Ins) (K : List Nat) (hQ : measured Q = K ++ ancL m)
    (b ba x : Bool) (T D : List Nat) :
    run (finalPart d true false L Q) ⟨mk (2 * m + 1) (SB d nD nA b ba), cB d nD nA x ++ T, D, 0⟩ =
      some ⟨mk (2 * m + 1) (SB d nD nA b ba), finB d nD b ++ (cB d nD nA x ++ T),
            ((ancL m).map fun t => parityForm d nD t ^^^ cycleFormB d nD nA x t).reverse ++ D,
            expectedObservableB d nD b⟩ := by
  apply run_finalPart_core m r nD nA true false L Q _ _ b ba _ D
    (fun j hj => final_targets m true false L Q K hQ j hj)
  intro j hj
  simp only [Bool.false_eq_true, if_false, if_true, List.append_nil, List.cons_append, List.nil_append]
  rw [← final_pair m r nD b j hj, Nat.xor_assoc]
  refine sl_three (lookback_fin m r nD b _ j (by omega)) (lookback_fin m r nD b _ (j + 1) (by omega)) ?_
  rw [lookback_skip_fin m r nD b _ _ (by omega), ← lookback_c0 m r nD nA x T j hj]
  congr 1; omega

/-- two or more QEC cycles: the final detectors compare the parity with the last two cycles: all 0 -/
theorem run_finalPart_2 (L Q : List Ins) (K : List Nat) (hQ : measured Q = K ++ ancL m)
    (b ba x : Bool) (T D : List Nat) :
    run (finalPart d true true L Q)
        ⟨mk (2 * m + 1) (SB d nD nA b ba), cB d nD nA x ++ (cB d nD nA (!x) ++ T), D, 0⟩ =
      some ⟨mk (2 * m + 1) (SB d nD nA b ba), finB d nD b ++ (cB d nD nA x ++ (cB d nD nA (!x) ++ T)),
            List.replicate m 0 ++ D, expectedObservableB d nD b⟩ := by
  have := run_finalPart_core m r nD nA true true L Q _ (fun _ => 0) b ba
    (cB d nD nA x ++ (cB d nD nA (!x) ++ T)) D
    (fun j hj => final_targets m true true L Q K hQ j hj) (fun j hj => by
      simp only [if_true, List.cons_append, List.nil_append]
      have h4 := sl_four (lookback_fin m r nD b (cB d nD nA x ++ (cB d nD nA (!x) ++ T)) j (by omega))
        (lookback_fin m r nD b (cB d nD nA x ++ (cB d nD nA (!x) ++ T)) (j + 1) (by omega))
        (t3 := (j : Int) - m - ((m + 1 : Nat) : Int)) (t4 := (j : Int) - m - ((m + 1 : Nat) : Int) - m)
        (c := cycleFormB d nD nA x (2 * j + 1)) (e := cycleFormB d nD nA (!x) (2 * j + 1))
        (by rw [lookback_skip_fin m r nD b _ _ (by omega),
              ← lookback_c0 m r nD nA x (cB d nD nA (!x) ++ T) j hj]; congr 1; omega)
        (by rw [lookback_skip_fin m r nD b _ _ (by omega), ← lookback_c1 m r nD nA x (!x) T j hj]; congr 1; omega)
      have e : 2 * (j + 1) = 2 * j + 2 := by omega
      rw [h4, e, ← Nat.xor_assoc, final_pair m r nD b j hj, cycle_pair m r nD nA x, Nat.xor_self])
  rw [map_zero_reverse, ancL_length] at this
  exact this

end

end Qco.RepChain
