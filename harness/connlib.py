"""Shared pieces of the connectivity checks C16 / C17: live tables of the implementation, token formats of the
`conn` driver module, the property predicates written independently in Python, implementation runners."""
from __future__ import annotations
import contextlib
import io
import multiprocessing as mp
import os
import warnings

os.environ.setdefault('TQDM_DISABLE', '1')

from . import common

RANK = {'LOW': 0, 'MID': 1, 'HIGH': 2}


class Live:
    """Tables read from the live implementation (lazily imported), and converters name <-> driver token."""

    def __init__(self):
        from qce_circuit.connectivity.connectivity_surface_code import Surface17Layer
        from qce_circuit.connectivity.intrf_channel_identifier import QubitIDObj, EdgeIDObj
        self.QubitIDObj, self.EdgeIDObj = QubitIDObj, EdgeIDObj
        self.layer = Surface17Layer()
        self.qubits = [q.id for q in self.layer.qubit_ids]
        self.qidx = {n: i for i, n in enumerate(self.qubits)}
        self.edges = [(e.qubit_ids[0].id, e.qubit_ids[1].id) for e in self.layer.edge_ids]
        self.freq = {q.id: RANK[self.layer.get_frequency_group_identifier(q).id.name] for q in self.layer.qubit_ids}
        self.adj = {frozenset(e) for e in self.edges}

    # --- identifiers
    def q(self, name):
        return self.QubitIDObj(name)

    def e(self, pair):
        return self.EdgeIDObj(self.QubitIDObj(pair[0]), self.QubitIDObj(pair[1]))

    def qtok(self, name) -> str:
        return str(self.qidx[name])

    def etok(self, pair) -> str:
        return f'{self.qidx[pair[0]]}-{self.qidx[pair[1]]}'

    def etoks(self, pairs) -> str:
        return ' '.join(self.etok(p) for p in pairs)

    def qcsv(self, names) -> str:
        return ','.join(self.qtok(n) for n in names) or '-'

    def ecsv(self, pairs) -> str:
        return ','.join(self.etok(p) for p in pairs) or '-'

    def pair_of(self, edge_id):
        return (edge_id.qubit_ids[0].id, edge_id.qubit_ids[1].id)

    # --- the property predicates, written independently of the Lean model, over the live tables
    def level(self, e) -> int:
        return min(self.freq[e[0]], self.freq[e[1]])

    def pair_ok(self, e, f) -> bool:
        if set(e) & set(f):
            return False
        touching = any(frozenset((a, b)) in self.adj for a in e for b in f)
        return not (touching and self.level(e) == self.level(f))

    def accepted(self, es) -> bool:
        return all(frozenset(e) == frozenset(f) or self.pair_ok(e, f) for e in es for f in es)

    def moving_members(self, e):
        a, b = e
        out = []
        if self.freq[a] > self.freq[b]:
            out.append(a)
        if self.freq[b] > self.freq[a]:
            out.append(b)
        return out

    def needs_parking(self, q, es) -> bool:
        if any(q in e for e in es):
            return False
        for e in es:
            for m in self.moving_members(e):
                if frozenset((q, m)) in self.adj and self.freq[q] == self.level(e):
                    return True
        return False

    def park_set(self, es):
        return [q for q in self.qubits if self.needs_parking(q, es)]

    def is_device_edge(self, e) -> bool:
        return frozenset(e) in self.adj and e[0] != e[1]

    # --- the implementation's answers
    def impl_allowed(self, es) -> bool:
        from qce_circuit.connectivity.mapping.gate_sequence_generator import GateSequenceGenerator
        from qce_circuit.connectivity.intrf_connectivity_gate_sequence import Operation
        return bool(GateSequenceGenerator.get_mutually_allowed([Operation.type_gate(self.e(p)) for p in es], self.layer))

    def impl_parkset(self, es):
        from qce_circuit.connectivity.connectivity_surface_code import get_requires_parking
        edge_ids = [self.e(p) for p in es]
        return [q.id for q in self.layer.qubit_ids if bool(get_requires_parking(q, edge_ids, self.layer))]


_LIVE = None


def live() -> Live:
    global _LIVE
    if _LIVE is None:
        _LIVE = Live()
    return _LIVE


@contextlib.contextmanager
def quiet():
    with contextlib.redirect_stderr(io.StringIO()), warnings.catch_warnings():
        warnings.simplefilter('ignore')
        yield


def pmap(fn, args, jobs=None, min_parallel=24):
    """Ordered parallel map over the implementation (fork; the live tables are imported before forking)."""
    jobs = jobs or min(16, os.cpu_count() or 1)
    args = list(args)
    live()
    if jobs <= 1 or len(args) < min_parallel:
        return [fn(a) for a in args]
    with mp.get_context('fork').Pool(jobs) as pool:
        return pool.map(fn, args, chunksize=max(1, len(args) // (jobs * 16)))


def b(x) -> str:
    return '1' if x else '0'


def ensure_driver(lean_info) -> bool:
    """When the property's closure failed to build, the driver (which does not depend on the theorems) is built
    on its own so that the search for a failing input can still run the model."""
    if lean_info.get('build_ok') and common.driver_available():
        return True
    ok, out, _ = common.lake_build(['qcodriver'])
    if not ok:
        lean_info['driver_build_output'] = out[-3000:]
    return ok and common.driver_available()


def load_corpus(prop):
    import json
    d = common.CORPUS / prop
    out = []
    if d.exists():
        for f in sorted(d.glob('*.json')):
            try:
                out.append(json.loads(f.read_text()))
            except Exception:
                common.log(f'corpus file unreadable: {f}')
    return out


def attribute(prop, matchers, payload):
    """KNOWN-FINDING text if an open finding of known_findings.json names a matcher of this check that accepts the
    violation payload (input class AND failure signature are evaluated by the matcher); else None."""
    from . import findings
    for f in findings.open_findings(prop):
        m = matchers.get(f.get('matcher'))
        if m is not None and m(payload, f):
            return f"{f['id']}: {f['what_fails']}"
    return None
