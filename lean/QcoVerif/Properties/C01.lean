import QcoVerif.Model.Builder
namespace Qco.C01
end Qco.C01
