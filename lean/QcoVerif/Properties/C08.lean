import QcoVerif.Lemmas.Export
import QcoVerif.Lemmas.ExportUnroll
import QcoVerif.Generated.GateTables
/-
  C08 — Stim export is the in-order image of the circuit.

  Objects: `translate`, `World.stimBody/stimExport` (Model/StimExport.lean) — the definitions the driver executes
  for `heap stim`, tied to `to_stim` by harness/c08.py.

  Statement (properties.jsonl): the exported circuit is the operation listing translated instruction by
  instruction; each supported operation becomes the documented gate on exactly its qubits; sub-circuits are
  expanded in place and repeated their count; unsupported operations are omitted, nothing else is added; exporting
  before or after unrolling gives the same multiset of instructions and the same number of measurements; for
  library circuits the identical program.

  Proved here, for all worlds (no reachability hypothesis is needed — the walk is a function of the tree):
    translate_table, translate_unsupported, table_has_15_entries     the 15-entry table, qubits in order
    detector_targets, observable_targets, shift_args                 record lookbacks, arbitrary Int fields
    export_repeat                                                    composite = concatenation over its listing,
                                                                     sub-export × count in place
    export_is_image                                                  export = filterMap translate over the
                                                                     count-expanded listing (any counts)
    export_refines_listing                                           counts 1 ⇒ export = filterMap translate over
                                                                     `operations` (the mutating listing), any nesting
    nothing_else_emitted                                             every instruction is the image of a leaf
    export_multiset_unroll_partial                                   multiset clause, relative to C06's
                                                                     `unroll_counts`/`unroll_resets` (hypotheses)
  Not proved: that `applyModifiers` satisfies the two hypotheses of `export_multiset_unroll_partial` (that is C06's
  theorem about copy/extend; the harness evaluates the multiset clause on the implementation for every program),
  and the library "identical program" clause, which is false of the code for ≥ 2 detector ancillas with a repeated
  block (finding R5; `C08_witness_shift_displaced` shows the shape on the model's listing order).
-/
namespace Qco.C08

open Qco

/-! ### the translation table -/

/-- single-qubit gate classes of the table with their documented names. -/
def singleQubitGates : List (Cls × String) :=
  [(.reset, "R"), (.hadamard, "H"), (.identity, "I"), (.measure, "M"), (.rx180, "X"), (.rx90, "SQRT_X"),
   (.rxm90, "SQRT_X_DAG"), (.ry180, "Y"), (.ry90, "SQRT_Y"), (.rym90, "SQRT_Y_DAG")]

/-- classes the exporter skips. -/
def unsupported : List Cls :=
  [.single, .wait, .rx180ef, .vphase, .vpark, .rphi90, .two, .twovphase, .vacant, .twovacant, .empty, .comp]

/-- Each of the 15 supported classes becomes the documented gate on exactly its qubits, in order:
    ten single-qubit gates on `[q]`; `CZ` on `[a, b]` (distinct qubits); `TICK`, `SHIFT_COORDS(space, time)`
    without targets; `DETECTOR(q, 0)` and `OBSERVABLE_INCLUDE(0)` on their record lookbacks. -/
theorem translate_table (o : Op) :
    (∀ p ∈ singleQubitGates, ∀ q, o.cls = p.1 → o.qs = [q] →
        translate o = some { name := p.2, targets := [.q q], args := [] }) ∧
    (∀ a b, o.cls = .cphase → o.qs = [a, b] → a ≠ b →
        translate o = some { name := "CZ", targets := [.q a, .q b], args := [] }) ∧
    (o.cls = .barrier → translate o = some { name := "TICK", targets := [], args := [] }) ∧
    (∀ t s, o.cls = .cshift → o.ints = [some t, some s] →
        translate o = some { name := "SHIFT_COORDS", targets := [], args := [s, t] }) ∧
    (∀ q rs, o.cls = .detector → o.qs = [q] → (o.fld 1).isSome → o.detRecs = some rs →
        translate o = some { name := "DETECTOR", targets := rs.map .mrec, args := [q, 0] }) ∧
    (∀ rs, o.cls = .observable → o.obsRecs = some rs →
        translate o = some { name := "OBSERVABLE_INCLUDE", targets := rs.map .mrec, args := [0] }) := by
  refine ⟨?_, ?_, ?_, ?_, ?_, ?_⟩
  · intro p hp q hc hq
    simp only [singleQubitGates, List.mem_cons, List.mem_nil_iff, or_false] at hp
    rcases hp with rfl | rfl | rfl | rfl | rfl | rfl | rfl | rfl | rfl | rfl <;>
      simp [translate, Cls.stimName, Op.stimTargets, Op.stimArgs, Op.exportQubits, Op.leafChans, uniqueInOrder,
        hc, hq]
  · intro a b hc hq hab
    have hba : (b == a) = false := by simpa using fun h : b = a => hab h.symm
    simp [translate, Cls.stimName, Op.stimTargets, Op.stimArgs, Op.exportQubits, Op.leafChans, uniqueInOrder,
      hc, hq, hba]
  · intro hc
    simp [translate, Cls.stimName, Op.stimTargets, Op.stimArgs, hc]
  · intro t s hc hi
    simp [translate, Cls.stimName, Op.stimTargets, Op.stimArgs, Op.fld, hc, hi]
  · intro q rs hc hq hm hr
    simp [translate, Cls.stimName, Op.stimTargets, Op.stimArgs, hc, hq, hm, hr]
  · intro rs hc hr
    simp [translate, Cls.stimName, Op.stimTargets, Op.stimArgs, hc, hr]

example : (∀ p ∈ singleQubitGates, p.1.stimName = some p.2) := by decide

/-- unsupported classes are omitted — and these twelve are exactly the classes outside the table. -/
theorem translate_unsupported (o : Op) :
    (o.cls ∈ unsupported → translate o = none) ∧
    (∀ c : Cls, c.stimName = none ↔ c ∈ unsupported) := by
  constructor
  · intro h
    have : o.cls.stimName = none := by
      revert h; generalize o.cls = c; revert c; decide
    simp [translate, this]
  · intro c; cases c <;> decide

/-- the name of an emitted instruction is the table entry of the operation's class. -/
theorem translate_name (o : Op) (i : Instr) (h : translate o = some i) : o.cls.stimName = some i.name := by
  unfold translate at h
  cases hn : o.cls.stimName with
  | none => simp [hn] at h
  | some nm => simp [hn] at h; rw [← h]

example : translate { cls := .rx90, qs := [3] } = some { name := "SQRT_X", targets := [.q 3], args := [] } := by
  decide

theorem table_has_15_entries : (Cls.all.filter (fun c => c.stimName.isSome)).length = 15 := by decide

/-- the entry of a class in the model's factory table, in the vocabulary of the generated table: the gate name of a
    name-based factory, `*<factory class>` for the four annotation/tick factories, `""` for an unsupported class. -/
def stimEntry (c : Cls) : String :=
  match c with
  | .barrier => "*TickOperationsFactory"
  | .cshift => "*CoordinateShiftOperationsFactory"
  | .detector => "*DetectorOperationsFactory"
  | .observable => "*LogicalObservableOperationsFactory"
  | c => c.stimName.getD ""

/-- **the model's gate table is the live `StimFactoryManager` table** (`Gen.stimTable` is regenerated from the code on
    every run; re-checked by `lake build`): same supported classes, same gate names, nothing else. -/
theorem stim_table_matches_source :
    Gen.stimTable = Cls.all.map (fun c => (c.name, stimEntry c)) ∧ Gen.unknownExportClasses = [] := by
  constructor <;> decide +kernel

/-! ### detector / observable / coordinate shift -/

/-- The five target shapes of a detector (`b = last_acquisition_index + 1`), for arbitrary integer fields:
    main; main and main − reference offset; main and secondary; main, secondary and −reference offset;
    the same plus −reference offset − secondary offset.  Without a main target: no targets. -/
theorem detector_targets (l m s r o : Int) (so : Option Int) (x y z : Option Int) :
    detectorRecs (some l) (some m) none none so = some [m - (l + 1)] ∧
    detectorRecs (some l) (some m) none (some r) so = some [m - (l + 1), m - (l + 1) - r] ∧
    detectorRecs (some l) (some m) (some s) none so = some [m - (l + 1), s - (l + 1)] ∧
    detectorRecs (some l) (some m) (some s) (some r) none = some [m - (l + 1), s - (l + 1), -r] ∧
    detectorRecs (some l) (some m) (some s) (some r) (some o) = some [m - (l + 1), s - (l + 1), -r, -r - o] ∧
    detectorRecs x none y z so = some [] ∧
    detectorRecs none (some m) y z so = none := by
  refine ⟨rfl, rfl, rfl, rfl, rfl, rfl, rfl⟩

/-- the detector instruction of an operation with all five fields present. -/
example : translate { cls := .detector, qs := [4], ints := [some 9, some 7, some 8, some 3, some 2] } =
    some { name := "DETECTOR", targets := [.mrec (-3), .mrec (-2), .mrec (-3), .mrec (-5)], args := [4, 0] } := by
  decide

/-- an observable points at `main_target − (last_acquisition_index + 1)`; with a missing field nothing is
    exportable. -/
theorem observable_targets (l m : Int) (x : Option Int) :
    observableRecs (some l) (some m) = some [m - (l + 1)] ∧
    observableRecs none x = none ∧ observableRecs x none = none := by
  refine ⟨rfl, rfl, ?_⟩
  cases x <;> rfl

/-- a record lookback is accepted iff it is negative (and within Stim's 24 bit range). -/
theorem recOk_iff (k : Int) : recOk k = true ↔ (-16777215 ≤ k ∧ k ≤ -1) := by
  simp [recOk]

/-! ### the tree walk -/

/-- what a node contributes to the export of its parent. -/
def contribution (w : World) (n : Nat) : List Instr :=
  if (w.op n).isComp then w.stimExport n else (translate (w.op n)).toList

/-- Export of a (sub-)circuit = its own count × the concatenation, over its listing, of what each node
    contributes: a leaf its translation (nothing if unsupported), a sub-circuit its own export (which includes
    the sub-circuit's count) — in place.  Guard: the nesting fits the walk's fuel (`nestWithin`; the driver
    answers `undef` otherwise). -/
theorem export_repeat (w : World) (c : Nat) (h : w.nestWithin w.depthFuel c = true) :
    w.stimExport c =
      repeatList (w.repCount (w.op c).rep) ((listing (w.op c).graph).flatMap (contribution w)) := by
  unfold World.stimExport
  congr 1
  have hf : w.depthFuel = (w.ops.size + 1) + 1 := rfl
  rw [hf] at h ⊢
  rw [stimBody_succ]
  apply flatMap_congr'
  intro n hn
  unfold contribution World.stimExport
  by_cases hc : (w.op n).isComp = true
  · simp only [hc, if_true]
    rw [nestWithin_succ] at h
    simp only [List.all_eq_true, Bool.or_eq_true, Bool.not_eq_eq_eq_not, Bool.not_true] at h
    rcases h n hn with h' | h'
    · rw [hc] at h'; cases h'
    · rw [hf, stimBody_fuel w (w.ops.size + 1) (w.ops.size + 1 + 1) n (by omega) h']
  · simp [hc]

/-- **In-order image.** The export is `filterMap translate` over the listing in which every sub-circuit is
    expanded in place and repeated its count (the circuit's own count included). -/
theorem export_is_image (w : World) (c : Nat) :
    w.stimExport c = (w.expandedTop c).filterMap (fun n => translate (w.op n)) := by
  unfold World.stimExport World.expandedTop
  rw [filterMap_repeatList, stimBody_is_image]

/-- **Refinement of the listing.** For a circuit whose counts are all 1 (its own and every nested one), the
    export is the operation listing — `operations`, i.e. the MUTATING `decomposed_operations` — translated
    instruction by instruction, unsupported operations dropped.  Any nesting depth.
    The operations may be read in the world before or after the listing mutated it (`translate` does not look
    at links). -/
theorem export_refines_listing (w : World) (c : Nat)
    (htop : w.repCount (w.op c).rep = 1) (hone : w.allOne w.depthFuel c = true) :
    w.stimExport c = ((w.operations c).2).filterMap (fun n => translate (w.op n)) ∧
    w.stimExport c = ((w.operations c).2).filterMap (fun n => translate ((w.operations c).1.op n)) := by
  have h1 : w.stimExport c = ((w.operations c).2).filterMap (fun n => translate (w.op n)) := by
    rw [export_is_image, World.expandedTop, htop, repeatList_one, expanded_eq_leafListing w _ c hone,
      operations_eq_leafListing]
  refine ⟨h1, ?_⟩
  rw [h1]
  apply filterMap_congr'
  intro n _
  have hs := operations_shape w c
  unfold translate Op.stimTargets Op.stimArgs Op.detRecs Op.obsRecs Op.exportQubits Op.fld Op.leafChans
  rw [hs.cls n, hs.qs n, hs.ints n, hs.chan n]

/-- **Nothing else is added.** Every exported instruction is the translation of a leaf operation below the
    circuit. -/
theorem nothing_else_emitted (w : World) (c : Nat) (i : Instr) (h : i ∈ w.stimExport c) :
    ∃ n ∈ w.leafListing w.depthFuel c, translate (w.op n) = some i := by
  rw [export_is_image, List.mem_filterMap] at h
  obtain ⟨n, hn, ht⟩ := h
  exact ⟨n, expanded_subset_leafListing w _ c n (mem_repeatList hn), ht⟩

/-! ### unrolling -/

/-- **Multiset clause, relative to C06.**  Let `w'` be the world after unrolling.  IF (C06 `unroll_resets`) all
    counts of `c` are 1 in `w'` and (C06 `unroll_counts`) the listing of `c` in `w'` is, up to the fields the
    exporter reads, a permutation of the count-expanded listing in `w`, THEN the two exports are equal as
    multisets and record the same number of measurements.

    Full statement (not proved here, C06 owns the two hypotheses for `w' = w.applyModifiers w.depthFuel c`):
      (w.applyModifiers w.depthFuel c).stimExport c ~ w.stimExport c  ∧  measurement counts equal. -/
theorem export_multiset_unroll_partial (w w' : World) (c : Nat)
    (htop : w'.repCount (w'.op c).rep = 1) (hone : w'.allOne w'.depthFuel c = true)
    (hcounts : (((w'.operations c).2).map (fun n => exportKey (w'.op n))).Perm
               ((w.expandedTop c).map (fun n => exportKey (w.op n)))) :
    (w'.stimExport c).Perm (w.stimExport c) ∧ measCount (w'.stimExport c) = measCount (w.stimExport c) := by
  have key : ∀ (v : World) (l : List Nat),
      l.filterMap (fun n => translate (v.op n)) =
        (l.map (fun n => exportKey (v.op n))).filterMap
          (fun k => translate { cls := k.1, qs := k.2.1, ints := k.2.2.1, chan := k.2.2.2 }) := by
    intro v l
    rw [List.filterMap_map]
    apply filterMap_congr'
    intro n _
    exact translate_of_key _ _ rfl
  have hp : (w'.stimExport c).Perm (w.stimExport c) := by
    rw [(export_refines_listing w' c htop hone).1, export_is_image w c, key w', key w]
    exact hcounts.filterMap _
  exact ⟨hp, measCount_perm hp⟩

/-! ### non-vacuity: a nested, repeated circuit -/

/-- `top(×2){ X q0 ; mid(×3){ M q1 ; Wait q1 ; DETECTOR(q1) rec[-1] } }` as a heap literal. -/
def wNested : World :=
  { ops := #[
      { cls := .comp, rep := .fixed 2, graph := [⟨1, none, [0]⟩, ⟨2, none, [1]⟩] },
      { cls := .rx180, qs := [0] },
      { cls := .comp, rep := .fixed 3, graph := [⟨3, none, [0]⟩, ⟨4, some 3, [0, 0]⟩, ⟨5, some 4, [0, 0, 0]⟩] },
      { cls := .measure, qs := [1] },
      { cls := .wait, qs := [1] },
      { cls := .detector, qs := [1], ints := [some 0, some 0, none, none, none] }] }


/-- the guard of `export_repeat` holds for the example … -/
example : wNested.nestWithin wNested.depthFuel 0 = true := by
  have hf : wNested.depthFuel = 8 := rfl
  have wNested_listing := listing_of_graphsSorted wNested (by decide)
  simp only [hf, World.nestWithin, wNested_listing]
  decide

/-- … and its export is `(X 0 ; (M 1 ; DETECTOR(1,0) rec[-1]) × 3) × 2`, the unsupported `Wait` omitted. -/
example : wNested.stimExport 0 =
    repeatList 2 ({ name := "X", targets := [.q 0] } ::
      repeatList 3 [{ name := "M", targets := [.q 1] }, { name := "DETECTOR", targets := [.mrec (-1)], args := [1, 0] }]) := by
  have hf : wNested.depthFuel = 8 := rfl
  have wNested_listing := listing_of_graphsSorted wNested (by decide)
  simp only [World.stimExport, hf, World.stimBody, wNested_listing]
  decide

/-- flat circuit with counts 1 (hypotheses of `export_refines_listing` are satisfiable, nesting included). -/
def wOnes : World :=
  { ops := #[
      { cls := .comp, graph := [⟨1, none, [0]⟩, ⟨2, none, [1]⟩] },
      { cls := .hadamard, qs := [0] },
      { cls := .comp, graph := [⟨3, none, [0]⟩] },
      { cls := .measure, qs := [1] }] }

example : wOnes.repCount (wOnes.op 0).rep = 1 ∧ wOnes.allOne wOnes.depthFuel 0 = true := by
  have hl := listing_of_graphsSorted wOnes (by decide)
  have hf : wOnes.depthFuel = 6 := rfl
  refine ⟨rfl, ?_⟩
  simp only [hf, World.allOne, hl]
  decide

/-- `top{ blk(×2){ M q1 ; X q0 } }` and its unrolled form `top{ blk{ M ; X ; M ; X } }`: the hypotheses of
    `export_multiset_unroll_partial` are satisfiable by a non-trivial pair. -/
def wRep : World :=
  { ops := #[
      { cls := .comp, graph := [⟨1, none, [0]⟩] },
      { cls := .comp, rep := .fixed 2, graph := [⟨2, none, [0]⟩, ⟨3, some 2, [0, 0]⟩] },
      { cls := .measure, qs := [1] }, { cls := .rx180, qs := [0] }] }

def wUnrolled : World :=
  { ops := #[
      { cls := .comp, graph := [⟨1, none, [0]⟩] },
      { cls := .comp, graph := [⟨2, none, [0]⟩, ⟨3, some 2, [0, 0]⟩, ⟨4, some 3, [0, 0, 0]⟩, ⟨5, some 4, [0, 0, 0, 0]⟩] },
      { cls := .measure, qs := [1] }, { cls := .rx180, qs := [0] },
      { cls := .measure, qs := [1] }, { cls := .rx180, qs := [0] }] }

example :
    wUnrolled.repCount (wUnrolled.op 0).rep = 1 ∧ wUnrolled.allOne wUnrolled.depthFuel 0 = true ∧
    (((wUnrolled.operations 0).2).map (fun n => exportKey (wUnrolled.op n))).Perm
      ((wRep.expandedTop 0).map (fun n => exportKey (wRep.op n))) ∧
    wRep.stimExport 0 ≠ [] := by
  have hl := listing_of_graphsSorted wRep (by decide)
  have hl' := listing_of_graphsSorted wUnrolled (by decide)
  have hf : wRep.depthFuel = 6 := rfl
  have hf' : wUnrolled.depthFuel = 8 := rfl
  refine ⟨rfl, ?_, ?_, ?_⟩
  · simp only [hf', World.allOne, hl']
    decide
  · rw [operations_eq_leafListing]
    simp only [hf, hf', World.leafListing, World.expandedTop, World.expanded, hl, hl']
    exact List.Perm.of_eq (by decide)
  · simp only [World.stimExport, hf, World.stimBody, hl]
    decide

/-! ### the library clause is false of the listing order: witness shape of R5 -/

/-- Unrolled listing order produced by `extend` for a block `{M a; M b; DET a; DET b; SHIFT}` repeated twice:
    the second iteration hangs under the latest-ending leaf, breadth-first order then lists iteration 2's
    first layer BEFORE iteration 1's coordinate shift.  Heap literal of that tree (keys are the paths). -/
def wShift : World :=
  { ops := #[
      { cls := .comp, graph := [⟨1, none, [0]⟩, ⟨2, none, [1]⟩, ⟨3, some 1, [0, 0]⟩, ⟨6, some 2, [1, 0]⟩,
                                ⟨4, some 3, [0, 0, 0]⟩, ⟨7, some 6, [1, 0, 0]⟩, ⟨5, some 4, [0, 0, 0, 0]⟩] },
      { cls := .measure, qs := [1] }, { cls := .measure, qs := [2] },
      { cls := .detector, qs := [1], ints := [some 1, some 0, none, none, none] },
      { cls := .detector, qs := [2], ints := [some 1, some 1, none, none, none] },
      { cls := .cshift, qs := [1, 2], ints := [some 1, some 0] },
      { cls := .measure, qs := [1] },
      { cls := .detector, qs := [1], ints := [some 1, some 0, none, none, none] }] }

/-- in such a tree an instruction of the second iteration (`M 1`, object 6) is exported before the first
    iteration's `SHIFT_COORDS` (object 5): the export is not the concatenation of the iterations. -/
theorem C08_witness_shift_displaced :
    (wShift.stimExport 0).map (·.name) = ["M", "M", "DETECTOR", "M", "DETECTOR", "DETECTOR", "SHIFT_COORDS"] := by
  have hl := listing_of_graphsSorted wShift (by decide)
  have hf : wShift.depthFuel = 10 := rfl
  simp only [World.stimExport, hf, World.stimBody, hl]
  decide


/-! ### unrolling: the multiset clause as a FULL theorem

C06's nested-unrolling theorems (`TreeBelow`, `World.expand`, `applyModifiers_tree_driver`; Lemmas/TreeHeap … TreeDepth)
discharge the three hypotheses of `export_multiset_unroll_partial`; the bridge between the exporter's count-expanded NODE
listing (`World.expandedTop`, listing order, a count of 0 exports nothing) and C06's count-expanded SIGNATURES
(`World.expand`, insertion order, a count of 0 is unrolled as one copy) is Lemmas/ExportUnroll.lean.  This supersedes the
"Not proved" note about `applyModifiers` in the header of this file.

The statement WITHOUT a hypothesis on the counts,
    theorem export_multiset_unroll (w : World) (f c : Nat) (h : TreeBelow w f c) (hc : (w.op c).isComp = true) :
      ((w.applyModifiers w.depthFuel c).stimExport c).Perm (w.stimExport c) ∧ measCount … = measCount …
is FALSE of the model (and of the code: `inner * 0` exports nothing, `repeat(0)` makes `0 - 1` extra copies, i.e. keeps one):
`export_multiset_unroll_count_zero_witness`.  The property's quantifier says counts ≥ 1; that is the hypothesis
`ExportUnroll.CountsPos w f c` (every composite at or below `c` has a repetition count ≥ 1 under the current registry). -/

open Qco.ExportUnroll

/-- **The export after unrolling, for ANY counts (0 included).**  On a tree-shaped heap below the sub-circuit `c`, the
    export after `apply_modifiers` is — as a multiset — the translation of C06's expansion of the heap before: every leaf
    × the product of the enclosing `max 1 count`. -/
theorem export_after_unroll_is_expansion (w : World) (f c : Nat) (h : TreeBelow w f c) (hc : (w.op c).isComp = true) :
    ((w.applyModifiers w.depthFuel c).stimExport c).Perm ((w.expand f c).filterMap sigInstr) := by
  obtain ⟨htop, hone, hp⟩ := unroll_export_hyps w f c h hc
  rw [(export_refines_listing _ c htop hone).1, filterMap_translate_sig]
  exact hp.filterMap _

/-- **The export before unrolling**, when every count at or below `c` is ≥ 1: the translation of the same expansion. -/
theorem export_before_unroll_is_expansion (w : World) (f c : Nat) (h : TreeBelow w f c)
    (hc : (w.op c).isComp = true) (hpos : CountsPos w f c) :
    (w.stimExport c).Perm ((w.expand f c).filterMap sigInstr) := by
  rw [export_is_image, filterMap_translate_sig]
  exact (expandedTop_expand w f c h hc hpos).filterMap _

/-- **Multiset clause, full.**  For a sub-circuit `c` of a tree-shaped heap (what the API builds: `C06.fresh_circuit_is_tree`,
    `add_leaf_keeps_tree`, `add_sub_circuit_keeps_tree`) all of whose counts at or below `c` are ≥ 1 — any nesting depth, any
    counts, fixed or registry-provided, no fuel hypothesis — exporting after `apply_modifiers` (the driver's call) gives
    the same multiset of instructions as exporting before, and the same number of measurement results. -/
theorem export_multiset_unroll (w : World) (f c : Nat) (h : TreeBelow w f c) (hc : (w.op c).isComp = true)
    (hpos : CountsPos w f c) :
    ((w.applyModifiers w.depthFuel c).stimExport c).Perm (w.stimExport c) ∧
    measCount ((w.applyModifiers w.depthFuel c).stimExport c) = measCount (w.stimExport c) := by
  obtain ⟨htop, hone, _⟩ := unroll_export_hyps w f c h hc
  exact export_multiset_unroll_partial w (w.applyModifiers w.depthFuel c) c htop hone
    ((unroll_listing_keys w f c h hc).trans (expandedTop_keys w f c h hc hpos).symm)

/-- the same per qubit: the number of measurement results recorded on qubit `q` (what the per-qubit acquisition index
    counts) is the same before and after unrolling. -/
theorem export_unroll_meas_per_qubit (w : World) (f c : Nat) (h : TreeBelow w f c) (hc : (w.op c).isComp = true)
    (hpos : CountsPos w f c) (q : Int) :
    measCountOn q ((w.applyModifiers w.depthFuel c).stimExport c) = measCountOn q (w.stimExport c) :=
  measCountOn_perm q (export_multiset_unroll w f c h hc hpos).1

/-- **A count of 0 breaks the clause** (so `CountsPos` cannot be dropped): `top{ blk(×0){ M q0 } }` is a tree, exports the
    empty program (`inner * 0`), and after `apply_modifiers` — which makes `0 - 1 = 0` extra copies and sets the count
    to 1 — exports `M 0`: one measurement instead of none. -/
theorem export_multiset_unroll_count_zero_witness :
    TreeBelow wZero 3 0 ∧ (wZero.op 0).isComp = true ∧ ¬ CountsPos wZero 3 0 ∧
    wZero.stimExport 0 = [] ∧
    ((wZero.applyModifiers wZero.depthFuel 0).stimExport 0).Perm [{ name := "M", targets := [.q 0] }] ∧
    measCount (wZero.stimExport 0) = 0 ∧ measCount ((wZero.applyModifiers wZero.depthFuel 0).stimExport 0) = 1 := by
  have ht : TreeBelow wZero 3 0 := by decide
  have hc : (wZero.op 0).isComp = true := by decide
  have hbefore : wZero.stimExport 0 = [] := by
    have hl := listing_of_graphsSorted wZero (by decide)
    have hf : wZero.depthFuel = 5 := rfl
    simp only [World.stimExport, hf, World.stimBody, hl]
    decide
  have hafter : ((wZero.applyModifiers wZero.depthFuel 0).stimExport 0).Perm [{ name := "M", targets := [.q 0] }] := by
    have p := export_after_unroll_is_expansion wZero 3 0 ht hc
    have hx : (wZero.expand 3 0).filterMap sigInstr = [{ name := "M", targets := [.q 0] }] := by decide
    rw [hx] at p
    exact p
  refine ⟨ht, hc, ?_, hbefore, hafter, by rw [hbefore]; rfl, by rw [measCount_perm hafter]; decide⟩
  intro hp
  have h1 : 1 ≤ wZero.repCount (wZero.op 1).rep := ((hp hc).2 1 (by decide) (by decide)).1
  revert h1
  decide

/-! #### non-vacuity: the builder-made heap `exG` (Lemmas/TreeBuild.lean)

`top{ mid(×2){ M q0 ; inner(×3){ X q0 } } }`, nesting depth 2 below `top`, built with `newCircuit / newOp / add / addSub`. -/

/-- the hypotheses of `export_multiset_unroll`, `export_before/after_unroll_is_expansion`, `export_unroll_meas_per_qubit`
    hold of it (tree: constructor lemmas of C06; counts ≥ 1: the builder only copies repetition strategies,
    `ExportUnroll.exG_repsOk`). -/
example : TreeBelow exG.1 4 exF.2 ∧ (exG.1.op exF.2).isComp = true ∧ CountsPos exG.1 4 exF.2 :=
  ⟨exG_tree.1, exG_tree.2.2.1, exG_countsPos⟩

/-- … and the resulting numbers: before and after unrolling the export consists of exactly 2 `M 0` and 6 `X 0`
    (2 × (M, 3 × X)); 2 measurement results, both on qubit 0. -/
theorem export_multiset_unroll_example :
    ((exG.1.applyModifiers exG.1.depthFuel exF.2).stimExport exF.2).Perm
      (repeatList 2 ({ name := "M", targets := [.q 0] } :: repeatList 3 [{ name := "X", targets := [.q 0] }])) ∧
    (exG.1.stimExport exF.2).Perm
      (repeatList 2 ({ name := "M", targets := [.q 0] } :: repeatList 3 [{ name := "X", targets := [.q 0] }])) ∧
    measCount ((exG.1.applyModifiers exG.1.depthFuel exF.2).stimExport exF.2) = 2 ∧
    measCount (exG.1.stimExport exF.2) = 2 ∧
    measCountOn 0 ((exG.1.applyModifiers exG.1.depthFuel exF.2).stimExport exF.2) = 2 := by
  have hx : ((exG.1.expand 4 exF.2).filterMap sigInstr).Perm
      (repeatList 2 ({ name := "M", targets := [.q 0] } :: repeatList 3 [{ name := "X", targets := [.q 0] }])) :=
    (exG_tree.2.2.2.filterMap sigInstr).trans (List.Perm.of_eq (by decide))
  have pa := (export_after_unroll_is_expansion exG.1 4 exF.2 exG_tree.1 exG_tree.2.2.1).trans hx
  have pb := (export_before_unroll_is_expansion exG.1 4 exF.2 exG_tree.1 exG_tree.2.2.1 exG_countsPos).trans hx
  refine ⟨pa, pb, ?_, ?_, ?_⟩
  · rw [measCount_perm pa]; decide
  · rw [measCount_perm pb]; decide
  · rw [measCountOn_perm 0 pa]; decide

end Qco.C08
