import QcoVerif.Model.Builder
import QcoVerif.Model.StimExport
/-
  Line protocol for the heap model (build programs).  One command per line, one answer per line.
-/
namespace Qco.Driver

open Qco

structure Sess where
  w : World := {}
  circs : Array Nat := #[]
  regs : Array Nat := #[]
  handles : Array Nat := #[]
  deriving Inhabited

def parseInt? (s : String) : Option Int := s.toInt?

def parseChan? : String → Option Chan
  | "A" => some .all | "R" => some .ro | "M" => some .mw | "F" => some .fl | _ => none

def chanCode : Chan → String
  | .all => "A" | .ro => "R" | .mw => "M" | .fl => "F"

def parseRel? : String → Option Rel
  | "FB" => some .fb | "JS" => some .js | "JE" => some .je | _ => none

def parseDur? (s : String) : Option (Option Dur) :=
  if s == "-" then some none
  else if s == "d" then some (some .decoupling)
  else if s.startsWith "f" then (s.drop 1).toString.toInt?.map (fun x => some (.fixed x))
  else if s.startsWith "r" then (s.drop 1).toString.toNat?.map (fun x => some (.reg x))
  else match s with
    | "gR" => some (some (.glob .ro)) | "gM" => some (some (.glob .mw))
    | "gF" => some (some (.glob .fl)) | "gS" => some (some (.glob .rs)) | _ => none

def parseRep? (s : String) : Option Rep :=
  if s.startsWith "f" then (s.drop 1).toString.toNat?.map .fixed
  else if s.startsWith "r" then (s.drop 1).toString.toNat?.map .reg
  else none

def parseList {α} (p : String → Option α) (s : String) : Option (List α) :=
  if s == "-" then some [] else (s.splitOn ",").mapM p

def parseOptInt? (s : String) : Option (Option Int) :=
  if s == "n" then some none else s.toInt?.map some

def showInts (xs : List Int) : String :=
  if xs.isEmpty then "-" else ",".intercalate (xs.map toString)

def showChans (cs : List ChId) : String :=
  ".".intercalate (cs.map (fun c => toString c.q ++ chanCode c.c))

/-- times of one object with a fresh memo: (start, dur). -/
def timesOf (w : World) (o : Nat) : Option (Int × Int) :=
  let act : EvalM (Option (Int × Int)) := do
    match ← Eval.query w (.start o) with
    | none => pure none
    | some s =>
      match ← Eval.query w (.dur o) with
      | none => pure none
      | some d => pure (some (s, d))
  act.run' {}

def durOf (w : World) (o : Nat) : Option Int := (Eval.query w (.dur o)).run' {}

/-- Where the code evaluates `has_relation` of a group (latest-of) link it computes end times, and raises
    `RecursionError` when the relation structure is cyclic.  The listing does so for every node it visits;
    `multiDefined` is that guard: every group link met by the (recursive) listing of `c` has a defined reference. -/
def multiDefined (w : World) : Nat → Nat → Bool
  | 0, _ => true
  | f+1, c =>
    (listing (w.op c).graph).all (fun n =>
      ((!(w.lnk (w.op n).link).multi) || (w.lnk (w.op n).link).refs.isEmpty || (w.refOf (w.op n).link).isSome) &&
      ((!(w.op n).isComp) || multiDefined w f n))

/-- canonical listing of a circuit: also returns the (mutated) world. -/
def showListing (w : World) (c : Nat) : World × String :=
  let (w, ops) := w.operations c
  let step := fun (acc : World × List String × Bool) (o : Nat) =>
    let (w, out, ok) := acc
    if !ok then (w, out, ok) else
    let op := w.op o
    match timesOf w o with
    | none => (w, out, false)
    | some (s, d) =>
      -- the acquisition index scans the listing of the registry's reference circuit (possibly ANOTHER circuit): the same
      -- `has_relation` evaluations, the same `RecursionError` when a group link met there has no defined reference
      if op.cls == .measure && !multiDefined w w.depthFuel op.reg then (w, out, false) else
      let (w, acq) :=
        if op.cls == .measure then
          let (w, (ql, cl)) := w.acq o
          (w, s!"{ql},{cl}")
        else (w, "-")
      let ints := if op.ints.isEmpty then "-" else
        ",".intercalate (op.ints.map (fun x => match x with | none => "n" | some v => toString v))
      (w, out ++ [s!"{op.cls.name} {showInts op.qs} {showChans (w.chansOf o)} {s} {d} {acq} {op.tag} {ints}"], true)
  let (w, out, ok) := ops.foldl step (w, [], true)
  if !ok then (w, "undef") else
  match durOf w c with
  | none => (w, "undef")
  | some d => (w, ";".intercalate out ++ s!" # {d}")

/-- `get_sub_composite_operations`, as repetition counts. -/
def subReps (w : World) : Nat → Nat → List Nat
  | 0, _ => []
  | f+1, c =>
    (listing (w.op c).graph).flatMap (fun n =>
      if (w.op n).isComp then w.repCount (w.op n).rep :: subReps w f n else [])

/-! `dump`: the whole heap as one JSON line (read by tools/gen_c10_programs.py). -/

def durCode : Dur → String
  | .fixed d => s!"f{d}" | .reg k => s!"r{k}" | .decoupling => "d"
  | .glob .ro => "gR" | .glob .mw => "gM" | .glob .fl => "gF" | .glob .rs => "gS"

def relCode : Rel → String
  | .fb => "FB" | .js => "JS" | .je => "JE"

def jsonList (xs : List String) : String := "[" ++ ",".intercalate xs ++ "]"

def dumpOp (o : Op) : String :=
  let ints := jsonList (o.ints.map (fun x => match x with | none => "null" | some v => toString v))
  let rep := match o.rep with | .fixed n => s!"f{n}" | .reg k => s!"r{k}"
  let graph := jsonList (o.graph.map (fun e =>
    jsonList [toString e.node, (match e.parent with | none => "-1" | some p => toString p),
              jsonList (e.key.map toString)]))
  "{" ++ s!"\"cls\":\"{o.cls.name}\",\"qs\":{jsonList (o.qs.map toString)},\"chan\":\"{chanCode o.chan}\"," ++
    s!"\"dur\":\"{durCode o.dur}\",\"link\":{o.link},\"tag\":{o.tag},\"reg\":{o.reg},\"ints\":{ints}," ++
    s!"\"rep\":\"{rep}\",\"graph\":{graph}" ++ "}"

def dumpWorld (s : Sess) : String :=
  let w := s.w
  let links := jsonList (w.links.toList.map (fun l =>
    jsonList [if l.multi then "1" else "0", jsonList (l.refs.map toString), "\"" ++ relCode l.rel ++ "\""]))
  let dreg := jsonList (w.dreg.map (fun p => jsonList [toString p.1, toString p.2]))
  "{" ++ s!"\"ops\":{jsonList (w.ops.toList.map dumpOp)},\"links\":{links},\"dreg\":{dreg}," ++
    s!"\"circs\":{jsonList (s.circs.toList.map toString)}" ++ "}"

def step (s : Sess) (toks : List String) : Sess × String :=
  let bad := (s, "bad-op")
  match toks with
  | ["reset"] => ({}, "ok")
  | ["gdur", a, b, c, d] =>
    match a.toInt?, b.toInt?, c.toInt?, d.toInt? with
    | some a, some b, some c, some d =>
      ({ s with w := { s.w with gRo := a, gMw := b, gFl := c, gRs := d } }, "ok")
    | _, _, _, _ => bad
  | ["setreg", k, v] =>
    match k.toNat?, v.toInt? with
    | some k, some v =>
      ({ s with w := { s.w with dreg := (k, v) :: s.w.dreg.filter (·.1 != k) } }, "ok")
    | _, _ => bad
  | ["setrep", k, v] =>
    match k.toNat?, v.toNat? with
    | some k, some v =>
      ({ s with w := { s.w with rreg := (k, v) :: s.w.rreg.filter (·.1 != k) } }, "ok")
    | _, _ => bad
  | ["new", r] =>
    match parseRep? r with
    | some r =>
      let (w, c) := s.w.newCircuit r
      ({ s with w := w, circs := s.circs.push c, regs := s.regs.push c }, s!"c{s.circs.size}")
    | none => bad
  | ["new", r, rel] =>
    -- a circuit constructed with an explicit relation `h:T` to an existing operation
    match parseRep? r, rel.splitOn ":" with
    | some r, [h, t] =>
      match h.toNat?, parseRel? t with
      | some h, some rt =>
        if h ≥ s.handles.size then bad else
        let (w, c) := s.w.newCircuitRel r s.handles[h]! rt
        ({ s with w := w, circs := s.circs.push c, regs := s.regs.push c }, s!"c{s.circs.size}")
      | _, _ => bad
    | _, _ => bad
  | ["op", c, cls, qs, chan, dur, tag, reg, ints, rel] =>
    match c.toNat?, Cls.ofName? cls, parseList String.toInt? qs, parseChan? chan, parseDur? dur,
          tag.toNat?, reg.toNat?, parseList parseOptInt? ints with
    | some c, some cls, some qs, some chan, some dur, some tag, some reg, some ints =>
      if c ≥ s.circs.size || reg ≥ s.regs.size then bad else
      -- `-` no relation | `h:T` fresh single link | `h:SAME` the link object handle h carries | `mh1+h2:T` group link
      let relSpec : Option (World × Nat) :=
        if rel == "-" then some (s.w.newLink {}) else
        match rel.splitOn ":" with
        | [h, r] =>
          if h.startsWith "m" then
            match ((h.drop 1).toString.splitOn "+").mapM String.toNat?, parseRel? r with
            | some hs, some rt =>
              if hs.all (· < s.handles.size) then
                some (s.w.newLink { multi := true, refs := hs.map (fun h => s.handles[h]!), rel := rt })
              else none
            | _, _ => none
          else match h.toNat? with
            | some h =>
              if h < s.handles.size then
                if r == "SAME" then some (s.w, (s.w.op s.handles[h]!).link)
                else (parseRel? r).map (fun rt => s.w.newLink { refs := [s.handles[h]!], rel := rt })
              else none
            | none => none
        | _ => none
      match relSpec with
      | none => bad
      | some (w, l) =>
        let (w, o) := w.newOp {
          cls := cls, qs := qs, chan := chan, dur := dur.getD cls.defaultDur, link := l, tag := tag,
          reg := s.regs[reg]!, ints := ints }
        let w := w.add s.circs[c]! o
        ({ s with w := w, handles := s.handles.push o }, s!"h{s.handles.size}")
    | _, _, _, _, _, _, _, _ => bad
  | ["sub", a, b] =>
    match a.toNat?, b.toNat? with
    | some a, some b =>
      if a ≥ s.circs.size || b ≥ s.circs.size then bad else
      let (w, cp) := s.w.addSub s.circs[a]! s.circs[b]!
      ({ s with w := w, handles := s.handles.push cp }, s!"h{s.handles.size}")
    | _, _ => bad
  | ["adopt", h] =>
    -- the nested copy a `sub` returned becomes addressable as a circuit of its own (the code: the handle `add()` returned is a
    -- `CircuitCompositeOperation` one can keep adding to); its acquisition registry is an orphan, as for `copy`
    match h.toNat? with
    | some h =>
      if h ≥ s.handles.size then bad else
      if !(s.w.op s.handles[h]!).isComp then bad else
      let (w, orphan) := s.w.newCircuit (.fixed 1)
      ({ s with w := w, circs := s.circs.push s.handles[h]!, regs := s.regs.push orphan }, s!"c{s.circs.size}")
    | none => bad
  | ["list", c] =>
    match c.toNat? with
    | some c => if c ≥ s.circs.size then bad else
      let (w, out) := showListing s.w s.circs[c]!
      ({ s with w := w }, out)
    | none => bad
  | ["ops", c] =>
    match c.toNat? with
    | some c => if c ≥ s.circs.size then bad else
      let (w, ops) := s.w.operations s.circs[c]!
      ({ s with w := w }, toString ops.length)
    | none => bad
  | ["dur", c] =>
    match c.toNat? with
    | some c => if c ≥ s.circs.size then bad else
      (s, match durOf s.w s.circs[c]! with | none => "undef" | some d => toString d)
    | none => bad
  | ["apply", c] =>
    match c.toNat? with
    | some c => if c ≥ s.circs.size then bad else
      let w := s.w.applyModifiers s.w.depthFuel s.circs[c]!
      ({ s with w := w }, "ok")
    | none => bad
  | ["flatten", c] =>
    match c.toNat? with
    | some c => if c ≥ s.circs.size then bad else
      let w := s.w.flatten s.circs[c]!
      ({ s with w := w }, "ok")
    | none => bad
  | ["copy", c] =>
    match c.toNat? with
    | some c => if c ≥ s.circs.size then bad else
      let (w, cp) := s.w.copy s.circs[c]!
      let (w, orphan) := w.newCircuit (.fixed 1)
      ({ s with w := w, circs := s.circs.push cp, regs := s.regs.push orphan }, s!"c{s.circs.size}")
    | none => bad
  | ["chans", c] =>
    match c.toNat? with
    | some c => if c ≥ s.circs.size then bad else (s, showChans (s.w.chansOf s.circs[c]!))
    | none => bad
  | ["reps", c] =>
    match c.toNat? with
    | some c => if c ≥ s.circs.size then bad else
      (s, showInts ((subReps s.w s.w.depthFuel s.circs[c]!).map Int.ofNat))
    | none => bad
  | ["copyobs", c] =>
    match c.toNat? with
    | some c => if c ≥ s.circs.size then bad else
      -- `structure.copy()` never evaluates a relation of the ORIGINAL (the links are copied member by member); what is listed,
      -- and where `has_relation` is evaluated, is the COPY — which can be defined where the original is not (a dropped group
      -- member, R24): the definedness guard looks at the copy (false alarm of the quick soak, seed 34)
      let (w, cp) := s.w.copy s.circs[c]!
      if !multiDefined w w.depthFuel cp then ({ s with w := { w with undef := true } }, "undef") else
      let (w, out) := showListing w cp
      ({ s with w := w }, out)
    | none => bad
  | ["dump"] => (s, dumpWorld s)
  | ["warnings"] => (s, toString s.w.warnings)
  | ["collisions"] => (s, toString s.w.collisions)
  | ["evalcheck", c] =>
    -- cross-check of the two evaluators: the memoised one the driver answers with (`Eval.query`) against the
    -- specification evaluator the theorems are about (`evStart/evDur/evEnd`), on every operation listed by circuit c
    -- and on c itself.  The specification evaluator is exponential in the relation depth: small heaps only.
    match c.toNat? with
    | some c => if c ≥ s.circs.size then bad else
      if s.w.ops.size > 30 then (s, "skip") else
      let w := s.w
      let objs := s.circs[c]! :: (w.leafListing w.depthFuel s.circs[c]!)
      let memo := objs.map (fun o => (timesOf w o).map (fun (sd : Int × Int) => (sd.1, sd.2, sd.1 + sd.2)))
      if memo.any Option.isNone then (s, "skip-undef") else
      let spec := objs.map (fun o =>
        match evStart w w.fuel o, evDur w w.fuel o, evEnd w w.fuel o with
        | some a, some d, some e => some (a, d, e)
        | _, _, _ => none)
      if memo == spec then (s, s!"same {objs.length}") else (s, s!"MISMATCH {repr memo} {repr spec}")
    | none => bad
  | ["identkeys"] => ({ s with w := { s.w with identKeys := true } }, "ok")
  | _ => bad

/-- commands whose implementation walks the (mutating) listing of circuit `c` (first argument). -/
def listingCommands : List String := ["list", "ops", "flatten", "plot"]

/-- the definedness guard around a command interpreter: once a build step or a listing needed an undefined
    (cyclic) reference — where the code raises `RecursionError` — every answer is `undef` (sticky). -/
def guarded (inner : Sess → List String → Sess × String) (s : Sess) (toks : List String) : Sess × String :=
  match toks with
  | ["reset"] => inner s toks
  | _ =>
    if s.w.undef then (s, "undef") else
    let guardOk : Bool := match toks with
      | cmd :: c :: _ =>
        if listingCommands.contains cmd then
          match c.toNat? with
          | some c => if c < s.circs.size then multiDefined s.w s.w.depthFuel s.circs[c]! else true
          | none => true
        else true
      | _ => true
    if !guardOk then ({ s with w := { s.w with undef := true } }, "undef") else
    let (s', ans) := inner s toks
    if s'.w.undef then (s', "undef") else (s', ans)

end Qco.Driver
