"""Attribution of observed violations to the committed known findings (known_findings.json).

A violation is attributed only if (i) the Lean model — the validated description of the pinned
behaviour, defects included — gives the same answers as the implementation on that input, and
(ii) the finding's own matcher (input class + failure signature) accepts it.  A disagreement between
model and implementation is never attributed."""
from __future__ import annotations
from . import common

MATCHERS = {}


def matcher(name):
    def deco(f):
        MATCHERS[name] = f
        return f
    return deco


_cache = None


def open_findings(prop):
    global _cache
    if _cache is None:
        _cache = common.load_findings()
    return [f for f in _cache if f.get('status') == 'open' and prop in f.get('properties', [])]


def attribute(prop, result, failure):
    """result: dict(prog, impl, model, dis, fails). Returns the KNOWN-FINDING text or None."""
    if result.get('dis') is not None:
        return None
    for f in open_findings(prop):
        m = MATCHERS.get(f.get('matcher'))
        if m is not None and m(prop, result, failure, f):
            return f"{f['id']}: {f['what_fails']}"
    return None


def attribute_disagreement(prop, result):
    return None


def model_collisions(result) -> int:
    """number of overwritten value-equal keys the model saw in copy lookups, up to the failing command."""
    prog, model = result['prog'], result['model']
    last = 0
    for i, cmd in enumerate(prog):
        if cmd[0] == 'collisions' and i < len(model):
            try:
                last = int(model[i])
            except ValueError:
                pass
    return last


_ambient = None


def value_equality_matters(prog) -> bool:
    """the heap the model builds for `prog` differs from the heap built by its identity-keyed twin (the same model
    with the copy lookup keyed by object identity): some lookup conflated distinct value-equal objects."""
    global _ambient
    from . import progs, stream
    if _ambient is None:
        _ambient = progs.ambient_durations()
    return stream.value_equality_matters(prog, _ambient)


def model_undefined(result, failure, ident_keys=False) -> bool:
    """the model (or its identity-keyed twin) cannot answer some listing/time query after the failing command:
    the relation structure it built is cyclic as well (the implementation raised RecursionError)."""
    global _ambient
    from . import progs, stream
    if not ident_keys and 'undef' in [x for x in result['model'] if x]:
        return True
    if _ambient is None:
        _ambient = progs.ambient_durations()
    prog = [c for c in result['prog'][:failure['at'] + 1] if c[0] != 'collisions']
    nc = sum(1 for c in prog if c[0] in ('new', 'copy'))
    out = stream.run_model_many([prog + [['list', c] for c in range(nc)]], _ambient, ident_keys=ident_keys)[0]
    return 'undef' in out


@matcher('value_equal_keys_in_copy_lookup')
def _r3(prop, result, failure, finding):
    # any copy-related predicate failure, provided the model (which agrees with the implementation on this input)
    # reports a key collision, or builds a different heap once its lookups are keyed by identity instead of value
    if failure.get('probe') == 'undef':
        # unbounded recursion (a cyclic relation): R3 iff the identity-keyed twin of the model answers every query of
        # the same program, i.e. the cycle exists only because a lookup conflated value-equal objects (typically a
        # stale empty sub-circuit that compares equal to the circuit being copied: the copy then refers to its parent)
        return model_undefined(result, failure) and not model_undefined(result, failure, ident_keys=True)
    if failure.get('probe') not in ('C05', 'C07', 'C03', 'C06'):
        # ('C06': the n*T clause — a repeated block with two value-equal relation-less sub-circuit heads, the follower of one is
        #  re-pointed to the copy of the other in every later copy; found on the unchanged tree by the forced stream of round 4)
        return False
    if model_collisions(result) > 0:
        return True
    return value_equality_matters(result['prog'][:failure['at'] + 1])


@matcher('copy_drops_group_reference_listed_later')
def _r24(prop, result, failure, finding):
    # the copy of an unrolled circuit: a group (latest-of) relation lost a member that the original lists AFTER the
    # operation carrying the relation (R23), so it was not yet in the transfer lookup when the relation was copied
    return (failure.get('probe') == 'C05' and bool(failure.get('group_ref_dropped'))
            and any(c[0] == 'apply' for c in result['prog'][:failure['at'] + 1]))


@matcher('copy_rehangs_group_carrier')
def _r26(prop, result, failure, finding):
    # the copy lists the same operations in another order because an operation with a group relation is hung under the member that
    # ends latest NOW, the original under the member that ended latest THEN (R23); needs a change of durations in between: an
    # unrolling, a duration setting, or an addition to a member sub-circuit
    return failure.get('probe') == 'C05' and bool(failure.get('group_parent_stale'))


@matcher('cycle_after_unroll_then_flatten')
def _r14(prop, result, failure, finding):
    if failure.get('what') != 'listing or time query recurses without bound':
        return False
    # input class: a flatten after a group (latest-of) relation came into existence — created by an unrolling
    # (apply_modifiers) or given explicitly as a MultiRelationLink; signature: the model recurses as well
    prog = result['prog'][:failure['at'] + 1]
    group = False
    for cmd in prog:
        if cmd[0] == 'apply':
            group = True
        if cmd[0] == 'op' and cmd[9] is not None and isinstance(cmd[9][0], list):
            group = True
        if cmd[0] == 'flatten' and group:
            return model_undefined(result, failure)
    return False


@matcher('index_order_vs_time_after_unroll')
def _r15(prop, result, failure, finding):
    if failure.get('what') != 'per-qubit indices do not increase with measurement start time':
        return False
    prog = result['prog'][:failure['at'] + 1]
    reps = {}
    nc = 0
    for cmd in prog:
        if cmd[0] in ('new', 'copy'):
            reps[nc] = cmd[1] if cmd[0] == 'new' else 'f1'
            nc += 1
    return any(cmd[0] == 'apply' for cmd in prog) and any(r != 'f1' for r in reps.values())


@matcher('group_link_listed_before_reference')
def _r23(prop, result, failure, finding):
    return (failure.get('what') == 'operation listed before the operation its relation refers to'
            and bool(failure.get('group_link'))
            and any(c[0] == 'apply' for c in result['prog'][:failure['at'] + 1]))
