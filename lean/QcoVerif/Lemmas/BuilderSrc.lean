import QcoVerif.Lemmas.ScanSrc
import QcoVerif.Model.Builder
/-
  Source ties of the BUILDER (`intrf_circuit_operation_composite.py`): `add_to_graph`, `get_corresponding_node`,
  `decomposed_operations`, `extend`, `repeat`, `apply_modifiers_to_self`, `apply_flatten_to_self`, `add`, `copy`.
  These functions act on objects; the fragment of Model/PyLang.lean does not execute such effects, it RECORDS them
  (`Py.callEffects`): the theorems state, for all inputs, the exact sequence of effects the source text performs as a function of
  the answers of its pure queries — the step structure of `World.addToGraph / decomposed / extend / applyModifiers / flatten /
  copyObj`.  For `add_to_graph` the same decision table is proved to drive the model function (`addToGraph_by_decision`).
  Core Lean only.
-/
set_option linter.unusedSimpArgs false
namespace Qco.BuilderSrc
open Qco Qco.Py Qco.Gen.PySrc Qco.TimingSrc Qco.ScanSrc


/-- constructors, static methods and module functions are uninterpreted (structural values); methods whose result is a pure
    query are answered from the receiver's pseudo-fields. -/
def builderEnv : Env :=
  { func := fun f args => match f, args with
      | "OperationGraphNode", [.tuple [.str "operation", op]] => some (.obj "Node" 70 [("operation", op)])
      | _, _ => some (.tuple (.str f :: args))
    method := fun recv m _ => match recv with | .obj _ _ fs => lookupField fs (m ++ "()") | _ => Option.none }

def opObj (n : Nat) (extra : List (String × Val)) : Val := .obj "Operation" n extra
def nodeOf (n : Nat) : Val := .obj "Node" (1000 + n) [("operation", opObj n [])]
def optNode : Option Nat → Val
  | none => .none
  | some n => nodeOf n
def rootNode : Val := .obj "Node" 999 []

/-- the operation being added: `has_relation`, and its link's reference node (identity 77). -/
def newOpObj (hasRel : Bool) : Val :=
  opObj 50 [("channel_identifiers", .list []), ("has_relation", .bool hasRel),
            ("relation_link", .obj "Link" 51 [("reference_node", opObj 77 [])])]

/-- the graph: root node, and the answers of its two queries. -/
def graphObj (leaf relNode : Option Nat) : Val :=
  .obj "Graph" 60 [("root_node", rootNode), ("get_leaf_at_any()", optNode leaf), ("get_corresponding_node()", optNode relNode)]

/-- the node `add_to_graph` creates for the operation. -/
def newNode (hasRel : Bool) : Val := .obj "Node" 70 [("operation", newOpObj hasRel)]

def evAppend (g parent node : Val) : Val := .tuple [.str "call", g, .str "append_pointer_to", parent, node]
def evRelink (op link : Val) : Val := .tuple [.str "setattr", op, .str "relation_link", link]
def linkTo (n : Nat) : Val := .tuple [.str "RelationLink", .tuple [.str "_reference_node", opObj n []]]
def noRelation : Val := .tuple [.str "RelationLink.no_relation"]
def evWarn : Val := .tuple [.str "call", .none, .str "warnings.warn", .str "<f-string>"]

/-- the decision table of `add_to_graph`, as the list of effects per case (what `World.addToGraph` does:
    keep / relink under the leaf / attach under the reference / warn and relink). -/
def addEffects (hasRel : Bool) (leaf relNode : Option Nat) : List Val :=
  let g := graphObj leaf relNode
  let nd := newNode hasRel
  match hasRel, leaf, relNode with
  | false, none, _ => [evAppend g rootNode nd]
  | false, some l, _ => [evRelink (newOpObj hasRel) (linkTo l), evAppend g (nodeOf l) nd]
  | true, _, some r => [evAppend g (nodeOf r) nd]
  | true, none, none => [evWarn, evRelink (newOpObj hasRel) noRelation, evAppend g rootNode nd]
  | true, some l, none => [evWarn, evRelink (newOpObj hasRel) (linkTo l), evAppend g (nodeOf l) nd]

theorem add_to_graph_matches_source (hasRel : Bool) (leaf relNode : Option Nat) :
    callEffects builderEnv Graph_add_to_graph [graphObj leaf relNode, newOpObj hasRel] = addEffects hasRel leaf relNode ∧
    callFn builderEnv Graph_add_to_graph [graphObj leaf relNode, newOpObj hasRel] = graphObj leaf relNode := by
  cases hasRel <;> cases leaf <;> cases relNode <;>
  simp [callEffects, callFn, Graph_add_to_graph, effBlock, effStmt, execBlock, exec, eval, evalList, bindParams, Vars.set, Vars.get,
    getAttr, lookupField, evalCmp, Val.truthy, Val.isErr, Val.beq, builtin, builderEnv, graphObj, newOpObj, opObj, optNode, nodeOf,
    rootNode, addEffects, newNode, evAppend, evRelink, linkTo, noRelation, evWarn]

/-! #### the same decision table drives the model's `World.addToGraph` -/

inductive AddDecision
  | root                 -- no relation, first on its channels: under the root, link kept
  | relinkUnder (l : Nat)  -- no relation: fresh FOLLOWED_BY link to the leaf, under the leaf
  | under (r : Nat)      -- relation whose reference is a node of this graph: under that node, link kept
  | warnRoot             -- reference not in this graph, first on its channels: warning, fresh empty link, under the root
  | warnUnder (l : Nat)  -- reference not in this graph: warning, fresh link to the leaf, under the leaf
  deriving DecidableEq, Repr

def addDecision (hasRel : Bool) (leaf relNode : Option Nat) : AddDecision :=
  match hasRel, leaf, relNode with
  | false, none, _ => .root
  | false, some l, _ => .relinkUnder l
  | true, _, some r => .under r
  | true, none, none => .warnRoot
  | true, some l, none => .warnUnder l

/-- the effects of `add_to_graph` are a function of the decision. -/
theorem addEffects_by_decision (hasRel : Bool) (leaf relNode : Option Nat) :
    addEffects hasRel leaf relNode =
      (match addDecision hasRel leaf relNode with
       | .root => [evAppend (graphObj leaf relNode) rootNode (newNode hasRel)]
       | .relinkUnder l => [evRelink (newOpObj hasRel) (linkTo l), evAppend (graphObj leaf relNode) (nodeOf l) (newNode hasRel)]
       | .under r => [evAppend (graphObj leaf relNode) (nodeOf r) (newNode hasRel)]
       | .warnRoot => [evWarn, evRelink (newOpObj hasRel) noRelation, evAppend (graphObj leaf relNode) rootNode (newNode hasRel)]
       | .warnUnder l => [evWarn, evRelink (newOpObj hasRel) (linkTo l), evAppend (graphObj leaf relNode) (nodeOf l) (newNode hasRel)]) := by
  cases hasRel <;> cases leaf <;> cases relNode <;> rfl

/-- what the MODEL does for a decision. -/
def applyDecision (w : World) (g : List Entry) (o : Nat) : AddDecision → World × List Entry
  | .root => (w, attach g none o)
  | .relinkUnder l => (((w.newLink { refs := [l] }).1.setLink o (w.newLink { refs := [l] }).2), attach g (some l) o)
  | .under r => (w, attach g (some r) o)
  | .warnRoot =>
      let w1 := { w with warnings := w.warnings + 1 }
      (((w1.newLink {}).1.setLink o (w1.newLink {}).2), attach g none o)
  | .warnUnder l =>
      let w1 := { w with warnings := w.warnings + 1 }
      (((w1.newLink { refs := [l] }).1.setLink o (w1.newLink { refs := [l] }).2), attach g (some l) o)

/-- the node of graph `g` that carries the reference of `o`'s link (`get_corresponding_node`), when that reference is defined. -/
def relNodeOf (w : World) (g : List Entry) (o : Nat) : Option Nat :=
  match w.refOf (w.op o).link with
  | some (some r) => if inGraph g r then some r else none
  | _ => none

/-- **`World.addToGraph` is the decision table of the source**, whenever the reference of `o`'s link is defined (a cyclic
    group link makes the code raise RecursionError: the model's sticky `undef`). -/
theorem addToGraph_by_decision (w : World) (g : List Entry) (o : Nat)
    (hdef : w.hasRel o = true → ∃ r, w.refOf (w.op o).link = some (some r)) :
    w.addToGraph g o =
      applyDecision w g o (addDecision (w.hasRel o) (w.leafAtAny g (w.chansOf o)) (relNodeOf w g o)) := by
  unfold World.addToGraph
  cases hr : w.hasRel o
  · cases hl : w.leafAtAny g (w.chansOf o) <;>
      simp [hl, addDecision, applyDecision, World.newLink]
  · obtain ⟨r, hrf⟩ := hdef hr
    cases hl : w.leafAtAny g (w.chansOf o) <;> by_cases hin : inGraph g r = true <;>
      simp [hl, hrf, hin, addDecision, applyDecision, relNodeOf, World.newLink]


/-- a node of the graph being walked: operation `n` with `has_relation = hr` and the listing `sub` of its own decomposition. -/
def walkNode (p : Nat × Bool × List Nat) : Val :=
  .obj "Node" (1000 + p.1) [("operation", .obj "Operation" p.1 [("has_relation", .bool p.2.1), ("decomposed_operations()", nats p.2.2)])]

def walkOp (p : Nat × Bool × List Nat) : Val :=
  .obj "Operation" p.1 [("has_relation", .bool p.2.1), ("decomposed_operations()", nats p.2.2)]

def selfLink : Val := .obj "Link" 5 []

def compSelf (nodes : List (Nat × Bool × List Nat)) : Val :=
  .obj "CircuitCompositeOperation" 1
    [("_circuit_graph", .obj "Graph" 2 [("get_node_iterator()", .list (nodes.map walkNode))]), ("relation_link", selfLink)]

def decBody : List Stmt :=
  [.ifs (.not (.attr (.attr (.name "node") "operation") "has_relation"))
      [.setattr (.attr (.name "node") "operation") "relation_link" (.attr (.name "self") "relation_link")] [],
   .aug "result" .add (.call "list" [.mcall (.attr (.name "node") "operation") "decomposed_operations" []])]

def decEffects (nodes : List (Nat × Bool × List Nat)) : List Val :=
  nodes.flatMap (fun p => if p.2.1 then [] else [Val.tuple [.str "setattr", walkOp p, .str "relation_link", selfLink]])

theorem dec_loop (all : List (Nat × Bool × List Nat)) : ∀ (nodes : List (Nat × Bool × List Nat)) (vs : Vars) (acc : List Nat),
    vs.get "self" = compSelf all → vs.get "result" = nats acc →
    (∃ vs', forLoop (fun vs' v => execBlock builderEnv (vs'.set "node" v) decBody) (nodes.map walkNode) vs = .cont vs' ∧
       vs'.get "self" = compSelf all ∧ vs'.get "result" = nats (acc ++ (nodes.map (·.2.2)).flatten)) ∧
    forEff (fun vs' v => execBlock builderEnv (vs'.set "node" v) decBody) (fun vs' v => effBlock builderEnv (vs'.set "node" v) decBody)
      (nodes.map walkNode) vs = decEffects nodes := by
  intro nodes
  induction nodes with
  | nil => intro vs acc hs hr; exact ⟨⟨vs, rfl, hs, by simpa using hr⟩, rfl⟩
  | cons p rest ih =>
    intro vs acc hs hr
    obtain ⟨n, hrel, sub⟩ := p
    have hstep : execBlock builderEnv (vs.set "node" (walkNode (n, hrel, sub))) decBody =
        .cont ((vs.set "node" (walkNode (n, hrel, sub))).set "result" (nats (acc ++ sub))) := by
      cases hrel <;>
      simp [decBody, execBlock, exec, eval, evalList, vars_get_set_same, get_set_ne, hs, hr, walkNode, compSelf, selfLink,
        getAttr, lookupField, Val.truthy, Val.isErr, builderEnv, builtin, Val.elems?, evalBin, nats]
    have heff : effBlock builderEnv (vs.set "node" (walkNode (n, hrel, sub))) decBody =
        (if hrel then [] else [Val.tuple [.str "setattr", walkOp (n, hrel, sub), .str "relation_link", selfLink]]) := by
      cases hrel <;>
      simp [decBody, effBlock, effStmt, execBlock, exec, eval, evalList, vars_get_set_same, get_set_ne, hs, hr, walkNode, walkOp, compSelf, selfLink,
        getAttr, lookupField, Val.truthy, Val.isErr, builderEnv, builtin, Val.elems?, evalBin, nats]
    have hs' : ((vs.set "node" (walkNode (n, hrel, sub))).set "result" (nats (acc ++ sub))).get "self" = compSelf all := by
      simp [get_set_ne, hs]
    have hr' : ((vs.set "node" (walkNode (n, hrel, sub))).set "result" (nats (acc ++ sub))).get "result" = nats (acc ++ sub) := by
      simp [vars_get_set_same]
    obtain ⟨⟨vs', h1, h2, h3⟩, h4⟩ := ih _ (acc ++ sub) hs' hr'
    refine ⟨⟨vs', ?_, h2, ?_⟩, ?_⟩
    · simp only [List.map_cons, forLoop, hstep]; exact h1
    · simpa [List.append_assoc] using h3
    · simp only [List.map_cons, forEff, hstep, heff, h4, decEffects, List.flatMap_cons]

/-- loops whose body always continues, keeps an invariant of the store, and performs effects that depend on the element only. -/
theorem loop_generic (env : Env) (I : Vars → Prop) (body : List Stmt) (x : String) (E : Val → List Val) :
    ∀ (vals : List Val) (vs : Vars), I vs →
      (∀ vs v, I vs → v ∈ vals → ∃ vs1, execBlock env (vs.set x v) body = .cont vs1 ∧ I vs1 ∧ effBlock env (vs.set x v) body = E v) →
      ∃ vs', forLoop (fun vs' v => execBlock env (vs'.set x v) body) vals vs = .cont vs' ∧ I vs' ∧
        forEff (fun vs' v => execBlock env (vs'.set x v) body) (fun vs' v => effBlock env (vs'.set x v) body) vals vs =
          vals.flatMap E := by
  intro vals
  induction vals with
  | nil => intro vs hI _; exact ⟨vs, rfl, hI, rfl⟩
  | cons v rest ih =>
    intro vs hI h
    obtain ⟨vs1, h1, h2, h3⟩ := h vs v hI List.mem_cons_self
    obtain ⟨vs', g1, g2, g3⟩ := ih vs1 h2 (fun vs v hv hm => h vs v hv (List.mem_cons_of_mem _ hm))
    refine ⟨vs', ?_, g2, ?_⟩
    · simp only [forLoop, h1]; exact g1
    · simp only [forEff, h1, h3, g3, List.flatMap_cons]

theorem effBlock_for (env : Env) (vs : Vars) (x : String) (iter : Expr) (body rest : List Stmt) (vals : List Val)
    (h : (eval env vs iter).elems? = some vals) :
    effBlock env vs (.for_ x iter body :: rest) =
      forEff (fun vs' v => execBlock env (vs'.set x v) body) (fun vs' v => effBlock env (vs'.set x v) body) vals vs ++
      (match forLoop (fun vs' v => execBlock env (vs'.set x v) body) vals vs with
       | .cont vs' => effBlock env vs' rest
       | _ => []) := by
  simp only [effBlock, effStmt, exec, h]
  cases forLoop (fun vs' v => execBlock env (vs'.set x v) body) vals vs <;> rfl

/-- **`decomposed_operations`**: hands the enclosing link to every relation-less node (an effect on that operation), and returns
    the concatenation of the nodes' own decompositions — the step of `World.decomposed`. -/
theorem decomposed_matches_source (nodes : List (Nat × Bool × List Nat)) :
    callFn builderEnv Composite_decomposed [compSelf nodes] = nats ((nodes.map (·.2.2)).flatten) ∧
    callEffects builderEnv Composite_decomposed [compSelf nodes] = decEffects nodes := by
  have hbodyEq : Composite_decomposed.body = [.assign "result" (.list []),
      .for_ "node" (.mcall (.attr (.name "self") "_circuit_graph") "get_node_iterator" []) decBody, .ret (.name "result")] := rfl
  let vs0 : Vars := bindParams Composite_decomposed.params [compSelf nodes] []
  let vs1 : Vars := vs0.set "result" (.list [])
  have hs1 : vs1.get "self" = compSelf nodes := by simp [vs1, vs0, Composite_decomposed, bindParams, Vars.get, Vars.set]
  have hr1 : vs1.get "result" = nats [] := by simp [vs1, vars_get_set_same, nats]
  have hiter : (eval builderEnv vs1 (.mcall (.attr (.name "self") "_circuit_graph") "get_node_iterator" [])).elems? =
      some (nodes.map walkNode) := by
    simp [eval, evalList, hs1, compSelf, getAttr, lookupField, builderEnv, Val.elems?]
  have h0 : exec builderEnv vs0 (.assign "result" (.list [])) = .cont vs1 := by
    simp [vs1, exec, eval, evalList, Val.isErr]
  obtain ⟨⟨vs', l1, l2, l3⟩, l4⟩ := dec_loop nodes nodes vs1 [] hs1 hr1
  constructor
  · unfold callFn
    rw [show (Composite_decomposed.params.length != [compSelf nodes].length) = false from rfl, hbodyEq]
    show (match execBlock builderEnv vs0 _ with | .ret v => v | .cont _ => Val.none | .raised what => _) = _
    rw [execBlock, h0]
    simp only []
    rw [execBlock_for _ _ _ _ _ _ _ hiter, l1]
    simp [execBlock, exec, eval, l3]
  · unfold callEffects
    rw [show (Composite_decomposed.params.length != [compSelf nodes].length) = false from rfl, hbodyEq]
    show effBlock builderEnv vs0 _ = _
    rw [effBlock, h0]
    simp only [effStmt, List.nil_append]
    rw [effBlock_for _ _ _ _ _ _ _ hiter, l1, l4]
    simp [effBlock, effStmt, exec]


theorem block_step (env : Env) (vs vs' : Vars) (s : Stmt) (ss : List Stmt)
    (h : exec env vs s = .cont vs') (he : effStmt env vs s = []) :
    execBlock env vs (s :: ss) = execBlock env vs' ss ∧ effBlock env vs (s :: ss) = effBlock env vs' ss := by
  constructor
  · rw [execBlock, h]
  · rw [effBlock, h, he]; rfl

theorem flatMap_single {α β} (f : α → β) (l : List α) : l.flatMap (fun a => [f a]) = l.map f := by
  induction l with
  | nil => rfl
  | cons a as ih => simp [List.flatMap_cons, ih]

theorem flatMap_const {α β} (x : β) (l : List α) : l.flatMap (fun _ => [x]) = List.replicate l.length x := by
  induction l with
  | nil => rfl
  | cons a as ih => simp [List.flatMap_cons, List.replicate_succ, ih]

theorem effBlock_cons_cont (env : Env) (vs vs' : Vars) (s : Stmt) (ss : List Stmt) (h : exec env vs s = .cont vs') :
    effBlock env vs (s :: ss) = effStmt env vs s ++ effBlock env vs' ss := by
  rw [effBlock, h]

/-! #### `extend` -/

/-- a node of `other`: operation `n` with `has_relation = hr`. -/
def extOp (p : Nat × Bool) : Val := .obj "Operation" p.1 [("has_relation", .bool p.2)]
def extNode (p : Nat × Bool) : Val := .obj "Node" (1000 + p.1) [("operation", extOp p)]
/-- a leaf node of `self`'s graph (`is_root` false) / the root node as only "leaf" of an empty graph. -/
def leafNode (n : Nat) : Val := .obj "Node" (2000 + n) [("operation", .obj "Operation" n []), ("is_root", .bool false)]
def rootLeaf : Val := .obj "Node" 999 [("is_root", .bool true)]

/-- `leaf_nodes` of the graph: the root alone iff the graph is empty (`lv = []`), else the leaves. -/
def leafNodesVal (lv : List Nat) : Val := if lv.isEmpty then .list [rootLeaf] else .list (lv.map leafNode)

def extSelf (lv : List Nat) : Val :=
  .obj "CircuitCompositeOperation" 1 [("_circuit_graph", .obj "Graph" 2 [("leaf_nodes", leafNodesVal lv)])]
def extOther (nodes : List (Nat × Bool)) : Val :=
  .obj "CircuitCompositeOperation" 3 [("_circuit_graph", .obj "Graph" 4 [("get_node_iterator()", .list (nodes.map extNode))])]

/-- the relation the appended nodes get: none for an empty graph, else the group link to the leaves (LATEST, FOLLOWED_BY). -/
def extRelation (lv : List Nat) : Val :=
  if lv.isEmpty then .tuple [.str "RelationLink.no_relation"]
  else .tuple [.str "MultiRelationLink", .tuple [.str "_reference_nodes", .list (lv.map (fun n => Val.obj "Operation" n []))],
               .tuple [.str "_relation_to_group", .enum "MultiRelationType" "LATEST"],
               .tuple [.str "_relation_type", .enum "RelationType" "FOLLOWED_BY"]]

theorem extRelation_ok (lv : List Nat) : (extRelation lv).isErr = false := by
  unfold extRelation; split <;> rfl

def extEffects (lv : List Nat) (nodes : List (Nat × Bool)) : List Val :=
  nodes.flatMap (fun p =>
    (if p.2 then [] else [Val.tuple [.str "setattr", extOp p, .str "relation_link", extRelation lv]]) ++
    [Val.tuple [.str "call", extSelf lv, .str "add", extOp p]])

def extBody : List Stmt :=
  [.ifs (.not (.attr (.attr (.name "node") "operation") "has_relation"))
      [.setattr (.attr (.name "node") "operation") "relation_link" (.name "relation")] [],
   .expr (.mcall (.name "self") "add" [.attr (.name "node") "operation"])]

theorem extend_matches_source (lv : List Nat) (nodes : List (Nat × Bool)) :
    callEffects builderEnv Composite_extend [extSelf lv, extOther nodes] = extEffects lv nodes := by
  have hbodyEq : Composite_extend.body =
      [.assign "leaf_nodes" (.attr (.attr (.name "self") "_circuit_graph") "leaf_nodes"),
       .assign "relation" (.call "RelationLink.no_relation" []),
       .assign "root_is_leaf" (.and (.cmp .eq (.call "len" [.name "leaf_nodes"]) (.int 1)) (.attr (.index (.name "leaf_nodes") 0) "is_root")),
       .ifs (.not (.name "root_is_leaf")) [.assign "relation" (.call "MultiRelationLink"
          [.tuple [.str "_reference_nodes", .comp (.attr (.name "node") "operation") "node" (.name "leaf_nodes")],
           .tuple [.str "_relation_to_group", .enumc "MultiRelationType" "LATEST"],
           .tuple [.str "_relation_type", .enumc "RelationType" "FOLLOWED_BY"]])] [],
       .for_ "node" (.mcall (.attr (.name "other") "_circuit_graph") "get_node_iterator" []) extBody,
       .ret (.name "self")] := rfl
  let vs0 : Vars := bindParams Composite_extend.params [extSelf lv, extOther nodes] []
  have hself0 : vs0.get "self" = extSelf lv := by simp [vs0, Composite_extend, bindParams, Vars.get, Vars.set]
  have hother0 : vs0.get "other" = extOther nodes := by simp [vs0, Composite_extend, bindParams, Vars.get, Vars.set]
  -- the four statements before the loop: the store afterwards binds `relation` to `extRelation lv`
  have hpre : ∃ vs4, vs4.get "self" = extSelf lv ∧ vs4.get "other" = extOther nodes ∧ vs4.get "relation" = extRelation lv ∧
      effBlock builderEnv vs0 Composite_extend.body =
        effBlock builderEnv vs4 [.for_ "node" (.mcall (.attr (.name "other") "_circuit_graph") "get_node_iterator" []) extBody,
          .ret (.name "self")] := by
    rw [hbodyEq]
    -- statement 1 and 2
    let vs1 := vs0.set "leaf_nodes" (leafNodesVal lv)
    let vs2 := vs1.set "relation" (.tuple [.str "RelationLink.no_relation"])
    have e1 : exec builderEnv vs0 (.assign "leaf_nodes" (.attr (.attr (.name "self") "_circuit_graph") "leaf_nodes")) = .cont vs1 := by
      have : (leafNodesVal lv).isErr = false := by unfold leafNodesVal; split <;> rfl
      simp [vs1, exec, eval, hself0, extSelf, getAttr, lookupField, this]
    have e2 : exec builderEnv vs1 (.assign "relation" (.call "RelationLink.no_relation" [])) = .cont vs2 := by
      simp [vs2, exec, eval, evalList, builtin, builderEnv, Val.isErr]
    have s1 := block_step builderEnv vs0 vs1 _ [.assign "relation" (.call "RelationLink.no_relation" []),
       .assign "root_is_leaf" (.and (.cmp .eq (.call "len" [.name "leaf_nodes"]) (.int 1)) (.attr (.index (.name "leaf_nodes") 0) "is_root")),
       .ifs (.not (.name "root_is_leaf")) [.assign "relation" (.call "MultiRelationLink"
          [.tuple [.str "_reference_nodes", .comp (.attr (.name "node") "operation") "node" (.name "leaf_nodes")],
           .tuple [.str "_relation_to_group", .enumc "MultiRelationType" "LATEST"],
           .tuple [.str "_relation_type", .enumc "RelationType" "FOLLOWED_BY"]])] [],
       .for_ "node" (.mcall (.attr (.name "other") "_circuit_graph") "get_node_iterator" []) extBody,
       .ret (.name "self")] e1 rfl
    have s2 := block_step builderEnv vs1 vs2 _ [
       .assign "root_is_leaf" (.and (.cmp .eq (.call "len" [.name "leaf_nodes"]) (.int 1)) (.attr (.index (.name "leaf_nodes") 0) "is_root")),
       .ifs (.not (.name "root_is_leaf")) [.assign "relation" (.call "MultiRelationLink"
          [.tuple [.str "_reference_nodes", .comp (.attr (.name "node") "operation") "node" (.name "leaf_nodes")],
           .tuple [.str "_relation_to_group", .enumc "MultiRelationType" "LATEST"],
           .tuple [.str "_relation_type", .enumc "RelationType" "FOLLOWED_BY"]])] [],
       .for_ "node" (.mcall (.attr (.name "other") "_circuit_graph") "get_node_iterator" []) extBody,
       .ret (.name "self")] e2 rfl
    rw [s1.2, s2.2]
    have hln : vs2.get "leaf_nodes" = leafNodesVal lv := by simp [vs2, vs1, get_set_ne, vars_get_set_same]
    cases lv with
    | nil =>
      let vs3 := vs2.set "root_is_leaf" (.bool true)
      have e3 : exec builderEnv vs2 (.assign "root_is_leaf" (.and (.cmp .eq (.call "len" [.name "leaf_nodes"]) (.int 1))
          (.attr (.index (.name "leaf_nodes") 0) "is_root"))) = .cont vs3 := by
        simp [vs3, exec, eval, evalList, hln, leafNodesVal, rootLeaf, builtin, Val.elems?, evalCmp, Val.beq, Val.truthy, indexVal,
          getAttr, lookupField, Val.isErr]
      have e4 : exec builderEnv vs3 (.ifs (.not (.name "root_is_leaf")) [.assign "relation" (.call "MultiRelationLink"
          [.tuple [.str "_reference_nodes", .comp (.attr (.name "node") "operation") "node" (.name "leaf_nodes")],
           .tuple [.str "_relation_to_group", .enumc "MultiRelationType" "LATEST"],
           .tuple [.str "_relation_type", .enumc "RelationType" "FOLLOWED_BY"]])] []) = .cont vs3 := by
        simp [vs3, exec, eval, vars_get_set_same, Val.truthy, execBlock]
      have f4 : effStmt builderEnv vs3 (.ifs (.not (.name "root_is_leaf")) [.assign "relation" (.call "MultiRelationLink"
          [.tuple [.str "_reference_nodes", .comp (.attr (.name "node") "operation") "node" (.name "leaf_nodes")],
           .tuple [.str "_relation_to_group", .enumc "MultiRelationType" "LATEST"],
           .tuple [.str "_relation_type", .enumc "RelationType" "FOLLOWED_BY"]])] []) = [] := by
        simp [vs3, effStmt, eval, vars_get_set_same, Val.truthy, effBlock]
      have s3 := block_step builderEnv vs2 vs3 _ [.ifs (.not (.name "root_is_leaf")) [.assign "relation" (.call "MultiRelationLink"
          [.tuple [.str "_reference_nodes", .comp (.attr (.name "node") "operation") "node" (.name "leaf_nodes")],
           .tuple [.str "_relation_to_group", .enumc "MultiRelationType" "LATEST"],
           .tuple [.str "_relation_type", .enumc "RelationType" "FOLLOWED_BY"]])] [],
         .for_ "node" (.mcall (.attr (.name "other") "_circuit_graph") "get_node_iterator" []) extBody, .ret (.name "self")] e3 rfl
      have s4 := block_step builderEnv vs3 vs3 _ [
         .for_ "node" (.mcall (.attr (.name "other") "_circuit_graph") "get_node_iterator" []) extBody, .ret (.name "self")] e4 f4
      refine ⟨vs3, ?_, ?_, ?_, ?_⟩
      · simp [vs3, vs2, vs1, get_set_ne, hself0]
      · simp [vs3, vs2, vs1, get_set_ne, hother0]
      · simp [vs3, vs2, get_set_ne, vars_get_set_same, extRelation]
      · rw [s3.2, s4.2]
    | cons a rest =>
      let vs3 := vs2.set "root_is_leaf" (.bool false)
      have e3 : exec builderEnv vs2 (.assign "root_is_leaf" (.and (.cmp .eq (.call "len" [.name "leaf_nodes"]) (.int 1))
          (.attr (.index (.name "leaf_nodes") 0) "is_root"))) = .cont vs3 := by
        cases rest with
        | nil =>
          simp [vs3, exec, eval, evalList, hln, leafNodesVal, leafNode, builtin, Val.elems?, evalCmp, Val.beq, Val.truthy, indexVal,
            getAttr, lookupField, Val.isErr]
        | cons b more =>
          have hl2 : (((more.length : Int) + 1 + 1) == 1) = false := by rw [beq_eq_false_iff_ne]; omega
          simp [vs3, exec, eval, evalList, hln, leafNodesVal, leafNode, builtin, Val.elems?, evalCmp, Val.beq, Val.truthy, indexVal,
            getAttr, lookupField, Val.isErr, hl2]
      let vs4 := vs3.set "relation" (extRelation (a :: rest))
      have hln3 : vs3.get "leaf_nodes" = .list ((a :: rest).map leafNode) := by
        simp [vs3, get_set_ne, hln, leafNodesVal]
      have hcomp : eval builderEnv vs3 (.comp (.attr (.name "node") "operation") "node" (.name "leaf_nodes")) =
          .list ((a :: rest).map (fun n => Val.obj "Operation" n [])) := by
        simp [eval, hln3, Val.elems?, List.map_map, Function.comp, vars_get_set_same, leafNode, getAttr, lookupField]
      have e4 : exec builderEnv vs3 (.ifs (.not (.name "root_is_leaf")) [.assign "relation" (.call "MultiRelationLink"
          [.tuple [.str "_reference_nodes", .comp (.attr (.name "node") "operation") "node" (.name "leaf_nodes")],
           .tuple [.str "_relation_to_group", .enumc "MultiRelationType" "LATEST"],
           .tuple [.str "_relation_type", .enumc "RelationType" "FOLLOWED_BY"]])] []) = .cont vs4 := by
        have hr : vs3.get "root_is_leaf" = .bool false := by simp [vs3, vars_get_set_same]
        simp [vs4, exec, eval, evalList, execBlock, hr, hln3, Val.truthy, Val.elems?, builtin, builderEnv, extRelation, Val.isErr,
          vars_get_set_same, leafNode, getAttr, lookupField, Function.comp_def, List.map_map]
      have f4 : effStmt builderEnv vs3 (.ifs (.not (.name "root_is_leaf")) [.assign "relation" (.call "MultiRelationLink"
          [.tuple [.str "_reference_nodes", .comp (.attr (.name "node") "operation") "node" (.name "leaf_nodes")],
           .tuple [.str "_relation_to_group", .enumc "MultiRelationType" "LATEST"],
           .tuple [.str "_relation_type", .enumc "RelationType" "FOLLOWED_BY"]])] []) = [] := by
        have hr : vs3.get "root_is_leaf" = .bool false := by simp [vs3, vars_get_set_same]
        simp only [effStmt, eval, hr, Val.truthy, Bool.not_false, effBlock, List.nil_append]
        cases exec builderEnv vs3 _ <;> rfl
      have s3 := block_step builderEnv vs2 vs3 _ [.ifs (.not (.name "root_is_leaf")) [.assign "relation" (.call "MultiRelationLink"
          [.tuple [.str "_reference_nodes", .comp (.attr (.name "node") "operation") "node" (.name "leaf_nodes")],
           .tuple [.str "_relation_to_group", .enumc "MultiRelationType" "LATEST"],
           .tuple [.str "_relation_type", .enumc "RelationType" "FOLLOWED_BY"]])] [],
         .for_ "node" (.mcall (.attr (.name "other") "_circuit_graph") "get_node_iterator" []) extBody, .ret (.name "self")] e3 rfl
      have s4 := block_step builderEnv vs3 vs4 _ [
         .for_ "node" (.mcall (.attr (.name "other") "_circuit_graph") "get_node_iterator" []) extBody, .ret (.name "self")] e4 f4
      refine ⟨vs4, ?_, ?_, ?_, ?_⟩
      · simp [vs4, vs3, vs2, vs1, get_set_ne, hself0]
      · simp [vs4, vs3, vs2, vs1, get_set_ne, hother0]
      · simp [vs4, vars_get_set_same]
      · rw [s3.2, s4.2]
  obtain ⟨vs4, k1, k2, k3, k4⟩ := hpre
  unfold callEffects
  rw [show (Composite_extend.params.length != [extSelf lv, extOther nodes].length) = false from rfl]
  show effBlock builderEnv vs0 Composite_extend.body = _
  rw [k4]
  have hiter : (eval builderEnv vs4 (.mcall (.attr (.name "other") "_circuit_graph") "get_node_iterator" [])).elems? =
      some (nodes.map extNode) := by
    simp [eval, evalList, k2, extOther, getAttr, lookupField, builderEnv, Val.elems?]
  rw [effBlock_for _ _ _ _ _ _ _ hiter]
  obtain ⟨vs', g1, _, g3⟩ := loop_generic builderEnv
    (fun vs => vs.get "self" = extSelf lv ∧ vs.get "relation" = extRelation lv) extBody "node"
    (fun v => match v with
      | .obj _ _ [("operation", .obj c n [("has_relation", .bool hr)])] =>
          (if hr then [] else [Val.tuple [.str "setattr", .obj c n [("has_relation", .bool hr)], .str "relation_link", extRelation lv]]) ++
          [Val.tuple [.str "call", extSelf lv, .str "add", .obj c n [("has_relation", .bool hr)]]]
      | _ => [])
    (nodes.map extNode) vs4 ⟨k1, k3⟩
    (by
      intro vs v hI hv
      obtain ⟨p, _, rfl⟩ := List.mem_map.mp hv
      obtain ⟨n, hr⟩ := p
      refine ⟨vs.set "node" (extNode (n, hr)), ?_, ?_, ?_⟩
      · cases hr <;> cases lv <;>
        simp [extBody, execBlock, exec, eval, evalList, vars_get_set_same, get_set_ne, hI.1, hI.2, extNode, extOp, getAttr,
          lookupField, Val.truthy, extRelation, extSelf, Val.isErr]
      · exact ⟨by simp [get_set_ne, hI.1], by simp [get_set_ne, hI.2]⟩
      · cases hr <;> cases lv <;>
        simp [extBody, effBlock, effStmt, execBlock, exec, eval, evalList, vars_get_set_same, get_set_ne, hI.1, hI.2, extNode,
          extOp, getAttr, lookupField, Val.truthy, Val.isErr, extRelation, extSelf])
  rw [g3, g1]
  simp only [effBlock, effStmt, exec, List.append_nil]
  simp only [extEffects, List.flatMap_map]
  apply congrArg (fun f => List.flatMap f nodes)
  funext p
  obtain ⟨n, hr⟩ := p
  cases hr <;> simp [extNode, extOp]

/-! #### `apply_modifiers_to_self`, `repeat`, `apply_flatten_to_self`, `add`, `copy`, `get_corresponding_node` -/

def plainNode (n : Nat) : Val := .obj "Node" (1000 + n) [("operation", .obj "Operation" n [])]
def plainOp (n : Nat) : Val := .obj "Operation" n []

def amSelf (count : Int) (nodes : List Nat) : Val :=
  .obj "CircuitCompositeOperation" 1
    [("nr_of_repetitions", .int count), ("_circuit_graph", .obj "Graph" 2 [("get_node_iterator()", .list (nodes.map plainNode))])]

/-- **`apply_modifiers_to_self`**: `repeat(times = count)`, then the count becomes `FixedRepetitionStrategy(1)`, then every node of
    the (now extended) graph is asked to apply its own modifiers — the three phases of `World.applyModifiers`. -/
theorem apply_modifiers_matches_source (count : Int) (nodes : List Nat) :
    callEffects builderEnv Composite_apply_modifiers [amSelf count nodes] =
      [Val.tuple [.str "call", amSelf count nodes, .str "repeat", .int count],
       Val.tuple [.str "setattr", amSelf count nodes, .str "repetition_strategy",
                  .tuple [.str "FixedRepetitionStrategy", .tuple [.str "repetitions", .int 1]]]] ++
      nodes.map (fun n => Val.tuple [.str "call", plainOp n, .str "apply_modifiers_to_self"]) := by
  have hbodyEq : Composite_apply_modifiers.body =
      [.expr (.mcall (.name "self") "repeat" [.attr (.name "self") "nr_of_repetitions"]),
       .setattr (.name "self") "repetition_strategy" (.call "FixedRepetitionStrategy" [.tuple [.str "repetitions", .int 1]]),
       .for_ "node" (.mcall (.attr (.name "self") "_circuit_graph") "get_node_iterator" [])
         [.expr (.mcall (.attr (.name "node") "operation") "apply_modifiers_to_self" [])],
       .ret (.name "self")] := rfl
  let vs0 : Vars := bindParams Composite_apply_modifiers.params [amSelf count nodes] []
  have hself0 : vs0.get "self" = amSelf count nodes := by simp [vs0, Composite_apply_modifiers, bindParams, Vars.get, Vars.set]
  have hiter : (eval builderEnv vs0 (.mcall (.attr (.name "self") "_circuit_graph") "get_node_iterator" [])).elems? =
      some (nodes.map plainNode) := by
    simp [eval, evalList, hself0, amSelf, getAttr, lookupField, builderEnv, Val.elems?]
  obtain ⟨vs', g1, _, g3⟩ := loop_generic builderEnv (fun _ => True)
    [.expr (.mcall (.attr (.name "node") "operation") "apply_modifiers_to_self" [])] "node"
    (fun v => match v with
      | .obj _ _ [("operation", op)] => [Val.tuple [.str "call", op, .str "apply_modifiers_to_self"]]
      | _ => [])
    (nodes.map plainNode) vs0 trivial
    (by
      intro vs v _ hv
      obtain ⟨n, _, rfl⟩ := List.mem_map.mp hv
      refine ⟨vs.set "node" (plainNode n), ?_, trivial, ?_⟩
      · simp [execBlock, exec, eval, evalList, vars_get_set_same, plainNode, getAttr, lookupField, Val.isErr]
      · simp [effBlock, effStmt, execBlock, exec, eval, evalList, vars_get_set_same, plainNode, getAttr, lookupField, Val.isErr])
  unfold callEffects
  rw [show (Composite_apply_modifiers.params.length != [amSelf count nodes].length) = false from rfl, hbodyEq]
  show effBlock builderEnv vs0 _ = _
  have e1 : exec builderEnv vs0 (.expr (.mcall (.name "self") "repeat" [.attr (.name "self") "nr_of_repetitions"])) = .cont vs0 := by
    simp [exec, eval, evalList, hself0, amSelf, getAttr, lookupField, Val.isErr]
  have e2 : exec builderEnv vs0 (.setattr (.name "self") "repetition_strategy"
      (.call "FixedRepetitionStrategy" [.tuple [.str "repetitions", .int 1]])) = .cont vs0 := by
    simp [exec, eval, evalList, hself0, amSelf, builtin, builderEnv, Val.isErr]
  rw [effBlock_cons_cont _ _ _ _ _ e1, effBlock_cons_cont _ _ _ _ _ e2, effBlock_for _ _ _ _ _ _ _ hiter, g1, g3]
  simp [effStmt, eval, evalList, hself0, amSelf, getAttr, lookupField, builtin, builderEnv, effBlock, exec,
    List.flatMap_map, Function.comp_def, plainNode, plainOp, flatMap_single]

/-- the fresh copy handed to `extend` in every round (an opaque token). -/
def origCopy : Val := .obj "CircuitCompositeOperation" 10 []

/-- **`repeat(times)`**: one pristine copy, then `times - 1` times "extend self with a copy of the pristine copy". -/
theorem repeat_matches_source (times : Nat) :
    callEffects builderEnv Composite_repeat
        [.obj "CircuitCompositeOperation" 1 [("copy()", .obj "CircuitCompositeOperation" 9 [("copy()", origCopy)])], .int times] =
      List.replicate (times - 1)
        (Val.tuple [.str "call", .obj "CircuitCompositeOperation" 1 [("copy()", .obj "CircuitCompositeOperation" 9 [("copy()", origCopy)])],
                    .str "extend", origCopy]) := by
  let selfV : Val := .obj "CircuitCompositeOperation" 1 [("copy()", .obj "CircuitCompositeOperation" 9 [("copy()", origCopy)])]
  have hbodyEq : Composite_repeat.body =
      [.assign "original_self" (.mcall (.name "self") "copy" []),
       .for_ "i" (.call "range" [.bin .sub (.name "times") (.int 1)])
         [.expr (.mcall (.name "self") "extend" [.mcall (.name "original_self") "copy" []])],
       .ret (.name "self")] := rfl
  let vs0 : Vars := bindParams Composite_repeat.params [selfV, .int times] []
  let vs1 : Vars := vs0.set "original_self" (.obj "CircuitCompositeOperation" 9 [("copy()", origCopy)])
  have hself1 : vs1.get "self" = selfV := by simp [vs1, vs0, Composite_repeat, bindParams, Vars.get, Vars.set]
  have horig1 : vs1.get "original_self" = .obj "CircuitCompositeOperation" 9 [("copy()", origCopy)] := by
    simp [vs1, vars_get_set_same]
  have e1 : exec builderEnv vs0 (.assign "original_self" (.mcall (.name "self") "copy" [])) = .cont vs1 := by
    simp [vs1, vs0, selfV, exec, eval, evalList, Composite_repeat, bindParams, Vars.get, Vars.set, builderEnv, lookupField, Val.isErr]
  have hiter : (eval builderEnv vs1 (.call "range" [.bin .sub (.name "times") (.int 1)])).elems? =
      some (rangeVals 0 ((times : Int) - 1)) := by
    simp [vs1, vs0, eval, evalList, Composite_repeat, bindParams, Vars.get, Vars.set, evalBin, Val.asInt?, intBin, builtin, Val.elems?]
  obtain ⟨vs', g1, _, g3⟩ := loop_generic builderEnv
    (fun vs => vs.get "self" = selfV ∧ vs.get "original_self" = .obj "CircuitCompositeOperation" 9 [("copy()", origCopy)])
    [.expr (.mcall (.name "self") "extend" [.mcall (.name "original_self") "copy" []])] "i"
    (fun _ => [Val.tuple [.str "call", selfV, .str "extend", origCopy]])
    (rangeVals 0 ((times : Int) - 1)) vs1 ⟨hself1, horig1⟩
    (by
      intro vs v hI _
      refine ⟨vs.set "i" v, ?_, ⟨by simp [get_set_ne, hI.1], by simp [get_set_ne, hI.2]⟩, ?_⟩
      · simp [execBlock, exec, eval, evalList, get_set_ne, hI.1, hI.2, selfV, builderEnv, lookupField, Val.isErr, origCopy]
      · simp [effBlock, effStmt, execBlock, exec, eval, evalList, get_set_ne, hI.1, hI.2, selfV, builderEnv, lookupField, Val.isErr, origCopy])
  unfold callEffects
  rw [show (Composite_repeat.params.length != [selfV, Val.int times].length) = false from rfl, hbodyEq]
  show effBlock builderEnv vs0 _ = _
  rw [effBlock_cons_cont _ _ _ _ _ e1, effBlock_for _ _ _ _ _ _ _ hiter, g1, g3]
  simp only [effStmt, effBlock, exec, List.nil_append, List.append_nil]
  have hlen : (rangeVals 0 ((times : Int) - 1)).length = times - 1 := by
    simp [rangeVals]
  rw [flatMap_const, hlen]

/-- **`apply_flatten_to_self`**: a fresh empty graph; `add_to_graph` of every operation of the (mutating) listing, in order;
    then the fresh graph replaces the old one — `World.flatten`. -/
theorem flatten_matches_source (ops : List Nat) :
    callEffects builderEnv Composite_flatten
        [.obj "CircuitCompositeOperation" 1 [("decomposed_operations()", .list (ops.map plainOp))]] =
      ops.map (fun n => Val.tuple [.str "call", .none, .str "CircuitGraphBranch.add_to_graph",
                 .tuple [.str "graph", .tuple [.str "CircuitGraphBranch"]], .tuple [.str "operation", plainOp n]]) ++
      [Val.tuple [.str "setattr", .obj "CircuitCompositeOperation" 1 [("decomposed_operations()", .list (ops.map plainOp))],
                  .str "_circuit_graph", .tuple [.str "CircuitGraphBranch"]]] := by
  let selfV : Val := .obj "CircuitCompositeOperation" 1 [("decomposed_operations()", .list (ops.map plainOp))]
  have hbodyEq : Composite_flatten.body =
      [.assign "flatten_circuit_graph" (.call "CircuitGraphBranch" []),
       .for_ "operation" (.call "tqdm" [.mcall (.name "self") "decomposed_operations" [], .str "Flatten Circuit Graph"])
         [.expr (.call "CircuitGraphBranch.add_to_graph" [.tuple [.str "graph", .name "flatten_circuit_graph"],
            .tuple [.str "operation", .name "operation"]])],
       .setattr (.name "self") "_circuit_graph" (.name "flatten_circuit_graph"),
       .ret (.name "self")] := rfl
  let vs0 : Vars := bindParams Composite_flatten.params [selfV] []
  let vs1 : Vars := vs0.set "flatten_circuit_graph" (.tuple [.str "CircuitGraphBranch"])
  have e1 : exec builderEnv vs0 (.assign "flatten_circuit_graph" (.call "CircuitGraphBranch" [])) = .cont vs1 := by
    simp [vs1, exec, eval, evalList, builtin, builderEnv, Val.isErr]
  have hself1 : vs1.get "self" = selfV := by simp [vs1, vs0, Composite_flatten, bindParams, Vars.get, Vars.set]
  have hg1 : vs1.get "flatten_circuit_graph" = .tuple [.str "CircuitGraphBranch"] := by simp [vs1, vars_get_set_same]
  have hiter : (eval builderEnv vs1 (.call "tqdm" [.mcall (.name "self") "decomposed_operations" [], .str "Flatten Circuit Graph"])).elems? =
      some (ops.map plainOp) := by
    simp [eval, evalList, hself1, selfV, builtin, builderEnv, lookupField, Val.elems?]
  obtain ⟨vs', g1, g2, g3⟩ := loop_generic builderEnv
    (fun vs => vs.get "self" = selfV ∧ vs.get "flatten_circuit_graph" = .tuple [.str "CircuitGraphBranch"])
    [.expr (.call "CircuitGraphBranch.add_to_graph" [.tuple [.str "graph", .name "flatten_circuit_graph"],
            .tuple [.str "operation", .name "operation"]])] "operation"
    (fun v => [Val.tuple [.str "call", .none, .str "CircuitGraphBranch.add_to_graph",
                 .tuple [.str "graph", .tuple [.str "CircuitGraphBranch"]], .tuple [.str "operation", v]]])
    (ops.map plainOp) vs1 ⟨hself1, hg1⟩
    (by
      intro vs v hI hv
      obtain ⟨n, _, rfl⟩ := List.mem_map.mp hv
      refine ⟨vs.set "operation" (plainOp n), ?_, ⟨by simp [get_set_ne, hI.1], by simp [get_set_ne, hI.2]⟩, ?_⟩
      · simp [execBlock, exec, eval, evalList, vars_get_set_same, get_set_ne, hI.2, plainOp, Val.isErr]
      · simp [effBlock, effStmt, execBlock, exec, eval, evalList, vars_get_set_same, get_set_ne, hI.2, plainOp, Val.isErr])
  unfold callEffects
  rw [show (Composite_flatten.params.length != [selfV].length) = false from rfl, hbodyEq]
  show effBlock builderEnv vs0 _ = _
  rw [effBlock_cons_cont _ _ _ _ _ e1, effBlock_for _ _ _ _ _ _ _ hiter, g1, g3]
  simp [effStmt, effBlock, exec, eval, g2.1, g2.2, selfV, Val.isErr, List.flatMap_map, Function.comp_def, flatMap_single]

/-- **`CircuitCompositeOperation.add`**: the graph attribute is replaced by what `add_to_graph(graph, operation)` returns. -/
theorem add_matches_source (g op : Val) (hg : g = .obj "Graph" 2 []) (hop : op = .obj "Operation" 7 []) :
    callEffects builderEnv Composite_add [.obj "CircuitCompositeOperation" 1 [("_circuit_graph", g)], op] =
      [Val.tuple [.str "setattr", .obj "CircuitCompositeOperation" 1 [("_circuit_graph", g)], .str "_circuit_graph",
        .tuple [.str "CircuitGraphBranch.add_to_graph", .tuple [.str "graph", g], .tuple [.str "operation", op]]]] := by
  subst hg hop
  simp [callEffects, Composite_add, effBlock, effStmt, exec, eval, evalList, bindParams, Vars.set, Vars.get, getAttr, lookupField,
    builtin, builderEnv, Val.isErr]

/-- **`get_corresponding_node`**: the first node whose operation IS the given one (identity), else `None`. -/
theorem get_corresponding_node_matches_source (nodes : List Nat) (o : Nat) :
    callFn builderEnv Graph_get_corresponding_node
        [.obj "Graph" 2 [("get_node_iterator()", .list (nodes.map plainNode))], plainOp o] =
      (match nodes.find? (fun n => n == o) with
       | some n => plainNode n
       | none => .none) := by
  have key : ∀ (l : List Nat) (vs : Vars), vs.get "operation" = plainOp o →
      (match l.find? (fun n => n == o) with
       | some n => forLoop (fun vs' v => execBlock builderEnv (vs'.set "node" v)
            [.ifs (.cmp .is_ (.name "operation") (.attr (.name "node") "operation")) [.ret (.name "node")] []])
            (l.map plainNode) vs = .ret (plainNode n)
       | none => ∃ vs', forLoop (fun vs' v => execBlock builderEnv (vs'.set "node" v)
            [.ifs (.cmp .is_ (.name "operation") (.attr (.name "node") "operation")) [.ret (.name "node")] []])
            (l.map plainNode) vs = .cont vs') := by
    intro l
    induction l with
    | nil => intro vs _; exact ⟨vs, rfl⟩
    | cons n rest ih =>
      intro vs hv
      cases hno : (n == o)
      · have hno' : ((o : Int) == (n : Int)) = false := by
          rw [natCast_beq]; cases h : (o == n)
          · rfl
          · have : o = n := by simpa using h
            subst this; simp at hno
        have hstep : execBlock builderEnv (vs.set "node" (plainNode n))
            [.ifs (.cmp .is_ (.name "operation") (.attr (.name "node") "operation")) [.ret (.name "node")] []] =
            .cont (vs.set "node" (plainNode n)) := by
          have hn : (o == n) = false := by rw [← natCast_beq]; exact hno'
          simp [execBlock, exec, eval, vars_get_set_same, get_set_ne, hv, plainNode, plainOp, getAttr, lookupField, evalCmp,
            Val.beq, Val.truthy, hn]
        simp only [List.map_cons, forLoop, hstep, List.find?_cons, hno]
        exact ih _ (by simp [get_set_ne, hv])
      · have hno' : o = n := by have : n = o := by simpa using hno
                                exact this.symm
        subst hno'
        have hstep : execBlock builderEnv (vs.set "node" (plainNode o))
            [.ifs (.cmp .is_ (.name "operation") (.attr (.name "node") "operation")) [.ret (.name "node")] []] =
            .ret (plainNode o) := by
          simp [execBlock, exec, eval, vars_get_set_same, get_set_ne, hv, plainNode, plainOp, getAttr, lookupField, evalCmp,
            Val.beq, Val.truthy]
        simp only [List.map_cons, forLoop, hstep, List.find?_cons, hno]
  have hbodyEq : Graph_get_corresponding_node.body =
      [.for_ "node" (.mcall (.name "self") "get_node_iterator" [])
         [.ifs (.cmp .is_ (.name "operation") (.attr (.name "node") "operation")) [.ret (.name "node")] []],
       .ret (.none)] := rfl
  let selfV : Val := .obj "Graph" 2 [("get_node_iterator()", .list (nodes.map plainNode))]
  let vs0 : Vars := bindParams Graph_get_corresponding_node.params [selfV, plainOp o] []
  have hop : vs0.get "operation" = plainOp o := by simp [vs0, Graph_get_corresponding_node, bindParams, Vars.get, Vars.set]
  have hiter : (eval builderEnv vs0 (.mcall (.name "self") "get_node_iterator" [])).elems? = some (nodes.map plainNode) := by
    simp [vs0, selfV, eval, evalList, Graph_get_corresponding_node, bindParams, Vars.get, Vars.set, builderEnv, lookupField, Val.elems?]
  unfold callFn
  rw [show (Graph_get_corresponding_node.params.length != [selfV, plainOp o].length) = false from rfl, hbodyEq]
  show (match execBlock builderEnv vs0 _ with | .ret v => v | .cont _ => Val.none | .raised what => _) = _
  rw [execBlock_for _ _ _ _ _ _ _ hiter]
  have K := key nodes vs0 hop
  cases hf : nodes.find? (fun n => n == o) with
  | none =>
    rw [hf] at K
    obtain ⟨vs', hv⟩ := K
    rw [hv]
    simp [execBlock, exec, eval]
  | some n =>
    rw [hf] at K
    rw [K]

/-! #### `CircuitCompositeOperation.copy` -/

def cpCopy (n : Nat) : Val := .obj "Operation" (5000 + n) []
def cpOp (n : Nat) : Val := .obj "Operation" n [("copy()", cpCopy n)]
def cpNode (n : Nat) : Val := .obj "Node" (1000 + n) [("operation", cpOp n)]
def cpLookup : Val := .obj "dict" 8 []
def cpSelf (nodes : List Nat) : Val :=
  .obj "CircuitCompositeOperation" 1
    [("relation", .obj "Link" 5 [("copy()", .obj "Link" 6 [])]), ("repetition_strategy", .obj "Rep" 7 []),
     ("_circuit_graph", .obj "Graph" 2 [("get_node_iterator()", .list (nodes.map cpNode))])]
/-- the new composite: the copied relation link, the SAME repetition strategy. -/
def cpResult : Val :=
  .tuple [.str "CircuitCompositeOperation", .tuple [.str "relation", .obj "Link" 6 []],
          .tuple [.str "repetition_strategy", .obj "Rep" 7 []]]

/-- **`CircuitCompositeOperation.copy`**: new composite (link copied through the lookup, count kept); then for every node in
    listing order: copy the operation through the SAME lookup, record `lookup[operation] = copy`, `add` the copy — `World.copyObj`. -/
theorem composite_copy_matches_source (nodes : List Nat) :
    callEffects builderEnv Composite_copy [cpSelf nodes, cpLookup] =
      nodes.flatMap (fun n => [Val.tuple [.str "setitem", cpLookup, cpOp n, cpCopy n],
                               Val.tuple [.str "call", cpResult, .str "add", cpCopy n]]) ∧
    callFn builderEnv Composite_copy [cpSelf nodes, cpLookup] = cpResult := by
  have hbodyEq : Composite_copy.body =
      [.assign "result" (.call "CircuitCompositeOperation"
          [.tuple [.str "relation", .mcall (.attr (.name "self") "relation") "copy" [.name "relation_transfer_lookup"]],
           .tuple [.str "repetition_strategy", .attr (.name "self") "repetition_strategy"]]),
       .ifs (.cmp .is_ (.name "relation_transfer_lookup") (.none)) [.assign "relation_transfer_lookup" (.call "dict" [])] [],
       .for_ "node" (.mcall (.attr (.name "self") "_circuit_graph") "get_node_iterator" [])
         [.assign "operation_copy" (.mcall (.attr (.name "node") "operation") "copy" [.name "relation_transfer_lookup"]),
          .setitem (.name "relation_transfer_lookup") (.attr (.name "node") "operation") (.name "operation_copy"),
          .expr (.mcall (.name "result") "add" [.name "operation_copy"])],
       .ret (.name "result")] := rfl
  let vs0 : Vars := bindParams Composite_copy.params [cpSelf nodes, cpLookup] []
  let vs1 : Vars := vs0.set "result" cpResult
  have hself0 : vs0.get "self" = cpSelf nodes := by simp [vs0, Composite_copy, bindParams, Vars.get, Vars.set]
  have hlk0 : vs0.get "relation_transfer_lookup" = cpLookup := by simp [vs0, Composite_copy, bindParams, Vars.get, Vars.set]
  have e1 : exec builderEnv vs0 (.assign "result" (.call "CircuitCompositeOperation"
          [.tuple [.str "relation", .mcall (.attr (.name "self") "relation") "copy" [.name "relation_transfer_lookup"]],
           .tuple [.str "repetition_strategy", .attr (.name "self") "repetition_strategy"]])) = .cont vs1 := by
    simp [vs1, exec, eval, evalList, hself0, hlk0, cpSelf, cpLookup, cpResult, getAttr, lookupField, builtin, builderEnv, Val.isErr]
  have e2 : exec builderEnv vs1 (.ifs (.cmp .is_ (.name "relation_transfer_lookup") (.none))
      [.assign "relation_transfer_lookup" (.call "dict" [])] []) = .cont vs1 := by
    simp [vs1, exec, eval, get_set_ne, hlk0, cpLookup, evalCmp, Val.beq, Val.truthy, execBlock]
  have f2 : effStmt builderEnv vs1 (.ifs (.cmp .is_ (.name "relation_transfer_lookup") (.none))
      [.assign "relation_transfer_lookup" (.call "dict" [])] []) = [] := by
    simp [vs1, effStmt, eval, get_set_ne, hlk0, cpLookup, evalCmp, Val.beq, Val.truthy, effBlock]
  have hI1 : vs1.get "self" = cpSelf nodes ∧ vs1.get "relation_transfer_lookup" = cpLookup ∧ vs1.get "result" = cpResult :=
    ⟨by simp [vs1, get_set_ne, hself0], by simp [vs1, get_set_ne, hlk0], by simp [vs1, vars_get_set_same]⟩
  have hiter : (eval builderEnv vs1 (.mcall (.attr (.name "self") "_circuit_graph") "get_node_iterator" [])).elems? =
      some (nodes.map cpNode) := by
    simp [eval, evalList, hI1.1, cpSelf, getAttr, lookupField, builderEnv, Val.elems?]
  obtain ⟨vs', g1, g2, g3⟩ := loop_generic builderEnv
    (fun vs => vs.get "self" = cpSelf nodes ∧ vs.get "relation_transfer_lookup" = cpLookup ∧ vs.get "result" = cpResult)
    [.assign "operation_copy" (.mcall (.attr (.name "node") "operation") "copy" [.name "relation_transfer_lookup"]),
     .setitem (.name "relation_transfer_lookup") (.attr (.name "node") "operation") (.name "operation_copy"),
     .expr (.mcall (.name "result") "add" [.name "operation_copy"])] "node"
    (fun v => match v with
      | .obj _ _ [("operation", .obj c n [("copy()", cp)])] =>
          [Val.tuple [.str "setitem", cpLookup, .obj c n [("copy()", cp)], cp], Val.tuple [.str "call", cpResult, .str "add", cp]]
      | _ => [])
    (nodes.map cpNode) vs1 hI1
    (by
      intro vs v hI hv
      obtain ⟨n, _, rfl⟩ := List.mem_map.mp hv
      refine ⟨(vs.set "node" (cpNode n)).set "operation_copy" (cpCopy n), ?_,
        ⟨by simp [get_set_ne, hI.1], by simp [get_set_ne, hI.2.1], by simp [get_set_ne, hI.2.2]⟩, ?_⟩
      · simp [execBlock, exec, eval, evalList, vars_get_set_same, get_set_ne, hI.2.1, hI.2.2, cpNode, cpOp, cpCopy, cpLookup,
          cpResult, getAttr, lookupField, builderEnv, Val.isErr]
      · simp [effBlock, effStmt, execBlock, exec, eval, evalList, vars_get_set_same, get_set_ne, hI.2.1, hI.2.2, cpNode, cpOp,
          cpCopy, cpLookup, cpResult, getAttr, lookupField, builderEnv, Val.isErr])
  constructor
  · unfold callEffects
    rw [show (Composite_copy.params.length != [cpSelf nodes, cpLookup].length) = false from rfl, hbodyEq]
    show effBlock builderEnv vs0 _ = _
    rw [effBlock_cons_cont _ _ _ _ _ e1, effBlock_cons_cont _ _ _ _ _ e2, f2, effBlock_for _ _ _ _ _ _ _ hiter, g1, g3]
    simp [effStmt, effBlock, exec, List.flatMap_map, Function.comp_def, cpNode, cpOp]
  · unfold callFn
    rw [show (Composite_copy.params.length != [cpSelf nodes, cpLookup].length) = false from rfl, hbodyEq]
    show (match execBlock builderEnv vs0 _ with | .ret v => v | .cont _ => Val.none | .raised what => _) = _
    rw [execBlock, e1]
    simp only []
    rw [execBlock, e2]
    simp only []
    rw [execBlock_for _ _ _ _ _ _ _ hiter, g1]
    simp [execBlock, exec, eval, g2.2.2]

end Qco.BuilderSrc
