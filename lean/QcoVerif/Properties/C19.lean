import QcoVerif.Model.Ident
/-
  C19 — channel and identifier matching behave as overlap / identity relations.

  About `Qco.ChId.matches` (Model/Basic.lean, used by the heap model's implicit sequencing),
  `Qco.uniqueInOrder` (Model/Builder.lean, used for `channel_identifiers` of a composite) and the
  identifier model of Model/Ident.lean.  `harness/c19.py` ties each of these definitions to the code
  exhaustively (driver module `ident`).
-/
namespace Qco.C19
open Qco

/-! ## `ChannelIdentifier.__eq__` -/

/-- two identifiers match exactly when they name the same qubit and either the same channel or at least
    one of them names all channels. -/
theorem match_iff (a b : ChId) :
    a.matches b = true ↔ a.q = b.q ∧ (a.c = b.c ∨ a.c = Chan.all ∨ b.c = Chan.all) := by
  simp [ChId.matches, or_assoc]

theorem match_refl (a : ChId) : a.matches a = true := by simp [ChId.matches]

theorem match_symm (a b : ChId) : a.matches b = b.matches a := by
  rw [Bool.eq_iff_iff, match_iff, match_iff]
  constructor <;> (rintro ⟨h, k⟩; refine ⟨h.symm, ?_⟩; rcases k with k | k | k <;> simp [k])

/-- matching never holds across qubits. -/
theorem match_same_qubit (a b : ChId) (h : a.matches b = true) : a.q = b.q :=
  ((match_iff a b).1 h).1

/-- on the same qubit `ALL` matches everything. -/
theorem match_all (q : Int) (c : Chan) : (ChId.mk q Chan.all).matches ⟨q, c⟩ = true := by
  simp [ChId.matches]

/-- matching is NOT transitive: MW ~ ALL ~ FL but MW and FL do not match (so it is an overlap relation,
    not an equivalence, and a `set`/`dict` keyed by it would be ill-defined without the exact hash). -/
theorem match_not_transitive_witness :
    (ChId.mk 0 Chan.mw).matches ⟨0, Chan.all⟩ = true ∧ (ChId.mk 0 Chan.all).matches ⟨0, Chan.fl⟩ = true ∧
    (ChId.mk 0 Chan.mw).matches ⟨0, Chan.fl⟩ = false := by decide

/-- … and `ALL` in the middle is the only way transitivity fails. -/
theorem match_trans_of_ne_all (a b c : ChId) (hb : b.c ≠ Chan.all)
    (h₁ : a.matches b = true) (h₂ : b.matches c = true) (ha : a.c ≠ Chan.all) (hc : c.c ≠ Chan.all) :
    a.matches c = true := by
  rw [match_iff] at *
  obtain ⟨q₁, k₁⟩ := h₁; obtain ⟨q₂, k₂⟩ := h₂
  refine ⟨q₁.trans q₂, Or.inl ?_⟩
  rcases k₁ with k₁ | k₁ | k₁ <;> rcases k₂ with k₂ | k₂ | k₂ <;> simp_all

example : (ChId.mk 1 Chan.mw).c ≠ Chan.all := by decide

/-- inside a Python `set` (hash of `(id, channel)` first, then `==`) two channel identifiers collide exactly
    when they are structurally equal: `ALL` does not absorb the other channels there. -/
theorem chid_setHit_eq_beq (s x : ChId) : s.setHit x = (s == x) := by
  obtain ⟨sq, sc⟩ := s; obtain ⟨xq, xc⟩ := x
  rw [Bool.eq_iff_iff]
  simp only [ChId.setHit, setHit, ChId.hashKey, Bool.and_eq_true, beq_iff_eq, Prod.mk.injEq, match_iff,
    ChId.mk.injEq]
  constructor
  · rintro ⟨h, -⟩; exact h
  · rintro ⟨h, k⟩; exact ⟨⟨h, k⟩, h, Or.inl k⟩

/-! ## qubit and edge identifiers -/

theorem qubit_eq_iff_name (a b : QubitId) : a.eq b = true ↔ a.name = b.name := by
  simp [QubitId.eq]

theorem qubit_eq_iff (a b : QubitId) : a.eq b = true ↔ a = b := by
  obtain ⟨a⟩ := a; obtain ⟨b⟩ := b; simp [QubitId.eq]

/-- the argument's orientation never matters. -/
theorem edge_eq_swap (e f : EdgeId) : e.eq f.swap = e.eq f := by
  simp [EdgeId.eq, EdgeId.contains, EdgeId.swap, Bool.or_comm]

/-- nor does the receiver's. -/
theorem edge_eq_swap_left (e f : EdgeId) : e.swap.eq f = e.eq f := by
  simp [EdgeId.eq, EdgeId.swap, Bool.and_comm]

theorem edge_eq_self_swap (e : EdgeId) : e.eq e.swap = true ∧ e.swap.eq e = true ∧ e.eq e = true := by
  simp [EdgeId.eq, EdgeId.contains, EdgeId.swap, QubitId.eq]

/-- the hashed tuple does not depend on the order of the two qubits, for any hash of the names. -/
theorem edge_hash_swap (h : String → Int) (e : EdgeId) : e.swap.hashKey h = e.hashKey h := by
  simp [EdgeId.hashKey, EdgeId.swap, Int.min_comm, Int.max_comm]

/-- equal edges (in the code's sense) hash equal. -/
theorem edge_eq_hash (h : String → Int) (e f : EdgeId) (hne : e.q0 ≠ e.q1) (he : e.eq f = true) :
    e.hashKey h = f.hashKey h := by
  obtain ⟨⟨a⟩, ⟨b⟩⟩ := e; obtain ⟨⟨c⟩, ⟨d⟩⟩ := f
  simp [EdgeId.eq, EdgeId.contains, QubitId.eq] at he hne
  obtain ⟨h0, h1⟩ := he
  rcases h0 with h0 | h0 <;> rcases h1 with h1 | h1 <;> subst h0 <;> subst h1 <;>
    simp_all [EdgeId.hashKey, Int.min_comm, Int.max_comm]

/-- `EdgeIDObj.__eq__` is "same unordered pair" — provided the RECEIVER is not a degenerate edge `q–q`:
    the code tests `{self.q0, self.q1} ⊆ {other.q0, other.q1}`. -/
theorem edge_eq_iff_unordered (e f : EdgeId) (hne : e.q0 ≠ e.q1) :
    e.eq f = true ↔ e.sameUnordered f := by
  obtain ⟨⟨a⟩, ⟨b⟩⟩ := e; obtain ⟨⟨c⟩, ⟨d⟩⟩ := f
  simp [EdgeId.eq, EdgeId.contains, QubitId.eq, EdgeId.sameUnordered] at hne ⊢
  constructor
  · rintro ⟨h0 | h0, h1 | h1⟩ <;> subst h0 <;> subst h1 <;> simp_all
  · rintro (⟨h0, h1⟩ | ⟨h0, h1⟩) <;> subst h0 <;> subst h1 <;> simp

example : (EdgeId.mk ⟨"D1"⟩ ⟨"X1"⟩).q0 ≠ (EdgeId.mk ⟨"D1"⟩ ⟨"X1"⟩).q1 := by decide

/-- for non-degenerate receivers equality is symmetric. -/
theorem edge_eq_symm (e f : EdgeId) (he : e.q0 ≠ e.q1) (hf : f.q0 ≠ f.q1) : e.eq f = f.eq e := by
  have h₁ := edge_eq_iff_unordered e f he
  have h₂ := edge_eq_iff_unordered f e hf
  have : e.sameUnordered f ↔ f.sameUnordered e := by
    unfold EdgeId.sameUnordered
    constructor <;> (rintro (⟨a, b⟩ | ⟨a, b⟩) <;> simp [a, b])
  rw [Bool.eq_iff_iff, h₁, h₂, this]

/-- the guard is needed: the degenerate edge `D1–D1` "equals" `D1–X1`, not conversely, and the two are not the
    same unordered pair (the library never builds a degenerate edge; recorded as an observation). -/
theorem edge_eq_degenerate_witness :
    (EdgeId.mk ⟨"D1"⟩ ⟨"D1"⟩).eq ⟨⟨"D1"⟩, ⟨"X1"⟩⟩ = true ∧
    (EdgeId.mk ⟨"D1"⟩ ⟨"X1"⟩).eq ⟨⟨"D1"⟩, ⟨"D1"⟩⟩ = false ∧
    ¬ (EdgeId.mk ⟨"D1"⟩ ⟨"D1"⟩).sameUnordered ⟨⟨"D1"⟩, ⟨"X1"⟩⟩ := by
  refine ⟨by decide, by decide, ?_⟩
  unfold EdgeId.sameUnordered; decide

/-- inside a `set` (hash first) the degenerate case disappears when the name hash is injective: a stored edge
    and a probe collide exactly when they are the same unordered pair. -/
theorem edge_setHit_iff (h : String → Int) (s x : EdgeId)
    (hinj : ∀ a ∈ [s.q0.name, s.q1.name, x.q0.name, x.q1.name],
      ∀ b ∈ [s.q0.name, s.q1.name, x.q0.name, x.q1.name], h a = h b → a = b) :
    s.setHit h x = true ↔ s.sameUnordered x := by
  by_cases hne : s.q0 = s.q1
  · obtain ⟨⟨a⟩, ⟨b⟩⟩ := s; obtain ⟨⟨c⟩, ⟨d⟩⟩ := x
    simp at hne; subst hne
    simp only [EdgeId.setHit, setHit, EdgeId.hashKey, EdgeId.eq, EdgeId.contains, QubitId.eq,
      EdgeId.sameUnordered, Bool.and_eq_true, beq_iff_eq, Bool.or_eq_true, Prod.mk.injEq, Int.min_self,
      Int.max_self, QubitId.mk.injEq]
    constructor
    · rintro ⟨⟨hmin, hmax⟩, hc, -⟩
      have hcd : c = d := by
        apply hinj c (by simp) d (by simp)
        rcases Int.le_total (h c) (h d) with hle | hle
        · rw [Int.min_eq_left hle] at hmin; rw [Int.max_eq_right hle] at hmax; omega
        · rw [Int.min_eq_right hle] at hmin; rw [Int.max_eq_left hle] at hmax; omega
      subst hcd
      rcases hc with hc | hc <;> simp [hc]
    · rintro (⟨h0, h1⟩ | ⟨h0, h1⟩) <;> subst h0 <;> subst h1 <;> simp
  · rw [← edge_eq_iff_unordered s x hne]
    simp only [EdgeId.setHit, setHit, Bool.and_eq_true, beq_iff_eq]
    exact ⟨fun hh => hh.2, fun hh => ⟨edge_eq_hash h s x hne hh, hh⟩⟩

example : ∃ (h : String → Int) (s x : EdgeId), s.q0 = s.q1 ∧ ¬ s.q0 = x.q1 ∧
    (∀ a ∈ [s.q0.name, s.q1.name, x.q0.name, x.q1.name], ∀ b ∈ [s.q0.name, s.q1.name, x.q0.name, x.q1.name],
      h a = h b → a = b) :=
  ⟨fun n => n.length, ⟨⟨"D1"⟩, ⟨"D1"⟩⟩, ⟨⟨"D1"⟩, ⟨"X10"⟩⟩, by decide⟩

/-- identifiers of different kinds, and identifiers and non-identifiers, never compare equal. -/
theorem cross_kind_ne (a b : Obj) (h : a.pyEq b = true) :
    (∃ x y, a = .chan x ∧ b = .chan y) ∨ (∃ x y, a = .qubit x ∧ b = .qubit y) ∨
    (∃ x y, a = .feedline x ∧ b = .feedline y) ∨ (∃ x y, a = .edge x ∧ b = .edge y) ∨
    (∃ x y, a = .other x ∧ b = .other y) := by
  cases a <;> cases b <;> simp_all [Obj.pyEq]

example : (Obj.qubit ⟨"D1"⟩).pyEq (.qubit ⟨"D1"⟩) = true := by decide

/-! ## `unique_in_order` -/

section unique
variable {α : Type} [BEq α] [LawfulBEq α]

omit [LawfulBEq α] in
theorem uniqueInOrder_sublist (l : List α) : (uniqueInOrder l).Sublist l := by
  induction l with
  | nil => exact List.Sublist.slnil
  | cons x xs ih => exact List.Sublist.cons_cons x ((List.filter_sublist).trans ih)

/-- same elements. -/
theorem uniqueInOrder_mem (l : List α) (y : α) : y ∈ uniqueInOrder l ↔ y ∈ l := by
  induction l with
  | nil => simp [uniqueInOrder]
  | cons x xs ih =>
    simp only [uniqueInOrder, List.mem_cons, List.mem_filter, ih, Bool.not_eq_eq_eq_not, Bool.not_true,
      beq_eq_false_iff_ne, ne_eq]
    by_cases h : y = x <;> simp [h]

theorem uniqueInOrder_nodup (l : List α) : (uniqueInOrder l).Nodup := by
  induction l with
  | nil => simp [uniqueInOrder]
  | cons x xs ih =>
    simp only [uniqueInOrder, List.nodup_cons, List.mem_filter, beq_self_eq_true, Bool.not_true,
      Bool.false_eq_true, and_false, not_false_eq_true, true_and]
    exact ih.sublist List.filter_sublist

/-- a list without duplicates is left alone … -/
theorem uniqueInOrder_of_nodup (l : List α) (h : l.Nodup) : uniqueInOrder l = l := by
  induction l with
  | nil => rfl
  | cons x xs ih =>
    rw [List.nodup_cons] at h
    simp only [uniqueInOrder, ih h.2]
    congr 1
    apply List.filter_eq_self.2
    intro y hy
    simp only [Bool.not_eq_eq_eq_not, Bool.not_true, beq_eq_false_iff_ne, ne_eq]
    rintro rfl; exact h.1 hy

/-- … hence idempotence. -/
theorem uniqueInOrder_idem (l : List α) : uniqueInOrder (uniqueInOrder l) = uniqueInOrder l :=
  uniqueInOrder_of_nodup _ (uniqueInOrder_nodup l)

theorem firstIdx_filter_lt (p : α → Bool) (x y : α) (hx : p x = true) (hy : p y = true)
    (m : List α) (h : firstIdx x m < firstIdx y m) :
    firstIdx x (m.filter p) < firstIdx y (m.filter p) := by
  induction m with
  | nil => simp [firstIdx] at h
  | cons w ws ih =>
    by_cases hwx : w = x
    · subst hwx
      have hyw : ¬ w = y := by rintro rfl; simp [firstIdx] at h
      simp [List.filter, hx, firstIdx, hyw]
    · by_cases hwy : w = y
      · subst hwy; simp [firstIdx] at h
      · have h' : firstIdx x ws < firstIdx y ws := by simpa [firstIdx, hwx, hwy] using h
        cases hp : p w <;> simp [List.filter, hp, firstIdx, hwx, hwy, ih h']

/-- the relative order of first occurrences is kept: if `x` first occurs before `y` in the input, it
    (first) occurs before `y` in the output. With `_mem` and `_nodup`: the output is the input's sequence of
    first occurrences. -/
theorem uniqueInOrder_first_occurrence (l : List α) (x y : α)
    (h : firstIdx x l < firstIdx y l) :
    firstIdx x (uniqueInOrder l) < firstIdx y (uniqueInOrder l) := by
  induction l with
  | nil => simp [firstIdx] at h
  | cons z zs ih =>
    by_cases hzx : z = x
    · subst hzx
      have hzy : ¬ z = y := by rintro rfl; simp [firstIdx] at h
      simp [uniqueInOrder, firstIdx, hzy]
    · by_cases hzy : z = y
      · subst hzy; simp [firstIdx] at h
      · have h' : firstIdx x zs < firstIdx y zs := by simpa [firstIdx, hzx, hzy] using h
        have hx : (fun w => !(w == z)) x = true := by simp; exact fun e => hzx e.symm
        have hy : (fun w => !(w == z)) y = true := by simp; exact fun e => hzy e.symm
        have := firstIdx_filter_lt (fun w => !(w == z)) x y hx hy _ (ih h')
        simpa [uniqueInOrder, firstIdx, hzx, hzy] using this

example : firstIdx 3 [1, 3, 1, 2, 3] < firstIdx 2 [1, 3, 1, 2, 3] := by decide

omit [LawfulBEq α] in
/-- the first element of the input heads the output; later copies of it are gone. -/
theorem uniqueInOrder_cons (x : α) (xs : List α) :
    uniqueInOrder (x :: xs) = x :: (uniqueInOrder xs).filter (fun y => !(y == x)) := rfl

/-! ### the loop as written (`seen` set) is the recursive definition the heap model uses -/

theorem uniqueLoopAux_eq (acc l : List α) :
    uniqueLoopAux (fun s x => s == x) acc l = acc ++ (uniqueInOrder l).filter (fun y => !acc.contains y) := by
  induction l generalizing acc with
  | nil => simp [uniqueLoopAux, uniqueInOrder]
  | cons x xs ih =>
    simp only [uniqueLoopAux, uniqueInOrder]
    by_cases hx : acc.any (fun s => s == x) = true
    · have hx' : x ∈ acc := by simpa using hx
      have hc : acc.contains x = true := by simpa using hx'
      rw [if_pos hx, ih, List.filter_cons, hc]
      simp only [Bool.not_true, Bool.false_eq_true, ↓reduceIte, List.filter_filter]
      congr 1
      apply List.filter_congr
      intro y _
      by_cases hy : y = x
      · subst hy; simp [hx']
      · simp [hy]
    · have hx' : x ∉ acc := by simpa using hx
      have hc : acc.contains x = false := by simpa using hx'
      rw [if_neg hx, ih, List.filter_cons, hc]
      simp only [Bool.not_false, ↓reduceIte, List.filter_filter, List.append_assoc, List.singleton_append]
      congr 2
      apply List.filter_congr
      intro y _
      by_cases hy : y = x
      · subst hy; simp
      · simp [hy]

/-- `unique_in_order` (loop over a growing `seen` set) = `Qco.uniqueInOrder`, when the set's test is a lawful
    equality (ints, strings, qubit identifiers; channel identifiers by `chid_setHit_eq_beq`). -/
theorem uniqueLoop_eq_uniqueInOrder (l : List α) : uniqueLoop (fun s x => s == x) l = uniqueInOrder l := by
  simp [uniqueLoop, uniqueLoopAux_eq]

end unique

/-- for channel identifiers the set's test (hash of `(id, channel)`, then the matching `==`) is exact equality,
    so `unique_in_order` on them is `Qco.dedupChans`: `ALL` does not absorb `MW`. -/
theorem uniqueLoop_chid (l : List ChId) : uniqueLoop ChId.setHit l = dedupChans l := by
  have : ChId.setHit = fun s x => s == x := by funext s x; exact chid_setHit_eq_beq s x
  rw [this, uniqueLoop_eq_uniqueInOrder]; rfl

theorem uniqueLoop_chid_witness :
    uniqueLoop ChId.setHit [⟨0, Chan.all⟩, ⟨0, Chan.mw⟩, ⟨0, Chan.all⟩] = [⟨0, Chan.all⟩, ⟨0, Chan.mw⟩] := by decide

/-- de-duplication through a key: if the set's test is "equal keys" (edges: the unordered pair), the keys of
    the result are the de-duplicated keys of the input — so every statement above transfers. -/
theorem uniqueLoop_map_key {α κ : Type} [BEq κ] (k : α → κ) (hit : α → α → Bool)
    (hk : ∀ s x, hit s x = (k s == k x)) (l : List α) :
    (uniqueLoop hit l).map k = uniqueLoop (fun s x => s == x) (l.map k) := by
  suffices h : ∀ acc, (uniqueLoopAux hit acc l).map k = uniqueLoopAux (fun s x => s == x) (acc.map k) (l.map k) by
    simpa [uniqueLoop] using h []
  induction l with
  | nil => intro acc; simp [uniqueLoopAux]
  | cons x xs ih =>
    intro acc
    have : acc.any (fun s => hit s x) = (acc.map k).any (fun s => s == k x) := by
      simp [List.any_map, hk, Function.comp_def]
    simp only [uniqueLoopAux, List.map_cons, this]
    split
    · exact ih acc
    · simpa using ih (acc ++ [x])

example : ∀ s x : ChId, ChId.setHit s x = (id s == id x) := chid_setHit_eq_beq


/-! ## `unique_in_order` over concatenations and filters (compositional laws: the channel list of a composite is the
    de-duplicated concatenation of its content's channel lists) -/

section unique2
variable {α : Type} [BEq α] [LawfulBEq α]

omit [LawfulBEq α] in
theorem uniqueInOrder_length_le (l : List α) : (uniqueInOrder l).length ≤ l.length :=
  (uniqueInOrder_sublist l).length_le

/-- de-duplication commutes with filtering. -/
theorem uniqueInOrder_filter (p : α → Bool) (l : List α) :
    (uniqueInOrder l).filter p = uniqueInOrder (l.filter p) := by
  induction l with
  | nil => rfl
  | cons x xs ih =>
    by_cases hx : p x = true
    · simp only [uniqueInOrder, List.filter_cons, hx, if_true]
      congr 1
      rw [List.filter_filter, ← ih, List.filter_filter]
      congr 1; funext y; exact Bool.and_comm _ _
    · simp only [uniqueInOrder, List.filter_cons, hx, Bool.false_eq_true, if_false]
      rw [List.filter_filter, ← ih]
      apply List.filter_congr
      intro y _
      by_cases hy : y = x
      · subst hy; simp [hx]
      · simp [hy]

/-- de-duplicating a concatenation: the first list's result, then what the second adds. -/
theorem uniqueInOrder_append (l m : List α) :
    uniqueInOrder (l ++ m) = uniqueInOrder l ++ (uniqueInOrder m).filter (fun y => !l.contains y) := by
  induction l with
  | nil =>
    simp only [List.nil_append, uniqueInOrder, List.contains_nil, Bool.not_false]
    exact (List.filter_eq_self.2 (fun _ _ => rfl)).symm
  | cons x xs ih =>
    simp only [List.cons_append, uniqueInOrder, ih, List.filter_append, List.filter_filter]
    congr 2
    apply List.filter_congr
    intro y _
    simp

/-- listing the same content twice adds nothing. -/
theorem uniqueInOrder_append_self (l : List α) : uniqueInOrder (l ++ l) = uniqueInOrder l := by
  have : (uniqueInOrder l).filter (fun y => !l.contains y) = [] := by
    apply List.filter_eq_nil_iff.2
    intro y hy
    have := (uniqueInOrder_mem l y).1 hy
    simp [this]
  rw [uniqueInOrder_append, this, List.append_nil]

example : uniqueInOrder ([1, 3, 1] ++ [2, 3, 4]) = [1, 3, 2, 4] := by decide
end unique2

end Qco.C19
