import QcoVerif.Properties.C19
import QcoVerif.Lemmas.TimingSrc
import QcoVerif.Lemmas.UniqSrc
/-
  C19 — tie to the SOURCE TEXT (DESIGN.md §2.3b).  Kept in a file of its own that nothing imports: a change of the translated
  source functions breaks THESE obligations only, not the build of the property files that import Properties/C19.lean.
-/
namespace Qco.C19
open Qco

/-! ### tie to the SOURCE TEXT (DESIGN.md §2.3b)

The mini-Python syntax of `ChannelIdentifier.__eq__`, `EdgeIDObj.contains / __eq__` (regenerated from the source text on every
run) evaluates, for ALL identifiers, to the model's `ChId.matches`, `EdgeId.contains`, `EdgeId.eq`. -/

section SourceTie
open Qco.Py Qco.Gen.PySrc Qco.TimingSrc

theorem channel_eq_matches_source (a b : ChId) (i j : Nat) :
    callFn classEnv ChannelIdentifier_eq [chIdObj i a, chIdObj j b] = .bool (a.matches b) := by
  obtain ⟨qa, ca⟩ := a
  obtain ⟨qb, cb⟩ := b
  cases hq : (qa == qb) <;> cases ca <;> cases cb <;>
  py_simp [ChannelIdentifier_eq, chIdObj, chanVal, classEnv, ChId.matches, hq]

theorem channel_eq_foreign_matches_source (a : ChId) (i : Nat) (other : Val)
    (h : ∀ c k fs, other ≠ .obj c k fs) :
    callFn classEnv ChannelIdentifier_eq [chIdObj i a, other] = .bool false := by
  cases other <;> first | (exfalso; exact h _ _ _ rfl) | py_simp [ChannelIdentifier_eq, chIdObj, classEnv]

theorem edge_contains_matches_source (e : EdgeId) (x : QubitId) (i : Nat) :
    callFn {} EdgeIDObj_contains [edgeObj i e, qidVal x] = .bool (e.contains x) := by
  obtain ⟨⟨a⟩, ⟨b⟩⟩ := e
  obtain ⟨c⟩ := x
  cases h1 : (a == c) <;> cases h2 : (b == c) <;>
  py_simp [EdgeIDObj_contains, edgeObj, qidVal, EdgeId.contains, QubitId.eq, memVal, h1, h2]

theorem edge_eq_matches_source (e f : EdgeId) (i j : Nat) :
    callFn edgeEnv EdgeIDObj_eq [edgeObj i e, edgeObj j f] = .bool (e.eq f) := by
  obtain ⟨⟨a⟩, ⟨b⟩⟩ := e
  obtain ⟨⟨c⟩, ⟨d⟩⟩ := f
  cases h1 : (EdgeId.contains ⟨⟨c⟩, ⟨d⟩⟩ ⟨a⟩) <;> cases h2 : (EdgeId.contains ⟨⟨c⟩, ⟨d⟩⟩ ⟨b⟩) <;>
  py_simp [EdgeIDObj_eq, edgeObj, qidVal, edgeEnv, classEnv, decodeEdge, EdgeId.eq, h1, h2]

end SourceTie


/-- **`unique_in_order` as written** (the loop over a growing `seen` set) keeps, for every list of integers, the first occurrence of
    every element in order: it returns the model's `uniqueInOrder`.  (The set is the list of the elements added — membership by `==`;
    that `hash` agrees with `==` on the identifiers is `edge_eq_hash`, `qubit_eq_hash` above.) -/
theorem unique_in_order_matches_source (l : List Int) :
    Py.callFn {} Gen.PySrc.Util_unique_in_order [Py.ints l] = Py.ints (uniqueInOrder l) := by
  rw [UniqSrc.unique_in_order_matches_source, uniqueLoop_eq_uniqueInOrder]

end Qco.C19
