import QcoVerif.Lemmas.C10Param
import QcoVerif.Lemmas.Graph
import QcoVerif.Model.Builder
/-
  C10, parametric layer lemmas: where the BUILDER puts an operation (one step of `World.add`, the function the
  driver executes for `CircuitCompositeOperation.add`).

  `add_links_below_leaf`: an operation without relation is hung, by a fresh single FOLLOWED_BY link (`DirectFb`),
  below the LAST node in listing order that shares a channel with it (`leafAtAny`);
  `leafAtAny_deepest`: that node is a deepest one among the matching nodes;
  `leafAtAny_all_match`: an operation that matches every node (a barrier on all qubits) goes below the LAST node of
  the listing.
  So the closing barrier of a layer hangs below the last-listed, deepest path — the layer theorem
  (Lemmas/C10Param.lean) asks that this path be one of the last to END: "the deepest path is a longest one".
-/
namespace Qco.C10Param

open Qco Qco.C10

/-- does `n` share a channel with `chs`? (the test of `leafAtAny`) -/
def matchesNode (w : World) (chs : List ChId) (n : Nat) : Bool :=
  chs.any (fun a => (w.chansOf n).any (fun b => a.matches b))

theorem leafAtAny_eq (w : World) (g : List Entry) (chs : List ChId) :
    w.leafAtAny g chs = (listing g).reverse.find? (matchesNode w chs) := rfl

/-- the node `add` picks is the last matching node of the listing: it matches, it is a node of the graph, and no
    later node of the listing matches. -/
theorem leafAtAny_last {w : World} {g : List Entry} {chs : List ChId} {lf : Nat}
    (h : w.leafAtAny g chs = some lf) :
    matchesNode w chs lf = true ∧ ∃ pre post, listing g = pre ++ lf :: post ∧
      ∀ n ∈ post, matchesNode w chs n = false := by
  rw [leafAtAny_eq] at h
  obtain ⟨hp, as, bs, hsplit, hnone⟩ := List.find?_eq_some_iff_append.mp h
  refine ⟨by simpa using hp, bs.reverse, as.reverse, ?_, ?_⟩
  · have := congrArg List.reverse hsplit
    simpa using this
  · intro n hn
    have : n ∈ as := by simpa using hn
    simpa using hnone n this

/-- an operation that matches every node of a non-empty graph goes below the LAST node of the listing. -/
theorem leafAtAny_all_match {w : World} {g : List Entry} {chs : List ChId}
    (hall : ∀ n ∈ listing g, matchesNode w chs n = true) : w.leafAtAny g chs = (listing g).getLast? := by
  rw [leafAtAny_eq]
  cases hrev : (listing g).reverse with
  | nil =>
    have : listing g = [] := by simpa using hrev
    simp [this]
  | cons x xs =>
    have hx : x ∈ listing g := by
      have : x ∈ (listing g).reverse := by rw [hrev]; exact List.mem_cons_self
      simpa using this
    have hlast : (listing g).getLast? = some x := by
      have : listing g = xs.reverse ++ [x] := by
        have := congrArg List.reverse hrev
        simpa using this
      rw [this]; simp
    rw [hlast, List.find?_cons, hall x hx]

/-- the node `add` picks is a DEEPEST matching node (the listing is breadth-first). -/
theorem leafAtAny_deepest {w : World} {g : List Entry} {chs : List ChId} {lf : Nat}
    (h : w.leafAtAny g chs = some lf) :
    ∃ e ∈ g, e.node = lf ∧ ∀ e' ∈ g, matchesNode w chs e'.node = true → e'.key.length ≤ e.key.length := by
  rw [leafAtAny_eq] at h
  unfold listing at h
  rw [← List.map_reverse, List.find?_map] at h
  cases hf : (sortedEntries g).reverse.find? (matchesNode w chs ∘ fun e => e.node) with
  | none => rw [hf] at h; cases h
  | some e =>
    rw [hf] at h
    simp only [Option.map_some, Option.some.injEq] at h
    obtain ⟨_, hmem, hdeep⟩ := last_match_deepest (sortedEntries_depth_sorted g) hf
    refine ⟨e, (sortedEntries_perm g).mem_iff.mp hmem, h, ?_⟩
    intro e' he' hm
    exact hdeep e' ((sortedEntries_perm g).mem_iff.mpr he') hm

/-- **One step of the builder.**  `c.add(o)` for an operation `o` without relation, when some node of `c` shares a
    channel with it: `o` gets a fresh single FOLLOWED_BY link to the last matching node `lf` of the listing and is
    attached below it in the relation tree. -/
theorem add_links_below_leaf {w : World} {c o lf : Nat} (hc : c < w.ops.size) (ho : o < w.ops.size) (hoc : o ≠ c)
    (hrel : w.hasRel o = false) (hleaf : w.leafAtAny (w.op c).graph (w.chansOf o) = some lf) :
    DirectFb (w.add c o) lf o ∧ ((w.add c o).op c).graph = attach (w.op c).graph (some lf) o := by
  have hadd : w.add c o =
      (((w.newLink { refs := [lf] }).1.setLink o w.links.size).setGraph c (attach (w.op c).graph (some lf) o)) := by
    unfold World.add World.addToGraph
    simp only [hrel, Bool.not_false, if_true, hleaf]
    rfl
  rw [hadd]
  constructor
  · -- the link of `o` is the fresh link, whose only reference is `lf`
    have hopo : ((((w.newLink { refs := [lf] }).1.setLink o w.links.size).setGraph c
        (attach (w.op c).graph (some lf) o)).op o).link = w.links.size := by
      simp only [World.setGraph, World.setLink, World.setOp, World.op, World.newLink,
        Array.getD_eq_getD_getElem?, Array.getElem?_setIfInBounds]
      have h1 : ¬ (c = o) := fun h => hoc h.symm
      simp [h1, ho]
    have hlnk : ((((w.newLink { refs := [lf] }).1.setLink o w.links.size).setGraph c
        (attach (w.op c).graph (some lf) o)).lnk w.links.size) = { refs := [lf] } := by
      simp [World.setGraph, World.setLink, World.setOp, World.lnk, World.newLink, Array.getD_eq_getD_getElem?]
    unfold DirectFb
    rw [hopo, hlnk]
    exact ⟨rfl, Or.inl ⟨rfl, rfl⟩⟩
  · simp only [World.setGraph, World.setLink, World.setOp, World.op, World.newLink,
      Array.getD_eq_getD_getElem?, Array.getElem?_setIfInBounds]
    simp [hc]

/-- **Where the builder puts an all-qubit barrier** (any operation that shares a channel with every node): below the
    last node of the listing, which is a deepest node of the relation tree. -/
theorem add_all_matching_below_last {w : World} {c o : Nat} (hc : c < w.ops.size) (ho : o < w.ops.size) (hoc : o ≠ c)
    (hrel : w.hasRel o = false) {lf : Nat} (hlast : (listing (w.op c).graph).getLast? = some lf)
    (hall : ∀ n ∈ listing (w.op c).graph, matchesNode w (w.chansOf o) n = true) :
    DirectFb (w.add c o) lf o ∧ ((w.add c o).op c).graph = attach (w.op c).graph (some lf) o ∧
    ∃ e ∈ (w.op c).graph, e.node = lf ∧ ∀ e' ∈ (w.op c).graph, e'.key.length ≤ e.key.length := by
  have hleaf : w.leafAtAny (w.op c).graph (w.chansOf o) = some lf := by rw [leafAtAny_all_match hall, hlast]
  obtain ⟨h1, h2⟩ := add_links_below_leaf hc ho hoc hrel hleaf
  obtain ⟨e, he, hn, hdeep⟩ := leafAtAny_deepest hleaf
  refine ⟨h1, h2, e, he, hn, ?_⟩
  intro e' he'
  exact hdeep e' he' (hall e'.node (mem_listing.mpr ⟨e', he', rfl⟩))

end Qco.C10Param
