"""Writes MANIFEST.json from the table below (kept in one place so that it is always valid)."""
import json
from pathlib import Path

ROOT = Path(__file__).resolve().parent.parent

CHECKS = {
    'C01': dict(
        text='Theorems about the Lean heap model (relation equations, uniqueness of the schedule, implicit predecessor) '
             'hold for all worlds; the model is tied to the code by a differential run of random build programs through the '
             'real API and the model driver, and the relation equations are re-evaluated on the implementation\'s own numbers.',
        note='Trusted: Lean kernel, axioms ⊆ {propext, Classical.choice, Quot.sound}; hand-written heap model tied to /repo by '
             'the correspondence run only; float times exact on multiples of 1/8; recursion limit not modelled.',
        ref='DESIGN.md §4 C01', technique='Lean 4 proof + model/implementation correspondence'),
    'C02': dict(
        text='Listing = sorted path keys is proved a permutation of the inserted nodes with parents first; the implementation\'s '
             'listing is compared with the model on random build programs and with a shadow multiset of added leaves.',
        note='Trusted as C01; MAX_GRAPH_DEPTH/recursion limit outside the model.',
        ref='DESIGN.md §4 C02', technique='Lean 4 proof + model/implementation correspondence'),
    'C04': dict(
        text='Duration = span is proved of the model\'s (lead, span) evaluator; the implementation (after the R2 repair) is compared '
             'with the model and with the span recomputed from its own reported times on forced and random programs.',
        note='Trusted as C01.',
        ref='DESIGN.md §4 C04', technique='Lean 4 proof + model/implementation correspondence'),
}

ALL = [f'C{i:02d}' for i in range(1, 20)]


def main():
    checks = []
    for pid, c in CHECKS.items():
        checks.append({
            'property_id': pid,
            'quick_cmd': f'./check {pid} --tier quick',
            'thorough_cmd': f'./check {pid} --tier thorough',
            'evidence_file': f'evidence/{pid}.json',
            'replay_cmd_template': './check replay {path}',
            'engine': 'qcoverif',
            'level_claimed': {'category': 'proof', 'text': c['text'], 'design_ref': c['ref']},
            'level_note': c['note'],
            'technique': c['technique'],
        })
    na = [{'property_id': p, 'reason': 'check not built yet in this round (planned, see DESIGN.md §4)'}
          for p in ALL if p not in CHECKS]
    doc = {
        'version': 1,
        'setup_cmd': 'cd lean && lake build',
        'hooks': {
            'guard': 'QCOCIRCUITS_VERIF',
            'enable': 'no hooks are needed: every observation point is public API (DESIGN.md §2.6)',
            'baseline_off_cmd': 'cd /repo && /venv/bin/python -m pytest -ra -q -p no:cacheprovider --timeout=900 --continue-on-collection-errors',
            'source_commits': [],
            'add_only': True,
        },
        'engines': [{
            'name': 'qcoverif', 'path': 'lean',
            'serves_properties': sorted(CHECKS),
            'kind_free_text': 'Lean 4 model + theorems (lake project), native line-protocol driver, Python correspondence harness (harness/)',
        }],
        'checks': checks,
        'not_applicable': na,
        'notes': 'Exit 2 = infrastructure failure. Known findings: known_findings.json. See DESIGN.md.',
    }
    (ROOT / 'MANIFEST.json').write_text(json.dumps(doc, indent=1) + '\n')


if __name__ == '__main__':
    main()
