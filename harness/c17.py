"""C17 — declared and derived gate-sequence layouts are executable.

Proof side: Properties/C17.lean (table theorems over the generated layouts, filter lemmas for every list of
involved qubits, index-map bijectivity, composite exclusions).  Correspondence side (this file): every shipped
layout, `RepetitionCodeDescription.from_connectivity` on all contiguous chains + random subsets/orderings (+
supplied index maps, + duplicates as malformed stream) and `CompositeRepetitionCodeDescription` with exclusions;
the getters `gate_sequences`, `get_gate_sequence_indices`, `get_park_sequence_indices`, `circuit_channel_map` (and
the id lists) are compared with the Lean model through the `conn` driver module and judged by the property
predicate, evaluated by the driver (`spec-layer`) and independently in Python on the implementation's answers.
"""
from __future__ import annotations
import json
import time
from collections import Counter

from . import common, connlib
from .connlib import b

PROP = 'C17'

RULE = ('shipped layouts: every GenericSurfaceCode subclass of repetition_code_connectivity.py (all layers) and the '
        'Surface17Layer tables; derived descriptions: for each layout all contiguous chains of its parity-group graph '
        '(both directions), random subsets / orderings of the 17 device qubits (including qubits foreign to the layout), '
        'supplied random index maps (some partial), a malformed stream with repeated qubits; composite descriptions: a '
        'derived base, optional leading gate description, random excluded edges / qubits, both values of '
        '_only_required_parking_operations. Non-trivial = the description has at least one gate in some layer (derived/'
        'composite) or the case is a shipped layer; distinct = distinct (layout, involved list, map, exclusions).')


# ------------------------------------------------------------------------------- known-finding matchers

# name -> f(payload, finding); no open finding of C17 at present (R17, composite exclusions kept the base parking
# list, was repaired in /repo 9bbfc50: its failing inputs are corpus/C17/r17_*.json and run first).
MATCHERS: dict = {}


# ------------------------------------------------------------------------------- implementation side

def layout_objects():
    """[(name, instance)] in the translator's order."""
    import importlib.util
    spec = importlib.util.spec_from_file_location('qco_extract_tables', str(common.VERIF / 'tools' / 'extract_tables.py'))
    mod = importlib.util.module_from_spec(spec)
    spec.loader.exec_module(mod)
    return mod.shipped_layouts()


_LAYOUTS = None


def layouts():
    global _LAYOUTS
    if _LAYOUTS is None:
        _LAYOUTS = layout_objects()
    return _LAYOUTS


_cache_allowed: dict = {}
_cache_parks: dict = {}


def impl_allowed(L, gates):
    key = tuple(gates)
    if key not in _cache_allowed:
        _cache_allowed[key] = L.impl_allowed(gates)
    return _cache_allowed[key]


def impl_parks(L, gates):
    key = tuple(gates)
    if key not in _cache_parks:
        _cache_parks[key] = L.impl_parkset(gates)
    return _cache_parks[key]


def layer_flags(L, gates, parks):
    """The five layer properties on the implementation's layer, judged with the implementation's own
    get_requires_parking / get_mutually_allowed AND the independent Python predicates. Returns dict name -> bool."""
    qubits = [q for g in gates for q in g]
    edges_ok = all(L.is_device_edge(g) for g in gates)
    req_impl = impl_parks(L, gates)
    req_spec = L.park_set(gates) if edges_ok else req_impl
    return {
        'gates_are_edges': edges_ok,
        'qubits_distinct': len(set(qubits)) == len(qubits),
        'parked_not_gated': not (set(parks) & set(qubits)),
        'required_parked': set(req_impl) <= set(parks) and set(req_spec) <= set(parks),
        'accepted': bool(impl_allowed(L, gates)) and (L.accepted(gates) if edges_ok else True),
    }, sorted(set(req_impl) | set(req_spec), key=L.qubits.index)


def layers_of(L, seqs):
    return [([L.pair_of(op.identifier) for op in s.gate_operations], [op.identifier.id for op in s.park_operations]) for s in seqs]


def observe(L, desc):
    """All getters named in the property, canonical strings in the driver's format."""
    seqs = desc.gate_sequences
    layers = layers_of(L, seqs)
    n = len(layers)

    def safe(f):
        try:
            return f()
        except KeyError:
            return 'keyerror'
    gidx, pidx = [], []
    for i in range(n + 1):
        def g(i=i):
            r = desc.get_gate_sequence_indices(i)
            return 'None' if r is None else (','.join(f'{int(a)}:{int(c)}' for a, c in r) or '-')

        def p(i=i):
            r = desc.get_park_sequence_indices(i)
            return 'None' if r is None else (','.join(str(int(x)) for x in r) or '-')
        gidx.append(safe(g))
        pidx.append(safe(p))

    def cm():
        m = desc.circuit_channel_map
        return ','.join(f'{int(k)}:{L.qtok(v.id)}' for k, v in m.items()) or '-'
    return {
        'ids': [q.id for q in desc.qubit_ids],
        'data': [q.id for q in desc.data_qubit_ids],
        'anc': [q.id for q in desc.ancilla_qubit_ids],
        'layers': layers, 'gidx': gidx, 'pidx': pidx, 'cmap': safe(cm),
    }


def layers_str(L, layers):
    return '|'.join(f'g={L.ecsv(g)} p={L.qcsv(p)}' for g, p in layers) or '-'


def unique(xs):
    out = []
    for x in xs:
        if x not in out:
            out.append(x)
    return out


def judge_layers(L, layers, what_input):
    fails = []
    for i, (gates, parks) in enumerate(layers):
        flags, required = layer_flags(L, gates, parks)
        bad = [k for k, v in flags.items() if not v]
        if bad:
            fails.append({'what': 'layer-not-executable', 'layer': i, 'gates': ['-'.join(g) for g in gates], 'parked': parks,
                          'failed_flags': bad, 'requires_parking': required,
                          'unparked': [q for q in required if q not in parks]})
    return fails


def _eval_derived(case):
    """case: dict(layout=i, involved=[names], map=None|{name: idx}).  Returns dict(answer=str, fails=[...], nontrivial)."""
    L = connlib.live()
    from qce_circuit.library.repetition_code.circuit_components import RepetitionCodeDescription
    name, lay = layouts()[case['layout']]
    inv = case['involved']
    try:
        with connlib.quiet():
            kw = {}
            if case.get('map') is not None:
                kw['qubit_index_map'] = {L.q(k): v for k, v in case['map'].items()}
            desc = RepetitionCodeDescription.from_connectivity(involved_qubit_ids=[L.q(x) for x in inv], connectivity=lay, **kw)
            o = observe(L, desc)
            answer = (f"data={L.qcsv(o['data'])} anc={L.qcsv(o['anc'])} ids={L.qcsv(o['ids'])} layers={layers_str(L, o['layers'])} "
                      f"gidx={'|'.join(o['gidx'])} pidx={'|'.join(o['pidx'])} cmap={o['cmap']}")
            fails = []
            base_layers = layers_of(L, [lay.get_gate_sequence_at_index(i) for i in range(lay.gate_sequence_count)])
            # derived gates = filter (both ends involved)
            want = [[g for g in gates if g[0] in inv and g[1] in inv] for gates, _ in base_layers]
            if [g for g, _ in o['layers']] != want:
                fails.append({'what': 'derived-gates-are-not-the-filter', 'expected': want, 'observed': [g for g, _ in o['layers']]})
            fails += judge_layers(L, o['layers'], case)
            # the description's qubit ids are exactly its data and ancilla qubits (each once): the identifiers the index map
            # has to cover (seeded change C17-m3 dropped ancillas from `qubit_ids`, and with them from the channel map)
            # (judged for involved lists without repetition: the property's quantifier; a repeated qubit is a malformed input)
            nodup = len(set(inv)) == len(inv)
            if nodup and sorted(o['ids']) != sorted(set(o['data']) | set(o['anc'])):
                fails.append({'what': 'qubit-ids-are-not-data-plus-ancilla', 'ids': o['ids'], 'data': o['data'], 'anc': o['anc']})
            # index map: bijective on the description's own qubit ids; default map = position in the involved list
            if nodup and o['cmap'] != 'keyerror':
                pairs = [x.split(':') for x in o['cmap'].split(',')] if o['cmap'] != '-' else []
                idx_of = {L.qubits[int(qt)]: int(i) for i, qt in pairs}
                injective_supplied = case.get('map') is None or len(set(case['map'][q] for q in o['ids'])) == len(o['ids'])
                if injective_supplied:
                    if len(pairs) != len(o['ids']) or set(idx_of) != set(o['ids']) or len(set(idx_of.values())) != len(idx_of):
                        fails.append({'what': 'channel-map-not-bijective', 'cmap': o['cmap'], 'ids': o['ids']})
                    if case.get('map') is None and any(idx_of.get(q) != inv.index(q) for q in o['ids']):
                        fails.append({'what': 'default-index-is-not-the-position', 'cmap': o['cmap'], 'involved': inv})
                    m = (lambda q: inv.index(q)) if case.get('map') is None else (lambda q: case['map'][q])
                    for i, (gates, parks) in enumerate(o['layers']):
                        try:
                            wg = ','.join(f'{m(a)}:{m(c)}' for a, c in unique_edges(gates)) or '-'
                            wp = ','.join(str(m(q)) for q in parks if q in o['ids']) or '-'
                        except (KeyError, ValueError):
                            continue          # a gate/park qubit outside the map: the getter raises, judged by correspondence
                        if o['gidx'][i] != wg:
                            fails.append({'what': 'gate-sequence-indices', 'layer': i, 'expected': wg, 'observed': o['gidx'][i]})
                        if o['pidx'][i] != wp:
                            fails.append({'what': 'park-sequence-indices', 'layer': i, 'expected': wp, 'observed': o['pidx'][i]})
                    if o['gidx'][-1] != 'None' or o['pidx'][-1] != 'None':
                        fails.append({'what': 'out-of-range-index-does-not-answer-None'})
            return {'answer': answer, 'fails': fails[:4], 'nontrivial': any(g for g, _ in o['layers']),
                    'n_gates': sum(len(g) for g, _ in o['layers']), 'dropped': [q for q in inv if q not in o['ids']]}
    except Exception as e:  # noqa
        return {'answer': f'EXC:{type(e).__name__}:{str(e)[:100]}', 'fails': [], 'nontrivial': False, 'n_gates': 0, 'dropped': []}


def unique_edges(gates):
    out = []
    for g in gates:
        if not any(frozenset(g) == frozenset(x) for x in out):
            out.append(g)
    return out


def build_composite(L, case):
    from qce_circuit.library.repetition_code.circuit_components import RepetitionCodeDescription, CompositeRepetitionCodeDescription
    name, lay = layouts()[case['layout']]
    inv, lead = case['involved'], case.get('lead')
    base = RepetitionCodeDescription.from_connectivity(involved_qubit_ids=[L.q(x) for x in inv], connectivity=lay)
    lead_desc = None if lead is None else RepetitionCodeDescription.from_connectivity(involved_qubit_ids=[L.q(x) for x in lead], connectivity=lay)
    index_map = {L.q(x): i for i, x in enumerate(unique(inv + (lead or [])))}
    comp = CompositeRepetitionCodeDescription(
        _base_description=base, _qubit_index_map=index_map, _connectivity=lay, _leading_gate_description=lead_desc,
        _exclude_gate_edge_ids=[L.e(p) for p in case['xe']], _exclude_gate_qubit_ids=[L.q(x) for x in case['xq']],
        _only_required_parking_operations=case['req'])
    return base, lead_desc, comp


def _eval_composite(case):
    L = connlib.live()
    try:
        with connlib.quiet():
            base, lead_desc, comp = build_composite(L, case)
            # the descriptions the composite is built on, before the composite is asked anything (seeded changes C17-m7 / C10-m7:
            # the parks an exclusion makes necessary are appended IN PLACE to the list the base layer hands out)
            before = [layers_of(L, d.gate_sequences) for d in (base, lead_desc) if d is not None]
            o = observe(L, comp)
            answer = (f"ids={L.qcsv(o['ids'])} layers={layers_str(L, o['layers'])} gidx={'|'.join(o['gidx'])} "
                      f"pidx={'|'.join(o['pidx'])} cmap={o['cmap']}")
            src = layers_of(L, (lead_desc or base).gate_sequences)
            fails = []
            after = [layers_of(L, d.gate_sequences) for d in (base, lead_desc) if d is not None]
            if after != before:
                k = next(i for i, (x, y) in enumerate(zip(before, after)) if x != y)
                fails.append({'what': 'querying-the-composite-changed-the-description-it-is-built-on',
                              'which': 'base' if k == 0 else 'leading', 'before': before[k], 'after': after[k]})
            xe = [frozenset(p) for p in case['xe']]
            want = [[g for g in gates if frozenset(g) not in xe and not (set(g) & set(case['xq']))] for gates, _ in src]
            if [g for g, _ in o['layers']] != want:
                fails.append({'what': 'composite-gates-are-not-the-filter', 'expected': want, 'observed': [g for g, _ in o['layers']]})
            for f in judge_layers(L, o['layers'], case):
                i = f['layer']
                removed = [g for g in src[i][0] if g not in o['layers'][i][0]]
                f['qubits_of_excluded_base_gates'] = sorted({q for g in removed for q in g})
                fails.append(f)
            return {'answer': answer, 'fails': fails[:4], 'nontrivial': any(g for g, _ in o['layers']),
                    'n_gates': sum(len(g) for g, _ in o['layers'])}
    except Exception as e:  # noqa
        return {'answer': f'EXC:{type(e).__name__}:{str(e)[:100]}', 'fails': [], 'nontrivial': False, 'n_gates': 0}


# ------------------------------------------------------------------------------- case generation

def chains(lay):
    """All contiguous chains (simple paths) of the layout's parity-group graph, as name lists (both directions)."""
    adj = {}
    for g in list(lay.parity_group_x) + list(lay.parity_group_z):
        for d in g.data_ids:
            adj.setdefault(g.ancilla_id.id, set()).add(d.id)
            adj.setdefault(d.id, set()).add(g.ancilla_id.id)
    out = []

    def dfs(path):
        if len(out) > 4000:
            return
        out.append(list(path))
        for nx in sorted(adj[path[-1]]):
            if nx not in path:
                path.append(nx)
                dfs(path)
                path.pop()
    for start in sorted(adj):
        dfs([start])
    return out


def derived_cases(L, tier, rng, corpus):
    cases = []
    for d in corpus:
        if d.get('kind') == 'derived':
            cases.append({'layout': d['layout'], 'involved': d['involved'], 'map': d.get('map'), 'origin': 'corpus'})
    for li, (name, lay) in enumerate(layouts()):
        ch = chains(lay)
        if tier == 'quick' and len(ch) > 140:
            ch = [c for c in ch if len(c) in (1, 2, 3, 5, 7, 9, 17)] + rng.sample(ch, 40)
        for c in ch:
            cases.append({'layout': li, 'involved': c, 'map': None, 'origin': 'chain'})
        lay_qubits = [q.id for q in lay.involved_qubit_ids]
        n = 70 if tier == 'quick' else 900
        for _ in range(n):
            r = rng.random()
            pool = L.qubits if r < 0.5 else lay_qubits
            k = rng.randint(0, len(pool))
            inv = rng.sample(pool, k)
            mp = None
            origin = 'random'
            r2 = rng.random()
            if r2 < 0.2 and inv:
                vals = rng.sample(range(0, 40), len(inv))
                mp = dict(zip(inv, vals))
                origin = 'supplied-map'
                if rng.random() < 0.3:
                    mp.pop(rng.choice(inv))
                    origin = 'partial-map'
                if rng.random() < 0.15 and len(inv) >= 2:
                    mp[inv[0]] = mp.get(inv[1], 0)
                    origin = 'non-injective-map'
            elif r2 < 0.28 and inv:
                inv = inv + [rng.choice(inv)]
                rng.shuffle(inv)
                origin = 'repeated-qubit'
            cases.append({'layout': li, 'involved': inv, 'map': mp, 'origin': origin})
    return cases


def composite_cases(L, tier, rng, corpus):
    cases = []
    for d in corpus:
        if d.get('kind') == 'composite':
            cases.append({'layout': d['layout'], 'involved': d['involved'], 'lead': d.get('lead'),
                          'xe': [tuple(x.split('-')) for x in d.get('exclude_edges', [])], 'xq': d.get('exclude_qubits', []),
                          'req': bool(d.get('only_required')), 'origin': 'corpus'})
    for li, (name, lay) in enumerate(layouts()):
        ch = chains(lay)
        lay_qubits = [q.id for q in lay.involved_qubit_ids]
        lay_gates = [L.pair_of(op.identifier) for i in range(lay.gate_sequence_count) for op in lay.get_gate_sequence_at_index(i).gate_operations]
        n = 110 if tier == 'quick' else 1500
        for _ in range(n):
            inv = list(rng.choice(ch)) if rng.random() < 0.6 else rng.sample(lay_qubits, rng.randint(2, len(lay_qubits)))
            lead = None
            if rng.random() < 0.25:
                lead = list(rng.choice(ch)) if rng.random() < 0.6 else rng.sample(lay_qubits, rng.randint(2, len(lay_qubits)))
            src = lead if lead is not None else inv
            inside = [g for g in lay_gates if g[0] in src and g[1] in src]
            xe, xq = [], []
            r = rng.random()
            if r < 0.75 and inside:
                xe = rng.sample(inside, rng.randint(1, min(3, len(inside))))
                if rng.random() < 0.4:
                    xe = [(c, a) if rng.random() < 0.5 else (a, c) for a, c in xe]
            if rng.random() < 0.35 and src:
                xq = rng.sample(src, rng.randint(1, min(2, len(src))))
            if rng.random() < 0.1:
                xe.append(rng.choice(lay_gates))
            cases.append({'layout': li, 'involved': inv, 'lead': lead, 'xe': xe, 'xq': xq, 'req': rng.random() < 0.5, 'origin': 'random'})
    return cases


# ------------------------------------------------------------------------------- layouts: tables + executability

def layout_checks(L):
    """Table correspondence lines for the shipped layouts and the property judged on the implementation's objects."""
    lines, expect, meta = [], [], {}
    names = [n for n, _ in layouts()]
    lines.append('conn layouts')
    expect.append(','.join(names))
    fails = []
    samples = []
    n_layers = 0

    def par(groups):
        return ';'.join(f"{ {'STABILIZER_X': 0, 'STABILIZER_Z': 1}[g.parity_type.name] }:{L.qtok(g.ancilla_id.id)}:{L.qcsv([d.id for d in g.data_ids])}"
                        for g in groups) or '-'
    for li, (name, lay) in enumerate(layouts()):
        layers = layers_of(L, [lay.get_gate_sequence_at_index(i) for i in range(lay.gate_sequence_count)])
        lines.append(f'conn layout {li}')
        expect.append(f"name={name} layers={layers_str(L, layers)} x={par(lay.parity_group_x)} z={par(lay.parity_group_z)} "
                      f"data={L.qcsv([q.id for q in lay.data_qubit_ids])} anc={L.qcsv([q.id for q in lay.ancilla_qubit_ids])}")
        for f in judge_layers(L, layers, None):
            fails.append({**f, 'what': 'shipped-layer-not-executable', 'layout': name})
        n_layers += len(layers)
        # the driver's predicate on the implementation's layers
        for i, (g, p) in enumerate(layers):
            meta[len(lines)] = {'layout': name, 'layer': i, 'gates': ['-'.join(x) for x in g], 'parked': p}
            lines.append(f'conn spec-layer g={L.ecsv(g)} p={L.qcsv(p)}')
            expect.append('11111')
        # every edge of every parity group exactly once over the sequence
        all_gates = [frozenset(g) for gates, _ in layers for g in gates]
        for grp in list(lay.parity_group_x) + list(lay.parity_group_z):
            for e in grp.edge_ids:
                c = all_gates.count(frozenset(L.pair_of(e)))
                if c != 1:
                    fails.append({'what': 'parity-edge-not-exercised-exactly-once', 'layout': name, 'edge': e.id, 'count': c})
        meta[len(lines)] = {'layout': name}
        lines.append(f'conn spec-covered {li}')
        expect.append('1')
        samples.append({'layout': name, 'layer0': {'gates': ['-'.join(g) for g in layers[0][0]], 'parked': layers[0][1]}})
    return lines, expect, fails, n_layers, samples, meta


# ------------------------------------------------------------------------------- the check

def payload_input(L, kind, case):
    name = layouts()[case['layout']][0]
    d = {'kind': kind, 'layout': case['layout'], 'layout_name': name, 'involved': case['involved']}
    if kind == 'derived':
        d['map'] = case.get('map')
    else:
        d.update({'lead': case.get('lead'), 'exclude_edges': ['-'.join(p) for p in case['xe']], 'exclude_qubits': case['xq'],
                  'only_required': case['req']})
    return d


def shrink_case(L, kind, case, what):
    """Greedy: drop involved qubits / exclusions while a failure of the same kind remains."""
    ev = _eval_derived if kind == 'derived' else _eval_composite

    def still(c):
        return any(f['what'] == what for f in ev(c)['fails'])
    cur = dict(case)
    for field in ('involved', 'xe', 'xq', 'lead'):
        if not isinstance(cur.get(field), list):
            continue
        changed = True
        while changed:
            changed = False
            for i in range(len(cur[field])):
                cand = dict(cur)
                cand[field] = cur[field][:i] + cur[field][i + 1:]
                if cand.get('map') is not None:
                    cand['map'] = {k: v for k, v in cand['map'].items() if k in cand['involved']}
                if still(cand):
                    cur = cand
                    changed = True
                    break
    return cur


def run(tier: str, seed: int) -> int:
    t0 = time.time()
    oc = common.Outcome(PROP)
    lean = common.proof_obligations(PROP)
    proof_ok = bool(lean['build_ok'] and not lean['failed'])
    if not connlib.ensure_driver(lean):
        print(f'model driver missing: {lean.get("build_output", "")[-800:]}')
        return 2
    L = connlib.live()
    rng = common.rng_for(seed, PROP)
    corpus = connlib.load_corpus(PROP)
    stats = Counter()
    dist = {'origin': Counter(), 'involved_size': Counter(), 'gates_kept': Counter(), 'layout': Counter(),
            'composite_only_required': Counter(), 'dropped_foreign_qubits': Counter()}
    nontrivial = set()
    reported = set()
    disagreements = []

    def report(kind_key, payload, found=True):
        kf = connlib.attribute(PROP, MATCHERS, payload)
        if kf is not None:
            oc.known_finding(kf)
            return
        if kind_key in reported:
            return
        reported.add(kind_key)
        oc.violation(payload, found_input=found)

    # ---- 1. shipped layouts: tables + the property on the implementation's own layout objects
    lines, expect, lfails, n_layers, lsamples, lmeta = layout_checks(L)
    res = common.run_driver(lines)
    stats['layout_layers'] = n_layers
    stats['layout_queries'] = len(lines)
    for k, ((l, e), r) in enumerate(zip(zip(lines, expect), res)):
        if e != r:
            if l.startswith('conn spec-'):
                lfails.append({'what': 'shipped-layer-not-executable (driver predicate)', 'query': l,
                               'flags(edges,distinct,parked-not-gated,required-parked,accepted)': r, **lmeta.get(k, {})})
            else:
                stats['disagreements'] += 1
                disagreements.append({'kind': 'layout-table', 'query': l, 'implementation': e, 'model': r})
    for f in lfails:
        stats['predicate_failures'] += 1
        report('layout:' + f['what'], {'property': PROP, 'kind': 'predicate-fails-on-implementation', 'failure': f,
                                       'input': {'kind': 'shipped-layout', 'layout_name': f.get('layout'), 'layer': f.get('layer')}})
    for li, (name, lay) in enumerate(layouts()):
        for i in range(lay.gate_sequence_count):
            nontrivial.add(('layer', name, i))

    # ---- 2. derived descriptions
    dcases = derived_cases(L, tier, rng, corpus)
    dimpl = connlib.pmap(_eval_derived, dcases)
    dlines = []
    for c in dcases:
        mp = '' if c.get('map') is None else ' map=' + (','.join(f'{L.qtok(k)}:{v}' for k, v in c['map'].items()) or '-')
        dlines.append(f"conn derived {c['layout']} {L.qcsv(c['involved'])}{mp}")
    dmod = common.run_driver(dlines)
    for c, im, mo in zip(dcases, dimpl, dmod):
        stats['derived_cases'] += 1
        dist['origin'][c['origin']] += 1
        dist['involved_size'][len(c['involved'])] += 1
        dist['layout'][layouts()[c['layout']][0]] += 1
        dist['gates_kept'][min(im['n_gates'], 16)] += 1
        dist['dropped_foreign_qubits'][len(im.get('dropped', []))] += 1
        if im['nontrivial']:
            nontrivial.add(('derived', c['layout'], tuple(c['involved']), json.dumps(c.get('map'), sort_keys=True)))
        for f in im['fails']:
            stats['predicate_failures'] += 1
            if 'derived:' + f['what'] in reported:
                continue          # one shrunk replay per failure class
            small = shrink_case(L, 'derived', c, f['what'])
            sf = [x for x in _eval_derived(small)['fails'] if x['what'] == f['what']]
            report('derived:' + f['what'], {'property': PROP, 'kind': 'predicate-fails-on-implementation',
                                            'failure': (sf or [f])[0], 'input': payload_input(L, 'derived', small)})
        if im['answer'] != mo:
            stats['disagreements'] += 1
            disagreements.append({'kind': 'derived', 'case': c, 'implementation': im['answer'], 'model': mo, 'predicate_failures': im['fails']})

    # ---- 3. composite descriptions with exclusions
    ccases = composite_cases(L, tier, rng, corpus)
    cimpl = connlib.pmap(_eval_composite, ccases)
    clines = [f"conn composite {c['layout']} {L.qcsv(c['involved'])} xe={L.ecsv(c['xe'])} xq={L.qcsv(c['xq'])} req={b(c['req'])} "
              f"lead={'none' if c.get('lead') is None else L.qcsv(c['lead'])}" for c in ccases]
    cmod = common.run_driver(clines)
    for c, im, mo in zip(ccases, cimpl, cmod):
        stats['composite_cases'] += 1
        dist['composite_only_required'][b(c['req'])] += 1
        if im['nontrivial']:
            nontrivial.add(('composite', c['layout'], tuple(c['involved']), tuple(c.get('lead') or ()), tuple(c['xe']), tuple(c['xq']), c['req']))
        for f in im['fails']:
            stats['predicate_failures'] += 1
            key = 'composite:' + f['what'] + ':' + ','.join(f.get('failed_flags', []))
            payload = {'property': PROP, 'kind': 'predicate-fails-on-implementation', 'failure': f,
                       'input': payload_input(L, 'composite', c), 'model_agrees_with_implementation': im['answer'] == mo}
            if connlib.attribute(PROP, MATCHERS, payload) is not None or key in reported:
                report(key, payload)
                continue
            small = shrink_case(L, 'composite', c, f['what'])
            sf = [x for x in _eval_composite(small)['fails'] if x['what'] == f['what']]
            report(key, {'property': PROP, 'kind': 'predicate-fails-on-implementation', 'failure': (sf or [f])[0],
                         'input': payload_input(L, 'composite', small),
                         'model_agrees_with_implementation': im['answer'] == mo})
        if im['answer'] != mo:
            stats['disagreements'] += 1
            disagreements.append({'kind': 'composite', 'case': c, 'implementation': im['answer'], 'model': mo, 'predicate_failures': im['fails']})

    # ---- 4. disagreement / broken proof obligation → search
    if disagreements:
        found = any(d.get('predicate_failures') for d in disagreements)
        if not found:
            report('dis', {'property': PROP, 'kind': 'correspondence-broken',
                           'unchecked': 'correspondence Lean model <-> implementation (conn driver module: layouts, derived, composite)',
                           'first_difference': json.loads(json.dumps(disagreements[0], default=str)),
                           'disagreements': len(disagreements)}, found=False)
    sem = common.pysem_stage(oc, PROP, ['conn'], seed, tier)
    if not proof_ok:
        # which table entry fails? the driver evaluates the theorem's predicate layer by layer on the generated tables
        bad = []
        try:
            names = [n for n, _ in layouts()]
            flags = common.run_driver([f'conn spec-layout {i}' for i in range(len(names))] + [f'conn spec-covered {i}' for i in range(len(names))])
            for i, nme in enumerate(names):
                for j, fl in enumerate(flags[i].split(',')):
                    if fl != '11111':
                        bad.append({'layout': nme, 'layer': j, 'flags(edges,distinct,parked-not-gated,required-parked,accepted)': fl})
                if flags[len(names) + i] != '1':
                    bad.append({'layout': nme, 'parity_groups_covered_exactly_once': False})
        except Exception as e:  # noqa
            bad = [{'error': str(e)}]
        if not [v for v in oc.violations if v[1]]:
            oc.violation({'property': PROP, 'kind': 'proof-obligation-broken', 'unchecked': lean.get('failed'),
                          'generated_table_entries_failing_the_theorem_predicate': bad,
                          'note': 'no input was found on which the implementation itself violates the property',
                          'build_output': lean.get('build_output', '')[-3000:], 'axioms': lean.get('axioms')},
                         found_input=False)

    # ---- evidence
    wall = time.time() - t0
    evaluations = stats['layout_queries'] + stats['derived_cases'] + stats['composite_cases']
    coverage = {}
    if lean['obligations']:
        coverage.update({'obligations': lean['obligations'], 'discharged': lean['discharged']})
    coverage.update({
        'checker_cmd': lean['checker_cmd'],
        'trusted_base': common.TRUSTED_BASE,
        'theorems': lean.get('theorems', []),
        'axioms': lean.get('axioms', {}),
        **sem,
        'evaluations': evaluations,
        'distinct_nontrivial': len(nontrivial),
        'rule': RULE,
        'samples': lsamples[:1] + [payload_input(L, 'derived', dcases[len(dcases) // 2])] + [payload_input(L, 'composite', ccases[len(ccases) // 2])],
        'traces_validated_against_impl': evaluations - stats['disagreements'],
        'disagreements': stats['disagreements'],
        'first_disagreement': json.loads(json.dumps(disagreements[:1], default=str)),
        'counts': dict(stats),
        'corpus_cases': len(corpus),
        'input_distribution': {k: {str(a): n for a, n in sorted(v.items(), key=lambda x: str(x[0]))} for k, v in dist.items()},
        'known_findings_printed': oc.known,
        'lean': {k: lean.get(k) for k in ('build_ok', 'build_s', 'lean_s', 'failed', 'forbidden_hits', 'translator')},
    })
    common.write_evidence(PROP, tier, seed, coverage, wall, len(oc.violations),
                          ['Surface17Layer ships parity groups but no gate sequence: its "layout" obligations are the parity/edge tables',
                           'bijectivity is about the description\'s own qubit_ids (involved qubits foreign to the layout are dropped by from_connectivity)',
                           'supplied index maps are judged only when injective on qubit_ids (stated hypothesis of channel_map_bijective_of_injective)'])
    return oc.emit()


def replay(doc: dict) -> int:
    """Re-runs one replay file on the current implementation; 1 = still violates."""
    inp = doc.get('input') or {}
    if inp.get('kind') == 'derived':
        r = _eval_derived({'layout': inp['layout'], 'involved': inp['involved'], 'map': inp.get('map')})
    elif inp.get('kind') == 'composite':
        r = _eval_composite({'layout': inp['layout'], 'involved': inp['involved'], 'lead': inp.get('lead'),
                             'xe': [tuple(x.split('-')) for x in inp.get('exclude_edges', [])], 'xq': inp.get('exclude_qubits', []),
                             'req': bool(inp.get('only_required'))})
    elif inp.get('kind') == 'shipped-layout':
        L = connlib.live()
        _, _, fails, _, _, _ = layout_checks(L)
        print(json.dumps({'failures': fails}, default=str))
        return 1 if fails else 0
    else:
        print('replay names no input (a proof obligation or the correspondence broke): run ./check C17')
        return 1
    print(json.dumps({'input': inp, 'answer': r['answer'], 'failures': r['fails']}, default=str))
    return 1 if r['fails'] else 0
