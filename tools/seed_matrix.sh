#!/bin/bash
# usage (background): vp run --with-repo -- tools/seed_matrix.sh ["<seeded ids>"] ["<props>"] [seed]
# Applies every seeded change to the SNAPSHOT of /repo ($VP_RUN_REPO, never /repo itself), runs the checks against it
# (PYTHONPATH), restores the snapshot.  Prints "<id> <prop> exit=<rc>" and a matrix line per seeded change.
cd "$(dirname "$0")/.."
R=${VP_RUN_REPO:?needs vp run --with-repo}
export PYTHONPATH="$R/src:$PYTHONPATH"
IDS=${1:-$(ls seeded)}; PROPS=${2:-"C01 C02 C03 C04 C05 C06 C07 C08 C09 C10 C11 C12 C13 C14 C15 C16 C17 C18 C19"}; export VERIF_SEED=${3:-0}
[ -x lean/.lake/build/bin/qcodriver ] || (cd lean && lake build > /dev/null 2>&1)
mkdir -p soaklogs
for id in $IDS; do
  git -C $R checkout -q -- . ; git -C $R apply --whitespace=nowarn "$(pwd)/seeded/$id/patch.diff" || { echo "$id patch-failed"; continue; }
  caught=""
  for p in $PROPS; do
    ./check $p --tier quick > soaklogs/m-$id-$p.log 2>&1; rc=$?
    echo "$id $p exit=$rc"
    [ $rc -eq 1 ] && caught="$caught $p"
    [ $rc -eq 2 ] && tail -3 soaklogs/m-$id-$p.log
  done
  git -C $R checkout -q -- .
  echo "MATRIX $id caught-by:$caught"
done
