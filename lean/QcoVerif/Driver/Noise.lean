/-
  Stateless driver module `noise`: `handle args` answers one line. Filled in by the Noise model.
-/
namespace Qco.Driver.Noise

def handle (_args : List String) : String := "bad-op"

end Qco.Driver.Noise
