"""C07 — acquisition indices enumerate measurements exactly, in order."""
from . import common, progs, streamcheck

PROP = 'C07'

W = [3.0 if c == 'DispersiveMeasure' else 0.35 for c in progs.ALL_LEAF]


def nontrivial(prog, f):
    return f['cls'].get('DispersiveMeasure', 0) >= 3 and (f['sub'] >= 1 or f['apply'] >= 1)


class Cfg(progs.GenConfig):
    pass


def own_registry_program(prog):
    """rewrites measurement registries to the circuit the measurement is added to (the property's quantifier)."""
    out = []
    for c in prog:
        if c[0] == 'op' and c[2] == 'DispersiveMeasure':
            c = list(c)
            c[7] = c[1]
        out.append(c)
    return out


def extra(rng, tier):
    import random
    n = 500 if tier == 'quick' else 15000
    out = []
    # implicitly sequenced programs (time-monotonicity clause) ending in apply + list
    cfg = progs.GenConfig(n_cmds=(6, 30), p_list=0.0, p_rel=0.0, p_foreign=0.0, p_sub=0.14, p_apply=0.0, p_flatten=0.0,
                          p_copy=0.0, p_gdur=0.0, class_weights=W, final_list=False, reps=[1, 1, 2, 3])
    for _ in range(n):
        p = own_registry_program(progs.gen_program(random.Random(rng.getrandbits(64)), cfg))
        nc = sum(1 for c in p if c[0] == 'new')
        for i in range(nc):
            if rng.random() < 0.5:
                p.append(['list', i])      # indices read BEFORE the unrolling shifts them (seeded change C07-m3: memoised table)
            p.append(['apply', i])
            p.append(['list', i])
        out.append(p)
    # a sub-circuit CONSTRUCTED with a relation to an operation of its future parent, holding measurements created against its own
    # registry (seeded change C07-m6: the transfer table of add_sub_circuit loses the entry that re-targets those registries)
    M = 'DispersiveMeasure'
    for _ in range(30 if tier == 'quick' else 600):
        q = rng.randrange(3)
        p = [['new', 'f1']]
        nh = 0
        for _ in range(rng.randint(1, 3)):
            cls = rng.choice(['Rx180', 'Wait', M])
            p.append(['op', 0, cls, [rng.randrange(3)], 'A' if cls == M else 'M', None, rng.choice([0, 1, 2]) if cls == M else 0, 0, [], None])
            nh += 1
        p.append(['new', f'f{rng.choice([1, 1, 2])}', [rng.randrange(nh), rng.choice(['FB', 'JS', 'JE'])]])     # circuit 1
        for _ in range(rng.randint(1, 3)):
            cls = rng.choice([M, M, 'Rx180'])
            p.append(['op', 1, cls, [q if rng.random() < 0.6 else rng.randrange(3)], 'A' if cls == M else 'M', None,
                      rng.choice([0, 1, 2]) if cls == M else 0, 1 if cls == M else 0, [], None])
        if rng.random() < 0.4:                                               # measurements one level deeper
            p.append(['new', 'f1'])                                          # circuit 2
            p.append(['op', 2, M, [rng.randrange(3)], 'A', None, rng.choice([0, 1, 2]), 2, [], None])
            p.append(['sub', 1, 2])
        p.append(['sub', 0, 1])
        if rng.random() < 0.5:
            p.append(['op', 0, M, [q], 'A', None, rng.choice([0, 1, 2]), 0, [], None])
        p += [['list', 0], ['apply', 0], ['list', 0]]
        out.append(p)
    return out


SPEC = streamcheck.StreamSpec(
    PROP, probes=['C07'],
    cfg=progs.GenConfig(n_cmds=(6, 36), p_list=0.10, p_sub=0.14, p_apply=0.08, p_flatten=0.04, p_copy=0.0,
                        class_weights=W, p_newrel=0.15),
    n_quick=900, n_thorough=30000,
    nontrivial=nontrivial,
    extra_programs=extra,
    extra_check=lambda oc, tier, seed: common.pysem_stage(oc, PROP, ['acq', 'facade'], seed, tier, effects=True),
    rule='random build programs with ~35 % measurements, indices read at random points between the mutations (p=0.1 per command), tags from a 3-letter alphabet, registries drawn from all live '
         'circuits (the predicate is evaluated where every listed measurement was created against the circuit it was '
         'added to and all counts are 1), plus an implicitly sequenced stream ending in apply+list for the time-order '
         'clause; non-trivial = >= 3 measurements and nesting or unrolling; distinct = distinct program text',
    assumptions=['position in the exported measurement record is covered by C08 (export = image of the listing)'])


def run(tier, seed):
    return streamcheck.run(SPEC, tier, seed)
