/-
  Stateless driver module `kernel`: `handle args` answers one line. Filled in by the Kernel model.
-/
namespace Qco.Driver.Kernel

def handle (_args : List String) : String := "bad-op"

end Qco.Driver.Kernel
