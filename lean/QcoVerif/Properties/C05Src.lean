import QcoVerif.Properties.C05
import QcoVerif.Lemmas.BuilderSrc
import QcoVerif.Lemmas.FacadeSrc
/-
  C05 — tie to the SOURCE TEXT (DESIGN.md §2.3b).  Kept in a file of its own that nothing imports: a change of the translated
  source functions breaks THESE obligations only, not the build of the property files that import Properties/C05.lean.
-/
namespace Qco.C05
open Qco

/-! ### tie to the SOURCE TEXT of the builder (DESIGN.md §2.3b; proofs in Lemmas/BuilderSrc.lean)

`CircuitCompositeOperation.copy` and `.add`.  The functions act on objects: the fragment records such effects (`Py.callEffects`) instead of executing them. -/

section BuilderSourceTie
open Qco.Py Qco.Gen.PySrc Qco.BuilderSrc

/-- **`CircuitCompositeOperation.copy`**: a new composite (link copied through the lookup, SAME repetition strategy); per node in listing order: copy through the same lookup, record `lookup[operation] = copy`, `add` the copy — `World.copyObj`. -/
theorem composite_copy_effects_match_source (nodes : List Nat) :
    callEffects builderEnv Composite_copy [cpSelf nodes, cpLookup] =
      nodes.flatMap (fun n => [Val.tuple [.str "setitem", cpLookup, cpOp n, cpCopy n],
                               Val.tuple [.str "call", cpResult, .str "add", cpCopy n]]) ∧
    callFn builderEnv Composite_copy [cpSelf nodes, cpLookup] = cpResult :=
  BuilderSrc.composite_copy_matches_source nodes

/-- `CircuitCompositeOperation.add`: the graph attribute is replaced by what `add_to_graph(graph, operation)` returns. -/
theorem add_matches_source (g op : Val) (hg : g = .obj "Graph" 2 []) (hop : op = .obj "Operation" 7 []) :
    callEffects builderEnv Composite_add [.obj "CircuitCompositeOperation" 1 [("_circuit_graph", g)], op] =
      [Val.tuple [.str "setattr", .obj "CircuitCompositeOperation" 1 [("_circuit_graph", g)], .str "_circuit_graph",
        .tuple [.str "CircuitGraphBranch.add_to_graph", .tuple [.str "graph", g], .tuple [.str "operation", op]]]] :=
  BuilderSrc.add_matches_source g op hg hop

end BuilderSourceTie



/-! ### the facade `DeclarativeCircuit` as written (Lemmas/FacadeSrc.lean; DESIGN.md §2.3b) -/

section Facade
open Qco.Py Qco.Gen.PySrc Qco.BuilderSrc Qco.FacadeSrc

/-- **`add_sub_circuit`**: the sub-circuit is COPIED with the transfer table `{sub-circuit ↦ own structure}` (one entry, exactly this
    one), the COPY is added to the structure and recorded, and the copy is what is returned. -/
theorem facade_add_sub_circuit_matches_source (cp : Val) (hcp : cp = .obj "CircuitCompositeOperation" 8 []) :
    let sub := Val.obj "CircuitCompositeOperation" 5 [("copy()", cp)]
    callEffects builderEnv Decl_add_sub_circuit [declObj 1 (stObj 2 []) addedObj regObj, sub] =
      [Val.tuple [.str "call", stObj 2 [], .str "add", cp],
       Val.tuple [.str "call", addedObj, .str "append", cp]] ∧
    callFn builderEnv Decl_add_sub_circuit [declObj 1 (stObj 2 []) addedObj regObj, sub] = cp :=
  FacadeSrc.add_sub_circuit_matches_source cp hcp

/-- the transfer table `add_sub_circuit` hands to `copy`: one pair, sub-circuit ↦ own structure. -/
theorem facade_add_sub_circuit_lookup (sub st : Val) :
    eval builderEnv (Vars.set (Vars.set [] "self" (declObj 1 st addedObj regObj)) "operation" sub)
      (.call "dict_of" [.name "operation", .attr (.name "self") "_structure"]) = .list [.tuple [sub, st]] :=
  FacadeSrc.add_sub_circuit_lookup sub st

end Facade

end Qco.C05
