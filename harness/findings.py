"""Attribution of observed violations to the committed known findings (known_findings.json).

A violation is attributed only if (i) the Lean model — the validated description of the pinned
behaviour, defects included — gives the same answers as the implementation on that input, and
(ii) the finding's own matcher (input class + failure signature) accepts it.  A disagreement between
model and implementation is never attributed."""
from __future__ import annotations
from . import common

MATCHERS = {}


def matcher(name):
    def deco(f):
        MATCHERS[name] = f
        return f
    return deco


_cache = None


def open_findings(prop):
    global _cache
    if _cache is None:
        _cache = common.load_findings()
    return [f for f in _cache if f.get('status') == 'open' and prop in f.get('properties', [])]


def attribute(prop, result, failure):
    """result: dict(prog, impl, model, dis, fails). Returns the KNOWN-FINDING text or None."""
    if result.get('dis') is not None:
        return None
    for f in open_findings(prop):
        m = MATCHERS.get(f.get('matcher'))
        if m is not None and m(prop, result, failure, f):
            return f"{f['id']}: {f['what_fails']}"
    return None


def attribute_disagreement(prop, result):
    return None
