"""Translator: code -> Lean tables (QcoVerif/Generated). Placeholder until the table models land."""
import json
print(json.dumps({"generated": []}))
