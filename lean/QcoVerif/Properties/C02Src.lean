import QcoVerif.Properties.C02
import QcoVerif.Lemmas.BuilderSrc
import QcoVerif.Generated.Limits
import QcoVerif.Lemmas.FacadeSrc
/-
  C02 — tie to the SOURCE TEXT (DESIGN.md §2.3b).  Kept in a file of its own that nothing imports: a change of the translated
  source functions breaks THESE obligations only, not the build of the property files that import Properties/C02.lean.
-/
namespace Qco.C02
open Qco

/-! ### tie to the SOURCE TEXT of the builder (DESIGN.md §2.3b; proofs in Lemmas/BuilderSrc.lean)

`CircuitGraphBranch.add_to_graph` and `get_corresponding_node`.  The functions act on objects: the fragment records such effects (`Py.callEffects`) instead of executing them. -/

section BuilderSourceTie
open Qco.Py Qco.Gen.PySrc Qco.BuilderSrc

/-- **`add_to_graph`: the effects of the source text, for every combination of `has_relation`, the leaf found and the node of the referenced operation**, and the returned graph. -/
theorem add_to_graph_matches_source (hasRel : Bool) (leaf relNode : Option Nat) :
    callEffects builderEnv Graph_add_to_graph [graphObj leaf relNode, newOpObj hasRel] = addEffects hasRel leaf relNode ∧
    callFn builderEnv Graph_add_to_graph [graphObj leaf relNode, newOpObj hasRel] = graphObj leaf relNode :=
  BuilderSrc.add_to_graph_matches_source hasRel leaf relNode

/-- those effects are a function of the decision `addDecision`. -/
theorem addEffects_by_decision (hasRel : Bool) (leaf relNode : Option Nat) :
    addEffects hasRel leaf relNode =
      (match addDecision hasRel leaf relNode with
       | .root => [evAppend (graphObj leaf relNode) rootNode (newNode hasRel)]
       | .relinkUnder l => [evRelink (newOpObj hasRel) (linkTo l), evAppend (graphObj leaf relNode) (nodeOf l) (newNode hasRel)]
       | .under r => [evAppend (graphObj leaf relNode) (nodeOf r) (newNode hasRel)]
       | .warnRoot => [evWarn, evRelink (newOpObj hasRel) noRelation, evAppend (graphObj leaf relNode) rootNode (newNode hasRel)]
       | .warnUnder l => [evWarn, evRelink (newOpObj hasRel) (linkTo l), evAppend (graphObj leaf relNode) (nodeOf l) (newNode hasRel)]) :=
  BuilderSrc.addEffects_by_decision hasRel leaf relNode

/-- **the model's `World.addToGraph` is driven by the same decision table** (when the reference of the link is defined). -/
theorem addToGraph_by_decision (w : World) (g : List Entry) (o : Nat)
    (hdef : w.hasRel o = true → ∃ r, w.refOf (w.op o).link = some (some r)) :
    w.addToGraph g o =
      applyDecision w g o (addDecision (w.hasRel o) (w.leafAtAny g (w.chansOf o)) (relNodeOf w g o)) :=
  BuilderSrc.addToGraph_by_decision w g o hdef

/-- `get_corresponding_node`: the first node whose operation IS the given one. -/
theorem get_corresponding_node_matches_source (nodes : List Nat) (o : Nat) :
    callFn builderEnv Graph_get_corresponding_node
        [.obj "Graph" 2 [("get_node_iterator()", .list (nodes.map plainNode))], plainOp o] =
      (match nodes.find? (fun n => n == o) with
       | some n => plainNode n
       | none => .none) :=
  BuilderSrc.get_corresponding_node_matches_source nodes o

end BuilderSourceTie


/-- **pinned limit**: the code's layer-by-layer walk of a graph stops silently after `MAX_GRAPH_DEPTH` layers (a chain of more
    operations than that on one channel is listed truncated); the model's listing is unbounded, so the listing theorems are about
    graphs of fewer layers.  The bound they are stated for is the one the pinned code has: lowering it breaks this obligation
    (and the harness then builds a chain deeper than the new bound). -/
theorem graph_depth_bound_pinned : 5000 ≤ Qco.Gen.maxGraphDepth := by decide


/-! ### the facade `DeclarativeCircuit` as written (Lemmas/FacadeSrc.lean; DESIGN.md §2.3b) -/

section Facade
open Qco.Py Qco.Gen.PySrc Qco.BuilderSrc Qco.FacadeSrc

/-- a `DeclarativeCircuit` with identity `i`: its structure, its list of added operations, its registry. -/
def declObj (i : Nat) (st added reg : Val) : Val :=
  .obj "DeclarativeCircuit" i [("_structure", st), ("_added_operations", added), ("_acquisition_registry", reg),
                               ("nr_qubits", .int 0), ("circuit_structure", st), ("acquisition_registry", reg)]

def stObj (i : Nat) (extra : List (String × Val)) : Val := .obj "CircuitCompositeOperation" i extra
def addedObj : Val := .obj "list" 90 []
def regObj : Val := .obj "AcquisitionRegistry" 91 []

/-- **`add_operation`**: the operation ITSELF is added to the structure and recorded; it is what is returned. -/
theorem facade_add_operation_matches_source (op : Val) (hop : op = .obj "Operation" 7 []) :
    callEffects builderEnv Decl_add_operation [declObj 1 (stObj 2 []) addedObj regObj, op] =
      [Val.tuple [.str "call", stObj 2 [], .str "add", op],
       Val.tuple [.str "call", addedObj, .str "append", op]] ∧
    callFn builderEnv Decl_add_operation [declObj 1 (stObj 2 []) addedObj regObj, op] = op :=
  FacadeSrc.add_operation_matches_source op hop

/-- **`add_sub_circuit`**: the sub-circuit is COPIED with the transfer table `{sub-circuit ↦ own structure}` (one entry, exactly this
    one), the COPY is added to the structure and recorded, and the copy is what is returned. -/
theorem facade_add_sub_circuit_matches_source (cp : Val) (hcp : cp = .obj "CircuitCompositeOperation" 8 []) :
    let sub := Val.obj "CircuitCompositeOperation" 5 [("copy()", cp)]
    callEffects builderEnv Decl_add_sub_circuit [declObj 1 (stObj 2 []) addedObj regObj, sub] =
      [Val.tuple [.str "call", stObj 2 [], .str "add", cp],
       Val.tuple [.str "call", addedObj, .str "append", cp]] ∧
    callFn builderEnv Decl_add_sub_circuit [declObj 1 (stObj 2 []) addedObj regObj, sub] = cp :=
  FacadeSrc.add_sub_circuit_matches_source cp hcp

/-- the transfer table `add_sub_circuit` hands to `copy`: one pair, sub-circuit ↦ own structure. -/
theorem facade_add_sub_circuit_lookup (sub st : Val) :
    eval builderEnv (Vars.set (Vars.set [] "self" (declObj 1 st addedObj regObj)) "operation" sub)
      (.call "dict_of" [.name "operation", .attr (.name "self") "_structure"]) = .list [.tuple [sub, st]] :=
  FacadeSrc.add_sub_circuit_lookup sub st

/-- **`get_last_entry`**: the last element of the list of added operations; raises on an empty circuit. -/
theorem facade_get_last_entry_matches_source (l : List Nat) :
    callFn builderEnv Decl_get_last_entry [declObj 1 (stObj 2 []) (.list (l.map plainOp)) regObj] =
      (match l.getLast? with
       | some n => plainOp n
       | none => .err "raised: NoReferenceOperationException") :=
  FacadeSrc.get_last_entry_matches_source l

end Facade

end Qco.C02
