import QcoVerif.Driver.Heap
import QcoVerif.Model.Draw
/-
  Extension of the `heap` session protocol (Draw, C18). `step` returns `none` for commands it does not know.

    plot <c> <order|-> <labels|-> <compact 0/1> <ro> <mw> <fl> <rs>
        order   comma separated qubit indices (`-` = none given)
        labels  comma separated `<qubit>=<label>` (`-` = none given)
        compact 1: draw under the durations `<ro> <mw> <fl> <rs>` (the drawing's own table, sent by the
                harness from the live `VISUALIZATION_DURATION_REGISTRY`); 0: under the ambient ones
      → `reject` | `undef` | `norow` |
        `ok rows=… labels=… width=… raises=0/1 settled=0/1 comps=… hl=…`
          comps  `;`-separated `<ComponentClass>:<width>:<x>@<row>+<x>@<row>…`, x = `num` or `num/den` (eighths)
          hl     `;`-separated `<x>:<width>:<rowMin>:<rowMax>:<count>`
          raises   always 0: the model never fails to draw (the implementation side reports 1 when it raised)
          settled  a further listing of `<c>` would not change the heap (`Draw.settled` of the world left behind)
    occupied <c>  → the occupied qubit indices in code order
-/
namespace Qco.Driver.HeapDraw

open Qco Qco.Driver Qco.Draw

def parseLabel? (s : String) : Option (Int × String) :=
  match s.splitOn "=" with
  | [q, l] => q.toInt?.map (fun q => (q, l))
  | _ => none

def showFrac (x : Frac) : String :=
  if x.den == 1 then toString x.num else s!"{x.num}/{x.den}"

def showComp (c : Comp) : String :=
  let ps := "+".intercalate (c.pivots.map (fun p => s!"{showFrac p.1}@{p.2}"))
  s!"{c.glyph.name}:{c.width}:{if c.pivots.isEmpty then "-" else ps}"

def showHl (h : Highlight) : String := s!"{h.x}:{h.width}:{h.rowMin}:{h.rowMax}:{h.count}"

def showList (xs : List String) (sep : String) : String :=
  if xs.isEmpty then "-" else sep.intercalate xs

def showResult (settledAfter : Bool) : Result → String
  | .reject => "reject"
  | .undef => "undef"
  | .norow => "norow"
  | .ok d =>
    s!"ok rows={showInts d.rows} labels={showList d.labels ","} width={d.width} " ++
    s!"raises=0 settled={if settledAfter then 1 else 0} " ++
    s!"comps={showList (d.comps.map showComp) ";"} hl={showList (d.highlights.map showHl) ";"}"

def step (s : Sess) (toks : List String) : Option (Sess × String) :=
  match toks with
  | ["plot", c, order, labels, compact, a, b, cc, d] =>
    match c.toNat?, parseList String.toInt? order, parseList parseLabel? labels, compact.toNat?,
          a.toInt?, b.toInt?, cc.toInt?, d.toInt? with
    | some c, some order, some labels, some compact, some a, some b, some cc, some d =>
      if c ≥ s.circs.size then some (s, "bad-op") else
      let args : Args := { order := order, labels := labels,
                           compact := if compact == 1 then some ⟨a, b, cc, d⟩ else none }
      let (w, r) := plot s.w s.circs[c]! args
      some ({ s with w := w }, showResult (settled w w.depthFuel s.circs[c]!) r)
    | _, _, _, _, _, _, _, _ => some (s, "bad-op")
  | ["occupied", c] =>
    match c.toNat? with
    | some c => if c ≥ s.circs.size then some (s, "bad-op") else
      some (s, showInts (occupied s.w s.circs[c]!))
    | none => some (s, "bad-op")
  | _ => none

end Qco.Driver.HeapDraw
