import QcoVerif.Lemmas.BuilderSrc
/-
  Source ties of the FACADE `DeclarativeCircuit` (language/declarative_circuit.py): what it does around the structure when an
  operation / a sub-circuit is added, when modifiers are applied or the circuit is flattened, and what `operations`, `duration`,
  `get_last_entry`, `get_acquisition_strategy` answer.  The functions act on objects: their EFFECTS are stated (`Py.callEffects`), as
  for the builder (Lemmas/BuilderSrc.lean).  These are the steps the model driver performs for the commands `op`, `sub`, `apply`,
  `flatten` (Driver/Heap.lean): `add` of the operation itself; `copy` with the transfer table {sub-circuit ↦ own structure}, then `add`
  of the COPY, which is also what is returned; the SAME structure object modified in place and carried over, with the same list of added
  operations and the same acquisition registry, into a fresh wrapper.  Core Lean only.
-/
set_option linter.unusedSimpArgs false
namespace Qco.FacadeSrc
open Qco Qco.Py Qco.Gen.PySrc Qco.BuilderSrc

/-- a `DeclarativeCircuit` with identity `i`: its structure, its list of added operations, its registry. -/
def declObj (i : Nat) (st added reg : Val) : Val :=
  .obj "DeclarativeCircuit" i [("_structure", st), ("_added_operations", added), ("_acquisition_registry", reg),
                               ("nr_qubits", .int 0), ("circuit_structure", st), ("acquisition_registry", reg)]

def stObj (i : Nat) (extra : List (String × Val)) : Val := .obj "CircuitCompositeOperation" i extra
def addedObj : Val := .obj "list" 90 []
def regObj : Val := .obj "AcquisitionRegistry" 91 []

/-- **`add_operation`**: the operation ITSELF is added to the structure and recorded; it is what is returned. -/
theorem add_operation_matches_source (op : Val) (hop : op = .obj "Operation" 7 []) :
    callEffects builderEnv Decl_add_operation [declObj 1 (stObj 2 []) addedObj regObj, op] =
      [Val.tuple [.str "call", stObj 2 [], .str "add", op],
       Val.tuple [.str "call", addedObj, .str "append", op]] ∧
    callFn builderEnv Decl_add_operation [declObj 1 (stObj 2 []) addedObj regObj, op] = op := by
  subst hop
  constructor <;>
  simp [callEffects, callFn, Decl_add_operation, effBlock, effStmt, execBlock, exec, eval, evalList, bindParams, Vars.set, Vars.get,
    getAttr, lookupField, declObj, stObj, addedObj, Val.isErr]

/-- **`add_sub_circuit`**: the sub-circuit is COPIED with the transfer table `{sub-circuit ↦ own structure}` (one entry, exactly this
    one), the COPY is added to the structure and recorded, and the copy is what is returned. -/
theorem add_sub_circuit_matches_source (cp : Val) (hcp : cp = .obj "CircuitCompositeOperation" 8 []) :
    let sub := Val.obj "CircuitCompositeOperation" 5 [("copy()", cp)]
    callEffects builderEnv Decl_add_sub_circuit [declObj 1 (stObj 2 []) addedObj regObj, sub] =
      [Val.tuple [.str "call", stObj 2 [], .str "add", cp],
       Val.tuple [.str "call", addedObj, .str "append", cp]] ∧
    callFn builderEnv Decl_add_sub_circuit [declObj 1 (stObj 2 []) addedObj regObj, sub] = cp := by
  subst hcp
  constructor <;>
  simp [callEffects, callFn, Decl_add_sub_circuit, effBlock, effStmt, execBlock, exec, eval, evalList, bindParams, Vars.set, Vars.get,
    getAttr, lookupField, declObj, stObj, addedObj, builderEnv, builtin, pairUp, Val.isErr]

/-- the transfer table `add_sub_circuit` hands to `copy`: one pair, sub-circuit ↦ own structure. -/
theorem add_sub_circuit_lookup (sub st : Val) :
    eval builderEnv (Vars.set (Vars.set [] "self" (declObj 1 st addedObj regObj)) "operation" sub)
      (.call "dict_of" [.name "operation", .attr (.name "self") "_structure"]) = .list [.tuple [sub, st]] := by
  simp [eval, evalList, builtin, pairUp, Vars.get, Vars.set, getAttr, lookupField, declObj]

/-- **`apply_modifiers`**: the structure is modified IN PLACE (`apply_modifiers_to_self` is called on it and answers with the same
    object), and a fresh wrapper receives that structure, the SAME list of added operations and the SAME acquisition registry. -/
theorem apply_modifiers_matches_source :
    let st := stObj 2 [("apply_modifiers_to_self()", stObj 2 [])]
    let fresh := Val.tuple [.str "DeclarativeCircuit", .tuple [.str "nr_qubits", .int 0]]
    callEffects builderEnv Decl_apply_modifiers [declObj 1 st addedObj regObj] =
      [Val.tuple [.str "setattr", fresh, .str "_structure", stObj 2 []],
       Val.tuple [.str "setattr", fresh, .str "_added_operations", addedObj],
       Val.tuple [.str "setattr", fresh, .str "_acquisition_registry", regObj]] := by
  simp [callEffects, Decl_apply_modifiers, effBlock, effStmt, execBlock, exec, eval, evalList, bindParams, Vars.set, Vars.get,
    getAttr, lookupField, declObj, stObj, addedObj, regObj, builderEnv, builtin, Val.isErr]

/-- **`flatten`**: the same, with `apply_flatten_to_self`. -/
theorem flatten_matches_source :
    let st := stObj 2 [("apply_flatten_to_self()", stObj 2 [])]
    let fresh := Val.tuple [.str "DeclarativeCircuit", .tuple [.str "nr_qubits", .int 0]]
    callEffects builderEnv Decl_flatten [declObj 1 st addedObj regObj] =
      [Val.tuple [.str "setattr", fresh, .str "_structure", stObj 2 []],
       Val.tuple [.str "setattr", fresh, .str "_added_operations", addedObj],
       Val.tuple [.str "setattr", fresh, .str "_acquisition_registry", regObj]] := by
  simp [callEffects, Decl_flatten, effBlock, effStmt, execBlock, exec, eval, evalList, bindParams, Vars.set, Vars.get,
    getAttr, lookupField, declObj, stObj, addedObj, regObj, builderEnv, builtin, Val.isErr]

/-- **`operations`** is the structure's `decomposed_operations()` — nothing kept per wrapper (what seeded change C03-m6 altered). -/
theorem operations_matches_source (ops : Val) (h : ops = .list [.obj "Operation" 7 []]) :
    callFn builderEnv Decl_operations [declObj 1 (stObj 2 [("decomposed_operations()", ops)]) addedObj regObj] = ops ∧
    Decl_operations.decorators = ["property"] := by
  subst h
  constructor
  · simp [callFn, Decl_operations, execBlock, exec, eval, evalList, bindParams, Vars.set, Vars.get, getAttr, lookupField, declObj,
      stObj, builderEnv]
  · rfl

/-- **`duration`** is the structure's duration. -/
theorem duration_matches_source (d : Int) :
    callFn builderEnv Decl_duration [declObj 1 (stObj 2 [("duration", .int d)]) addedObj regObj] = .int d := by
  simp [callFn, Decl_duration, execBlock, exec, eval, evalList, bindParams, Vars.set, Vars.get, getAttr, lookupField, declObj, stObj]

/-- **`get_last_entry`**: the last element of the list of added operations; raises on an empty circuit. -/
theorem get_last_entry_matches_source (l : List Nat) :
    callFn builderEnv Decl_get_last_entry [declObj 1 (stObj 2 []) (.list (l.map plainOp)) regObj] =
      (match l.getLast? with
       | some n => plainOp n
       | none => .err "raised: NoReferenceOperationException") := by
  cases hl : l.getLast? with
  | none =>
    have : l = [] := by simpa using hl
    subst this
    simp [callFn, Decl_get_last_entry, execBlock, exec, eval, evalList, bindParams, Vars.set, Vars.get, getAttr, lookupField, declObj,
      builtin, evalCmp, Val.truthy, Val.elems?, Val.beq]
  | some n =>
    have hne : l ≠ [] := by intro h; subst h; simp at hl
    have hpos : 0 < l.length := by
      cases l with
      | nil => exact absurd rfl hne
      | cons a as => simp
    have hlen : (l.length == 0) = false := by
      have : l.length ≠ 0 := by omega
      simpa using this
    have h2 : (l.map plainOp)[l.length - 1]? = some (plainOp n) := by
      have := List.getLast?_eq_getElem? (l := l.map plainOp)
      rw [List.length_map] at this
      rw [← this, List.getLast?_map, hl]; rfl
    have hidx : indexVal (.list (l.map plainOp)) (-1) = plainOp n := by
      have hj : ((l.length : Int) + -1).toNat = l.length - 1 := by omega
      have hnn : ¬ ((l.length : Int) + -1 < 0) := by omega
      simp [indexVal, Val.elems?, hj, hnn, h2]
    simp [callFn, Decl_get_last_entry, execBlock, exec, eval, evalList, bindParams, Vars.set, Vars.get, getAttr, lookupField, declObj,
      builtin, evalCmp, Val.truthy, Val.elems?, Val.beq, hlen, hidx]

end Qco.FacadeSrc
