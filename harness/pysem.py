"""Semantics check of the mini-Python interpreter (lean/QcoVerif/Model/PyLang.lean) against CPython.

The `…_matches_source` theorems say: "running the Lean interpreter on the syntax translated from the source text gives
the model's value".  That is a statement about the code only if the interpreter means what CPython means on these
functions.  This module runs every translated function twice on the same generated arguments:

  * CPython executes the REAL function object of /repo (property getter / method), but with `self` (and every object
    reachable from it) replaced by a recording proxy: each attribute read and each method call the function performs
    is answered by the real object and written down;
  * the Lean driver executes `Py.callFn` on the translated syntax, with exactly the recorded attributes as fields of
    the argument objects (a method result is the pseudo-field "<name>()").

Results are canonicalised to the prefix token code of Driver/Py.lean and compared.  Floats are times: they are sent as
exact integers of 1/8.
"""
from __future__ import annotations
import enum
import itertools
import warnings

from . import common

TIME_UNIT = 8


class Rec:
    """Recording proxy around a real object."""
    __slots__ = ('_o', '_log', '_reg')

    def __init__(self, o, reg):
        object.__setattr__(self, '_o', o)
        object.__setattr__(self, '_log', {})
        object.__setattr__(self, '_reg', reg)
        reg.ident(o)

    @property
    def __class__(self):          # isinstance(proxy, RealClass) is True
        return type(object.__getattribute__(self, '_o'))

    def __getattr__(self, name):
        o = object.__getattribute__(self, '_o')
        log = object.__getattribute__(self, '_log')
        reg = object.__getattribute__(self, '_reg')
        v = getattr(o, name)
        if callable(v) and not isinstance(v, type):
            def call(*a, **k):
                reg.events.append(('call', reg.ident(o), name, sum((_ids(x, reg) for x in list(a) + list(k.values())), [])))
                a2 = [unwrap(x) for x in a]
                k2 = {kk: unwrap(x) for kk, x in k.items()}
                r = v(*a2, **k2)
                w = wrap(r, reg)
                log[name + '()'] = w
                # a call with ONE plain argument (a qubit, a name, an int) is also recorded under that argument, so that a
                # function calling the same method with two different arguments can be replayed
                first = list(a) + list(k.values())       # the translator turns keywords into positionals in written order
                if first:
                    key = arg_key(first[0], reg)
                    if key is not None:
                        log[f'{name}({key})'] = w
                return w
            return call
        w = wrap(v, reg)
        log[name] = w
        return w

    def __setattr__(self, name, value):
        o = object.__getattribute__(self, '_o')
        reg = object.__getattribute__(self, '_reg')
        reg.events.append(('setattr', reg.ident(o), name, _ids(value, reg)))
        setattr(o, name, unwrap(value))

    def __setitem__(self, key, value):
        o = object.__getattribute__(self, '_o')
        reg = object.__getattribute__(self, '_reg')
        reg.events.append(('setitem', reg.ident(o), '', _ids(key, reg) + _ids(value, reg)))
        o[unwrap(key)] = unwrap(value)

    def __eq__(self, other):
        return object.__getattribute__(self, '_o') == unwrap(other)

    def __ne__(self, other):
        return not self.__eq__(other)

    def __hash__(self):
        return hash(object.__getattribute__(self, '_o'))

    def __repr__(self):
        return 'Rec(%r)' % (object.__getattribute__(self, '_o'),)


def arg_key(x, reg):
    """the key under which a call is recorded by its FIRST argument: a qubit, a name, an int — or `#<ident>` for a known object."""
    if isinstance(x, Rec):
        return '#%d' % reg.ident(object.__getattribute__(x, '_o'))
    if qubit_like(x):
        return tok(x.id)
    if isinstance(x, str):
        return tok(x)
    if type(x) is int:
        return str(x)
    if id(x) in reg.ids:
        return '#%d' % reg.ids[id(x)]
    return None


def _ids(v, reg):
    """identities of the (already known) objects among an argument: what an effect is compared on."""
    if isinstance(v, Rec):
        return [reg.ident(object.__getattribute__(v, '_o'))]
    if id(v) in reg.ids:
        return [reg.ids[id(v)]]
    return []


class Registry:
    def __init__(self):
        self.ids = {}
        self.keep = []
        self.proxies = {}
        self.events = []

    def proxy(self, o):
        k = id(o)
        if k not in self.proxies:
            self.proxies[k] = Rec(o, self)
        return self.proxies[k]

    def ident(self, o) -> int:
        k = id(o)
        if k not in self.ids:
            self.ids[k] = len(self.ids)
            self.keep.append(o)
        return self.ids[k]


def is_plain(v) -> bool:
    import numpy as np
    return v is None or isinstance(v, (bool, int, float, str, enum.Enum, np.integer, np.floating))


def qubit_like(v) -> bool:
    return type(v).__name__ in ('QubitIDObj',)


def wrap(v, reg):
    import numpy as np
    import types
    if isinstance(v, types.GeneratorType):
        v = list(v)
    if is_plain(v) or qubit_like(v) or isinstance(v, Rec):
        return v
    if isinstance(v, np.ndarray):
        return v
    if isinstance(v, list):
        return [wrap(x, reg) for x in v]
    if isinstance(v, tuple):
        return tuple(wrap(x, reg) for x in v)
    return reg.proxy(v)


def unwrap(v):
    if isinstance(v, Rec):
        return object.__getattribute__(v, '_o')
    if isinstance(v, list):
        return [unwrap(x) for x in v]
    if isinstance(v, tuple):
        return tuple(unwrap(x) for x in v)
    return v


class NotEncodable(Exception):
    pass


def tok(s: str) -> str:
    s = str(s)
    return s.replace(' ', '_') or '_'


def encode(v, reg, depth=0, seen=None) -> list[str]:
    import numpy as np
    if depth > 40:
        raise NotEncodable('depth')
    seen = seen if seen is not None else set()
    if isinstance(v, (bool, np.bool_)):
        return ['B', '1' if v else '0']
    if isinstance(v, (int, np.integer)):
        return ['I', str(int(v))]
    if isinstance(v, (float, np.floating)):
        x = float(v) * TIME_UNIT
        if x != int(x):
            raise NotEncodable('non-dyadic float %r' % v)
        return ['I', str(int(x))]
    if v is None:
        return ['N']
    if isinstance(v, str):
        return ['S', tok(v)]
    if isinstance(v, enum.Enum):
        return ['E', type(v).__name__, v.name]
    if qubit_like(v):
        return ['S', tok(v.id)]
    if isinstance(v, np.ndarray):
        out = ['A', str(len(v))]
        for x in v:
            out += encode(x, reg, depth + 1, seen)
        return out
    if isinstance(v, list):
        out = ['L', str(len(v))]
        for x in v:
            out += encode(x, reg, depth + 1, seen)
        return out
    if isinstance(v, tuple):
        out = ['T', str(len(v))]
        for x in v:
            out += encode(x, reg, depth + 1, seen)
        return out
    if isinstance(v, Rec):
        o = object.__getattribute__(v, '_o')
        if id(o) in seen:          # an object met again below itself (parent pointers): identity only
            return ['O', type(o).__name__, str(reg.ident(o)), '0']
        seen = seen | {id(o)}
        log = object.__getattribute__(v, '_log')
        bases = [c.__name__ for c in type(o).__mro__[1:] if c is not object and c.__name__ not in ('ABC', 'Generic')]
        out = ['O', type(o).__name__, str(reg.ident(o)), str(len(log) + len(bases))]
        for name, val in log.items():
            out.append(name)
            out += encode(val, reg, depth + 1, seen)
        for b in bases:          # what `isinstance(o, b)` answers
            out += ['isinstance:' + b, 'B', '1']
        return out
    # values built by a constructor / module function the fragment treats structurally: (name, (keyword, value)…)
    tn = type(v).__name__
    if tn == 'AcquisitionIndexInfo' and id(v) not in reg.ids:
        return encode(('AcquisitionIndexInfo', ('qubit_level_index', v.qubit_level_index),
                       ('circuit_level_index', v.circuit_level_index)), reg, depth + 1)
    if tn == 'CircuitInstruction':
        parts = [('name', v.name), ('targets', [('stim.target_rec', t.value) for t in v.targets_copy()])]
        args = v.gate_args_copy()
        if args or v.name in ('SHIFT_COORDS',):
            parts.append(('gate_args', [int(a) if float(a) == int(a) else a for a in args]))
        return encode(('stim.CircuitInstruction',) + tuple(parts), reg, depth + 1)
    # a raw object (result value): identity only
    return ['O', tn, str(reg.ident(v)), '0']


def encode_result(v, reg) -> str:
    toks = encode(v, reg)
    # the driver prints objects without their fields
    out = []
    i = 0

    def skip(i):
        t = toks[i]
        if t in ('I', 'S'):
            return i + 2
        if t == 'B':
            return i + 2
        if t in ('N', 'X'):
            return i + 1
        if t == 'E':
            return i + 3
        if t in ('L', 'T', 'A'):
            n = int(toks[i + 1])
            j = i + 2
            for _ in range(n):
                j = skip(j)
            return j
        if t == 'O':
            n = int(toks[i + 3])
            j = i + 4
            for _ in range(n):
                j = skip(j + 1)
            return j
        raise ValueError(t)

    def emit(i):
        t = toks[i]
        if t in ('I', 'S', 'B'):
            out.extend(toks[i:i + 2])
            return i + 2
        if t in ('N', 'X'):
            out.append(t)
            return i + 1
        if t == 'E':
            out.extend(toks[i:i + 3])
            return i + 3
        if t in ('L', 'T', 'A'):
            n = int(toks[i + 1])
            out.extend(toks[i:i + 2])
            j = i + 2
            for _ in range(n):
                j = emit(j)
            return j
        if t == 'O':
            out.extend([toks[i], toks[i + 1], toks[i + 2], '0'])
            return skip(i)
        raise ValueError(t)
    emit(0)
    return ' '.join(out)


# ------------------------------------------------------------------------------------------------ the real functions

def real_function(module: str, cls: str | None, fn: str):
    import importlib
    mod = importlib.import_module(module)
    scope = getattr(mod, cls) if cls else mod
    raw = scope.__dict__[fn] if cls else getattr(mod, fn)
    if isinstance(raw, property):
        return raw.fget
    if isinstance(raw, (staticmethod, classmethod)):
        return raw.__func__
    return raw


def targets() -> dict:
    import sys
    sys.path.insert(0, str(common.VERIF / 'tools'))
    import pylean
    return {t[0]: t for t in pylean.TARGETS}


# ------------------------------------------------------------------------------------------------ argument generators

def gen_kernel_cases(rng, n):
    """(lean name, positional args: first is `self`) for the index-kernel functions."""
    from qce_circuit.structure.acquisition_indexing.kernel_repetition_code import RepetitionExperimentKernel
    from qce_circuit.structure.acquisition_indexing.intrf_stabilizer_index_kernel import StateKey
    from qce_circuit.connectivity.intrf_channel_identifier import QubitIDObj
    cases = []
    rep_props = ['RepKernel_start_index', 'RepKernel_exclusive_start_index', 'RepKernel_delta_heralded', 'RepKernel_delta_stabilizer',
                 'RepKernel_delta_final', 'RepKernel_stop_index', 'RepKernel_involved_qubit_ids', 'IIndexingKernel_kernel_length']
    rep_elem = ['RepKernel_contains', 'RepKernel_heralded_index', 'RepKernel_stabilizer_indices', 'RepKernel_final_index']
    cal_props = ['CalKernel_start_index', 'CalKernel_exclusive_start_index', 'CalKernel_delta_heralded', 'CalKernel_delta_state_0',
                 'CalKernel_delta_state_1', 'CalKernel_delta_state_2', 'CalKernel_stop_index', 'IIndexingKernel_kernel_length']
    cal_elem = ['CalKernel_contains', 'CalKernel_heralded_state_0', 'CalKernel_heralded_state_1', 'CalKernel_heralded_state_2',
                'CalKernel_state_0', 'CalKernel_state_1', 'CalKernel_state_2']
    exp_props = ['ExpKernel_start_index', 'ExpKernel_stop_index', 'ExpKernel_kernel_cycle_length', 'ExpKernel_experiment_repetitions',
                 'ExpKernel_indexing_kernels']
    exp_count = ['ExpKernel_heralded_cycle', 'ExpKernel_stabilizer_and_projected_cycle', 'ExpKernel_projected_cycle']
    exp_state = ['ExpKernel_projected_calibration', 'ExpKernel_heralded_calibration']
    for _ in range(n):
        k = rng.randint(1, 4)
        rounds = rng.sample(range(0, 8), k)
        d = rng.randint(1, 3)
        data = [QubitIDObj(f'D{i}') for i in range(d + 1)]
        anc = [QubitIDObj(f'Z{i}') for i in range(d)]
        K = RepetitionExperimentKernel(rounds=rounds, heralded_initialization=rng.random() < 0.5,
                                       qutrit_calibration_points=rng.random() < 0.6, involved_data_qubit_ids=data,
                                       involved_ancilla_qubit_ids=anc, experiment_repetitions=rng.randint(1, 3))
        elems = data + anc + [QubitIDObj('X9')]
        rk = rng.choice(K._repetition_kernels)
        for name in rep_props:
            cases.append((name, [rk]))
        for name in rep_elem:
            cases.append((name, [rk, rng.choice(elems)]))
        ck = K._calibration_kernel
        for name in cal_props:
            cases.append((name, [ck]))
        for name in cal_elem:
            cases.append((name, [ck, rng.choice(elems)]))
        for name in exp_props:
            cases.append((name, [K]))
        for name in exp_count:
            cases.append((name, [K, rng.choice(elems), rng.choice(rounds + [9])]))
        for name in exp_state:
            cases.append((name, [K, rng.choice(elems), rng.choice(list(StateKey)[:3])]))
        st = rk.index_offset_strategy
        cases.append(('FixedIndexStrategy_get_index' if type(st).__name__ == 'FixedIndexStrategy' else 'RelativeIndexStrategy_get_index', [st, rk]))
    return cases


def gen_ident_cases(rng, n):
    from qce_circuit.structure.intrf_circuit_operation import ChannelIdentifier, QubitChannel
    from qce_circuit.connectivity.intrf_channel_identifier import QubitIDObj, EdgeIDObj
    cases = []
    chans = list(QubitChannel)
    for _ in range(n):
        a = ChannelIdentifier(_id=rng.randint(0, 2), _channel=rng.choice(chans))
        b = ChannelIdentifier(_id=rng.randint(0, 2), _channel=rng.choice(chans))
        cases.append(('ChannelIdentifier_eq', [a, b]))
        cases.append(('ChannelIdentifier_eq', [a, rng.choice([3, 'x', None])]))
        qs = [QubitIDObj(f'Q{i}') for i in range(4)]
        e1 = EdgeIDObj(rng.choice(qs), rng.choice(qs))
        e2 = EdgeIDObj(rng.choice(qs), rng.choice(qs))
        q = rng.choice(qs)
        cases.append(('EdgeIDObj_contains', [e1, q]))
        cases.append(('EdgeIDObj_eq', [e1, e2]))
        cases.append(('EdgeIDObj_eq', [e1, rng.choice([q, 7])]))
        cases.append(('EdgeIDObj_get_connected_qubit_id', [e1, q]))
        # unique_in_order: ints, names, repeated elements, empty
        k = rng.randint(0, 9)
        cases.append(('Util_unique_in_order', [[rng.randint(0, 4) for _ in range(k)]]))
        cases.append(('Util_unique_in_order', [[rng.choice(['D1', 'D2', 'X1', 'd1']) for _ in range(k)]]))
    return cases


def gen_timing_cases(rng, n):
    from qce_circuit.language.declarative_circuit import DeclarativeCircuit
    from qce_circuit.structure.circuit_operations import Wait, Rx180, CPhase, DispersiveMeasure
    from qce_circuit.structure.intrf_circuit_operation import RelationLink, RelationType, MultiRelationLink
    from qce_circuit.structure.registry_duration import FixedDurationStrategy
    from qce_circuit.structure.registry_repetition import FixedRepetitionStrategy
    cases = []
    durs = [0.0, 0.25, 0.5, 1.0, 2.0, 3.0, 5.0]
    for _ in range(n):
        c = DeclarativeCircuit()
        ops = []
        for i in range(rng.randint(2, 6)):
            rel = None
            if ops and rng.random() < 0.6:
                rel = RelationLink(rng.choice(ops), rng.choice(list(RelationType)))
            if ops and rng.random() < 0.15:
                rel = MultiRelationLink(rng.sample(ops, rng.randint(1, len(ops))), _relation_type=rng.choice(list(RelationType)))
            kw = {'relation': rel} if rel is not None else {}
            op = Wait(rng.randint(0, 2), duration_strategy=FixedDurationStrategy(rng.choice(durs)), **kw)
            c.add(op)
            ops.append(op)
        if rng.random() < 0.5:
            s = DeclarativeCircuit(repetition_strategy=FixedRepetitionStrategy(rng.randint(1, 3)))
            for i in range(rng.randint(1, 3)):
                s.add(Wait(rng.randint(0, 2), duration_strategy=FixedDurationStrategy(rng.choice(durs))))
            c.add(s)
            if rng.random() < 0.5:
                c = c.apply_modifiers()
        allops = list(c.operations)
        comps = [n_.operation for n_ in c.circuit_structure._circuit_graph.get_node_iterator()
                 if type(n_.operation).__name__ == 'CircuitCompositeOperation']
        for op in rng.sample(allops, min(3, len(allops))):
            link = op.relation_link
            d = rng.choice(durs)
            if type(link).__name__ == 'RelationLink':
                cases.append(('RelationLink_get_start_time', [link, d]))
            else:
                cases.append(('MultiRelationLink_reference_node', [link]))
            cases.append(('IDurationComponent_end_time', [op]))
            cases.append(('IRelationComponent_has_relation', [op]))
        for comp in comps[:2] + [c.circuit_structure]:
            cases.append(('Composite_start_time', [comp]))
            cases.append(('Composite_duration', [comp]))
            cases.append(('Composite_lead_and_span', [comp]))
            cases.append(('IDurationComponent_end_time', [comp]))
    return cases


def gen_export_cases(rng, n):
    from qce_circuit.addon_stim.circuit_operations import DetectorOperation, LogicalObservableOperation, CoordinateShiftOperation
    cases = []
    opt = lambda: rng.choice([None, rng.randint(0, 6)])
    for _ in range(n):
        last = rng.randint(5, 9)
        cases.append(('Detector_to_stim', [DetectorOperation(rng.randint(0, 3), last_acquisition_index=last, main_target=opt(),
                                                           secondary_target=opt(), reference_offset=rng.choice([None, 1, 2]),
                                                           secondary_offset=rng.choice([None, 1, 2]))]))
        cases.append(('Observable_to_stim', [LogicalObservableOperation(rng.randint(0, 3), last_acquisition_index=rng.choice([None, last]),
                                                                       main_target=opt())]))
        cases.append(('CoordinateShift_to_stim', [CoordinateShiftOperation([0, 1], time_shift=rng.randint(0, 2), space_shift=rng.randint(0, 2))]))
    return cases


def gen_acq_cases(rng, n):
    from qce_circuit.language.declarative_circuit import DeclarativeCircuit
    from qce_circuit.structure.circuit_operations import DispersiveMeasure, Rx180
    cases = []
    for _ in range(n):
        c = DeclarativeCircuit()
        ms = []
        for i in range(rng.randint(1, 6)):
            if rng.random() < 0.6:
                m = DispersiveMeasure(rng.randint(0, 2), acquisition_strategy=c.get_acquisition_strategy())
                c.add(m)
                ms.append(m)
            else:
                c.add(Rx180(rng.randint(0, 2)))
        other = DeclarativeCircuit()
        foreign = DispersiveMeasure(0, acquisition_strategy=other.get_acquisition_strategy())
        reg = c._acquisition_registry if hasattr(c, '_acquisition_registry') else c.get_acquisition_strategy().registry
        for m in rng.sample(ms, min(2, len(ms))) + [foreign]:
            cases.append(('AcquisitionRegistry_get_registry_at', [reg, m.acquisition_identifier]))
    return cases


def gen_draw_cases(rng, n):
    """`reorder_indices(original_order, specific_order)`: subsets, permutations, duplicates, foreign elements."""
    cases = []
    for _ in range(n * 3):
        orig = rng.sample(range(0, 8), rng.randint(0, 6))
        kind = rng.random()
        if kind < 0.5:
            spec = rng.sample(orig, rng.randint(0, len(orig)))
        elif kind < 0.7 and orig:
            spec = [rng.choice(orig) for _ in range(rng.randint(1, 4))]          # duplicates are kept
        else:
            spec = [rng.randint(0, 9) for _ in range(rng.randint(0, 4))]         # may name a row that is not occupied
        cases.append(('Draw_reorder_indices', [orig, spec]))
    return cases


def gen_conn_cases(rng, n):
    """frequency ordering (all 9 pairs) and the moving side of a gate on the Surface-17 layer: device edges in both
    orientations, qubits on and off the edge."""
    from qce_circuit.connectivity.intrf_connectivity_surface_code import FrequencyGroupIdentifier, FrequencyGroup
    from qce_circuit.connectivity.connectivity_surface_code import Surface17Layer
    from qce_circuit.connectivity.intrf_channel_identifier import EdgeIDObj
    cases = []
    groups = list(FrequencyGroup)
    for a in groups:
        for b in groups:
            for name in ('Freq_is_equal_to', 'Freq_is_higher_than', 'Freq_is_lower_than'):
                cases.append((name, [FrequencyGroupIdentifier(a), FrequencyGroupIdentifier(b)]))
    layer = Surface17Layer()
    edges = list(layer.edge_ids)
    qubits = list(layer.qubit_ids)
    for _ in range(n * 2):
        e = rng.choice(edges)
        q0, q1 = e.qubit_ids
        if rng.random() < 0.5:
            e = EdgeIDObj(q1, q0)
        q = rng.choice([q0, q1, rng.choice(qubits)])
        cases.append(('Conn_on_moving_side', [q, e, layer]))
        cases.append(('Conn_get_higher_frequency_qubit_id', [e, layer]))
        cases.append(('Conn_get_lower_frequency_qubit_id', [e, layer]))
    for _ in range(n * 2):
        k = rng.choice([0, 1, 1, 2, 2, 3])
        es = rng.sample(edges, k)
        es = [EdgeIDObj(*reversed(e.qubit_ids)) if rng.random() < 0.3 else e for e in es]
        near = [q for e in es for q in e.qubit_ids] + [q for e in es for q0 in e.qubit_ids for q in layer.get_neighbors(q0, order=1)]
        q = rng.choice(near) if near and rng.random() < 0.8 else rng.choice(qubits)
        cases.append(('Conn_get_requires_parking', [q, es, layer]))
    return cases


ENGINE_CALLS = {'Detector_to_stim', 'Observable_to_stim', 'CoordinateShift_to_stim'}

def gen_facade_cases(rng, n):
    """`operations`, `duration`, `get_last_entry` of DeclarativeCircuit (values)."""
    from qce_circuit.language.declarative_circuit import DeclarativeCircuit
    from qce_circuit.structure.circuit_operations import Wait, Rx180
    cases = []
    for _ in range(n):
        c = DeclarativeCircuit()
        for _i in range(rng.randint(0, 3)):
            c.add(rng.choice([Rx180(rng.randint(0, 2)), Wait(rng.randint(0, 2))]))
        cases.append(('Decl_get_last_entry', [c]))
        cases.append(('Decl_operations', [c]))
        cases.append(('Decl_duration', [c]))
    return cases


GENERATORS = {'kernels': gen_kernel_cases, 'ident': gen_ident_cases, 'timing': gen_timing_cases, 'export': gen_export_cases,
              'acq': gen_acq_cases, 'draw': gen_draw_cases, 'conn': gen_conn_cases, 'facade': gen_facade_cases}


def run_cases(cases):
    """Returns (lines for the driver, expected strings, descriptions, skipped count)."""
    tg = targets()
    lines, expected, descr = [], [], []
    skipped = 0
    for name, args in cases:
        _, module, cls, fn = tg[name]
        f = real_function(module, cls, fn)
        reg = Registry()
        pargs = [wrap(a, reg) for a in args]
        # free functions of the module that the target calls and that are NOT translated themselves (`get_neighbors`, …) are
        # answered from a table: every call is made for real (on the proxies) and its result recorded by the first argument
        glog = {}
        patched = {}
        translated = {t[3] for t in tg.values() if t[2] is None and t[1] == module}
        import types as _types
        for nm in getattr(f, '__code__', None).co_names if hasattr(f, '__code__') else ():
            g = f.__globals__.get(nm)
            if isinstance(g, _types.FunctionType) and nm not in translated and g.__module__.startswith('qce_circuit'):
                def make(orig, nm):
                    def rec_call(*a, **k):
                        r = orig(*a, **k)
                        w = wrap(r, reg)
                        key = arg_key(a[0], reg) if a else None
                        glog[f'{nm}({key})' if key is not None else f'{nm}()'] = w
                        return w
                    return rec_call
                patched[nm] = g
                f.__globals__[nm] = make(g, nm)
        try:
            try:
                with warnings.catch_warnings():
                    warnings.simplefilter('ignore')
                    res = f(*pargs)
            finally:
                for nm, g in patched.items():
                    f.__globals__[nm] = g
            exp = encode_result(unwrap_result(res), reg)
        except NotEncodable:
            skipped += 1
            continue
        except Exception:
            if name in ENGINE_CALLS:
                # the exception comes out of the third-party constructor (stim rejects the instruction), which the fragment
                # treats as an uninterpreted function: nothing to compare
                skipped += 1
                continue
            exp = 'X'
        try:
            toks = []
            for a in pargs:
                toks += encode(a, reg)
        except NotEncodable:
            skipped += 1
            continue
        if glog:
            try:
                gt = ['O', 'Globals', '0', str(len(glog))]
                for k_, v_ in glog.items():
                    gt.append(k_)
                    gt += encode(v_, reg)
            except NotEncodable:
                skipped += 1
                continue
            lines.append('py callg ' + name + ' ' + ' '.join(gt) + ' ' + ' '.join(toks))
        else:
            lines.append('py call ' + name + ' ' + ' '.join(toks))
        expected.append(exp)
        descr.append((name, [repr(unwrap(a))[:80] for a in pargs]))
    return lines, expected, descr, skipped


def unwrap_result(v):
    """results keep their structure; proxies become the real objects (identity is what is compared)."""
    import numpy as np
    if isinstance(v, Rec):
        return object.__getattribute__(v, '_o')
    if isinstance(v, np.ndarray):
        return v
    if isinstance(v, list):
        return [unwrap_result(x) for x in v]
    if isinstance(v, tuple):
        return tuple(unwrap_result(x) for x in v)
    return v


def _parse(toks, i=0):
    """parser of the driver's value code → nested python structure (objects as ('O', cls, id))."""
    t = toks[i]
    if t == 'I':
        return int(toks[i + 1]), i + 2
    if t == 'B':
        return toks[i + 1] == '1', i + 2
    if t == 'S':
        return toks[i + 1], i + 2
    if t == 'N':
        return None, i + 1
    if t == 'X':
        return ('X',), i + 1
    if t == 'E':
        return ('E', toks[i + 1], toks[i + 2]), i + 3
    if t in ('L', 'T', 'A'):
        n = int(toks[i + 1])
        j = i + 2
        out = []
        for _ in range(n):
            v, j = _parse(toks, j)
            out.append(v)
        return (list(out) if t != 'T' else tuple(out)), j
    if t == 'O':
        n = int(toks[i + 3])
        j = i + 4
        for _ in range(n):
            _, j = _parse(toks, j + 1)
        return ('O', toks[i + 1], int(toks[i + 2])), j
    raise ValueError(t)


def _obj_ids(v):
    if isinstance(v, tuple) and len(v) == 3 and v[0] == 'O':
        return [v[2]]
    if isinstance(v, (list, tuple)):
        return sum((_obj_ids(x) for x in v), [])
    return []


def _recv(v):
    return [v[2]] if isinstance(v, tuple) and len(v) == 3 and v[0] == 'O' else []


def lean_effects(line: str):
    """the driver's effect list projected to (kind, receiver identity, name, identities of object arguments)."""
    val, _ = _parse(line.split())
    out = []
    for ev in val:
        kind = ev[0]
        if kind == 'setattr':
            out.append(('setattr', _recv(ev[1]), ev[2], _obj_ids(ev[3])))
        elif kind == 'setitem':
            out.append(('setitem', _recv(ev[1]), '', _obj_ids(ev[2]) + _obj_ids(ev[3])))
        elif kind == 'call':
            out.append(('call', _recv(ev[1]), ev[2], sum((_obj_ids(x) for x in ev[3:]), [])))
    return out


def gen_effect_cases(rng, n):
    """(lean name, args) for the builder functions: real circuits in various states."""
    from qce_circuit.language.declarative_circuit import DeclarativeCircuit
    from qce_circuit.structure.circuit_operations import Wait, Rx180, CPhase
    from qce_circuit.structure.intrf_circuit_operation import RelationLink, RelationType
    from qce_circuit.structure.registry_repetition import FixedRepetitionStrategy
    cases = []
    for _ in range(n):
        def circ(k, reps=1):
            c = DeclarativeCircuit(repetition_strategy=FixedRepetitionStrategy(reps))
            ops = []
            for _i in range(k):
                kw = {}
                if ops and rng.random() < 0.4:
                    kw['relation'] = RelationLink(rng.choice(ops), rng.choice(list(RelationType)))
                op = rng.choice([Rx180(rng.randint(0, 2), **kw), Wait(rng.randint(0, 2), **kw)])
                c.add(op)
                ops.append(op)
            return c, ops
        c, ops = circ(rng.randint(0, 4), rng.randint(1, 3))
        s, _ = circ(rng.randint(1, 3))
        if rng.random() < 0.6:
            c.add(s)
        st = c.circuit_structure
        cases.append(('Composite_decomposed', [st]))
        cases.append(('Composite_apply_modifiers', [DeclarativeCircuit.copy(c).circuit_structure if hasattr(DeclarativeCircuit, 'copy') else st]))
        c2, _ = circ(rng.randint(0, 3))
        o2, _ = circ(rng.randint(1, 3))
        cases.append(('Composite_extend', [c2.circuit_structure, o2.circuit_structure.copy()]))
        c3, _ = circ(rng.randint(1, 3))
        cases.append(('Composite_flatten', [c3.circuit_structure]))
        c4, ops4 = circ(rng.randint(0, 3))
        kw = {}
        if ops4 and rng.random() < 0.5:
            kw['relation'] = RelationLink(rng.choice(ops4 + [Rx180(5)]), rng.choice(list(RelationType)))
        cases.append(('Graph_add_to_graph', [c4.circuit_structure._circuit_graph, Rx180(rng.randint(0, 3), **kw)]))
        c5, _ = circ(rng.randint(1, 3))
        cases.append(('Composite_copy', [c5.circuit_structure, {}]))
        c6, _ = circ(rng.randint(1, 2))
        cases.append(('Composite_repeat', [c6.circuit_structure, rng.randint(1, 3)]))
        # the facade: what DeclarativeCircuit does around the structure
        c7, _ = circ(rng.randint(0, 3), rng.randint(1, 2))
        cases.append(('Decl_add_operation', [c7, Rx180(rng.randint(0, 2))]))
        c8, _ = circ(rng.randint(0, 3))
        s8, _ = circ(rng.randint(0, 2), rng.randint(1, 2))
        cases.append(('Decl_add_sub_circuit', [c8, s8.circuit_structure]))
        c9, _ = circ(rng.randint(0, 3), rng.randint(1, 3))
        cases.append(('Decl_apply_modifiers', [c9]))
        c10, _ = circ(rng.randint(0, 3))
        cases.append(('Decl_flatten', [c10]))
    return cases


def check_effects(seed: int, n: int) -> dict:
    """effects recorded by `Py.callEffects` on the translated builder functions vs the effects the REAL functions perform on
    recording proxies: attribute assignments, and the calls the driver lists, compared on (kind, receiver, name, object arguments)."""
    tg = targets()
    cases = gen_effect_cases(common.rng_for(seed, 'pysem-effects'), n)
    lines, expected, descr = [], [], []
    skipped = 0
    for name, args in cases:
        _, module, cls, fn = tg[name]
        f = real_function(module, cls, fn)
        reg = Registry()
        pargs = [wrap(a, reg) if not isinstance(a, dict) else wrap(_DictBox(a), reg) for a in args]
        try:
            with warnings.catch_warnings():
                warnings.simplefilter('ignore')
                f(*pargs)
        except Exception:
            skipped += 1
            continue
        try:
            toks = []
            for a in pargs:
                toks += encode(a, reg)
        except NotEncodable:
            skipped += 1
            continue
        lines.append('py effects ' + name + ' ' + ' '.join(toks))
        expected.append(list(reg.events))
        descr.append(name)
    got = common.run_driver(lines) if lines else []
    mism = []
    per_fn = {}
    n_events = 0
    for ln, evs, g, name in zip(lines, expected, got, descr):
        per_fn[name] = per_fn.get(name, 0) + 1
        try:
            le = lean_effects(g)
        except Exception:
            mism.append({'function': name, 'lean': g[:300], 'why': 'unparsable'})
            continue
        n_events += len(le)
        names = {(k, nm) for k, _, nm, _ in le if k == 'call'}
        pe = [(k, [r], nm, a) for (k, r, nm, a) in evs if k != 'call' or (k, nm) in names]
        # python's setattr on a proxy of a local (e.g. `result.add`) cannot be seen for non-proxied receivers: compare the
        # projection on events whose receiver the driver knows
        le2 = [e for e in le if e[1]]
        if [(k, r, nm) for k, r, nm, _ in pe] != [(k, r, nm) for k, r, nm, _ in le2] or \
                any(set(a_py) - set(a_lean) for (k_, _, nm_, a_lean), (_, _, _, a_py) in zip(le2, pe)
                    if not (k_ == 'call' and nm_ == 'extend')):   # `repeat` hands a FRESH copy to every `extend`: the recorded
            #                                                         pseudo-field `copy()` knows only the last one
            # (object arguments CPython passed must be among those of the recorded effect; the recorded effect may name more:
            #  objects nested inside a freshly constructed value)
            mism.append({'function': name, 'cpython': pe[:12], 'lean_interpreter': le2[:12], 'line': ln[:400]})
    return {'effect_cases': len(lines), 'effect_events': n_events, 'effect_skipped': skipped, 'effect_per_function': per_fn,
            'effect_mismatches': mism[:6], 'effect_mismatch_count': len(mism)}


class _DictBox:
    """a dict passed as an argument (the copy lookup): item assignments are the effect."""
    def __init__(self, d):
        self.d = d

    def __setitem__(self, k, v):
        self.d[k] = v

    def __getitem__(self, k):
        return self.d[k]

    def __contains__(self, k):
        return k in self.d

    def get(self, k, default=None):
        return self.d.get(k, default)


def check(groups: list[str], seed: int, n: int) -> dict:
    """Runs the semantics comparison for the named generator groups. Returns a report dict with `mismatches`."""
    cases = []
    for g in groups:
        cases += GENERATORS[g](common.rng_for(seed, 'pysem-' + g), n)
    lines, expected, descr, skipped = run_cases(cases)
    got = common.run_driver(lines) if lines else []
    mism = []
    per_fn: dict[str, int] = {}
    errs = 0
    for ln, e, g, d in zip(lines, expected, got, descr):
        per_fn[d[0]] = per_fn.get(d[0], 0) + 1
        if e == 'X':
            errs += 1
        if e != g:
            mism.append({'function': d[0], 'args': d[1], 'cpython': e, 'lean_interpreter': g, 'line': ln[:600]})
    return {'cases': len(lines), 'skipped_not_encodable': skipped, 'per_function': per_fn, 'raising_cases': errs,
            'mismatches': mism[:10], 'mismatch_count': len(mism)}


if __name__ == '__main__':
    import json
    import sys
    if sys.argv[1:] == ['effects']:
        print(json.dumps(check_effects(0, 15), indent=1, default=str)[:6000])
        sys.exit(0)
    rep = check(sys.argv[1:] or list(GENERATORS), 0, 20)
    print(json.dumps(rep, indent=1)[:6000])
