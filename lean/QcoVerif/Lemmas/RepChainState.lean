import QcoVerif.Lemmas.RepChainRound
/-
  C09, all chain lengths: the closed-form states `stateB` of the chain as registers `mk`, the round
  effect on them (`round_effect_chain`), the preparation layer.
-/
namespace Qco.RepChain
open Qco.StimSem Qco.RepCode

/-! ### GF(2) algebra on forms -/

theorem xor_alg_round (A P x1 x2 c : Nat) (hP : P = x1 ^^^ x2) :
    (A ^^^ P) ^^^ (x1 ^^^ c) ^^^ (x2 ^^^ c) = A ∧ A ^^^ (x1 ^^^ c) ^^^ (x2 ^^^ c) = A ^^^ P := by
  subst hP
  constructor <;>
  · apply Nat.eq_of_testBit_eq
    intro i
    simp only [Nat.testBit_xor]
    cases A.testBit i <;> cases x1.testBit i <;> cases x2.testBit i <;> cases c.testBit i <;> rfl

theorem xor_xor_self (a b : Nat) : a ^^^ b ^^^ b = a := by
  rw [Nat.xor_assoc, Nat.xor_self, Nat.xor_zero]

/-! ### look-ups in the chain description -/

theorem ancL_getElem (m j : Nat) (h : j < (ancL m).length) : (ancL m)[j] = 2 * j + 1 := by
  simp [ancL]

theorem dataL_getElem (m i : Nat) (h : i < (dataL m).length) : (dataL m)[i] = 2 * i := by
  simp [dataL]

theorem ancL_idxOf (m j : Nat) (h : j < m) : (ancL m).idxOf? (2 * j + 1) = some j := by
  unfold List.idxOf?
  rw [List.findIdx?_eq_some_iff_getElem]
  refine ⟨by rw [ancL_length]; exact h, ?_, ?_⟩
  · simp [ancL_getElem]
  · intro i hi
    have : i < (ancL m).length := by rw [ancL_length]; omega
    simp [ancL_getElem]; omega

theorem dataL_idxOf (m i : Nat) (h : i < m + 1) : (dataL m).idxOf? (2 * i) = some i := by
  unfold List.idxOf?
  rw [List.findIdx?_eq_some_iff_getElem]
  refine ⟨by rw [dataL_length]; exact h, ?_, ?_⟩
  · simp [dataL_getElem]
  · intro j hj
    have : j < (dataL m).length := by rw [dataL_length]; omega
    simp [dataL_getElem]; omega

theorem chain_nbrOf (m : Nat) (r : Bool) {t : Nat} (ht : t ∈ ancL m) :
    nbrOf (chainDesc (m + 1) r) t = (t - 1, t + 1) := by
  have h := mem_ancL.mp ht
  obtain ⟨j, rfl⟩ : ∃ j, t = 2 * j + 1 := ⟨t / 2, by omega⟩
  have hj : j < m := by omega
  simp only [nbrOf, chain_ancIdx, ancL_idxOf m j hj, chain_nbr]
  simp [hj]

/-! ### the closed-form states -/

/-- data qubits after a number of refocusing rounds of parity `bd`, ancillas after a number of rounds of
    parity `ba` -/
def SB (d : Desc) (nD nA : Nat) (bd ba : Bool) : Nat → Q := fun q =>
  if d.dataIdx.contains q then ⟨.Z, finalFormB d nD bd q⟩
  else if d.ancIdx.contains q then ⟨.Z, cycleFormB d nD nA ba q⟩ else ⟨.Z, 0⟩

theorem stateB_eq (m : Nat) (r : Bool) (nD nA : Nat) (b : Bool) :
    stateB (chainDesc (m + 1) r) nD nA b = mk (2 * m + 1) (SB (chainDesc (m + 1) r) nD nA b b) := by
  rw [stateB, chain_size]; rfl

theorem SB_Z (d : Desc) (nD nA : Nat) (bd ba : Bool) (q : Nat) : (SB d nD nA bd ba q).b = .Z := by
  unfold SB; split
  · rfl
  · split <;> rfl

theorem SB_anc (m : Nat) (r : Bool) (nD nA : Nat) (bd ba : Bool) {t : Nat} (ht : t ∈ ancL m) :
    SB (chainDesc (m + 1) r) nD nA bd ba t = ⟨.Z, cycleFormB (chainDesc (m + 1) r) nD nA ba t⟩ := by
  have h := mem_ancL.mp ht
  have h1 : ¬ t ∈ dataL m := fun hh => by have := mem_dataL.mp hh; omega
  simp [SB, chain_dataIdx, chain_ancIdx, ht, h1]

theorem SB_data (m : Nat) (r : Bool) (nD nA : Nat) (bd ba : Bool) {q : Nat} (hq : q ∈ dataL m) :
    SB (chainDesc (m + 1) r) nD nA bd ba q = ⟨.Z, finalFormB (chainDesc (m + 1) r) nD bd q⟩ := by
  simp [SB, chain_dataIdx, hq]

theorem SB_not_anc (m : Nat) (r : Bool) (nD nA : Nat) (bd ba ba' : Bool) {q : Nat} (hq : ¬ q ∈ ancL m) :
    SB (chainDesc (m + 1) r) nD nA bd ba q = SB (chainDesc (m + 1) r) nD nA bd ba' q := by
  simp [SB, chain_ancIdx, hq]

theorem SB_not_data (m : Nat) (r : Bool) (nD nA : Nat) (bd bd' ba : Bool) {q : Nat} (hq : ¬ q ∈ dataL m) :
    SB (chainDesc (m + 1) r) nD nA bd ba q = SB (chainDesc (m + 1) r) nD nA bd' ba q := by
  simp [SB, chain_dataIdx, hq]

/-- the algebra of one round: ancilla `a ⊕ [b]·(x₁⊕x₂)` plus its two neighbours (each `x ⊕ [refocus∧b]`)
    is `a ⊕ [¬b]·(x₁⊕x₂)` -/
theorem roundForm_SB (m : Nat) (r : Bool) (nD nA : Nat) (b : Bool) {t : Nat} (ht : t ∈ ancL m) :
    roundForm (SB (chainDesc (m + 1) r) nD nA b b) t = cycleFormB (chainDesc (m + 1) r) nD nA (!b) t := by
  have h := mem_ancL.mp ht
  have h1 : (t - 1) ∈ dataL m := mem_dataL.mpr ⟨by omega, by omega⟩
  have h2 : (t + 1) ∈ dataL m := mem_dataL.mpr ⟨by omega, by omega⟩
  simp only [roundForm, SB_anc m r nD nA b b ht, SB_data m r nD nA b b h1, SB_data m r nD nA b b h2,
    cycleFormB, finalFormB, parityForm, chain_nbrOf m r ht]
  generalize aVar (chainDesc (m + 1) r) nD nA t = A
  generalize xVar (chainDesc (m + 1) r) nD (t - 1) = x1
  generalize xVar (chainDesc (m + 1) r) nD (t + 1) = x2
  generalize hc : (if ((chainDesc (m + 1) r).refocus && b) = true then 1 else 0) = c
  cases b
  · simpa using (xor_alg_round A (x1 ^^^ x2) x1 x2 c rfl).2
  · simpa using (xor_alg_round A (x1 ^^^ x2) x1 x2 c rfl).1


theorem cB_chain (m : Nat) (r : Bool) (nD nA : Nat) (b : Bool) :
    cB (chainDesc (m + 1) r) nD nA b = ((ancL m).map (cycleFormB (chainDesc (m + 1) r) nD nA b)).reverse := by
  rw [cB, chain_measAnc]

theorem finB_chain (m : Nat) (r : Bool) (nD : Nat) (b : Bool) :
    finB (chainDesc (m + 1) r) nD b = ((dataL m).map (finalFormB (chainDesc (m + 1) r) nD b)).reverse := by
  rw [finB, chain_measData]

/-- `get_circuit_qec_round` on the closed-form state: the ancillas move to the other parity and are measured -/
theorem run_roundPlain_chain (m : Nat) (hm : 0 < m) (r : Bool) (nD nA : Nat) (b : Bool)
    (T D : List Nat) (o : Nat) :
    run (roundPlain (chainDesc (m + 1) r)) ⟨stateB (chainDesc (m + 1) r) nD nA b, T, D, o⟩ =
      some ⟨mk (2 * m + 1) (SB (chainDesc (m + 1) r) nD nA b (!b)),
            cB (chainDesc (m + 1) r) nD nA (!b) ++ T, D, o⟩ := by
  rw [chain_roundPlain m hm, stateB_eq, run_roundIns m _ (fun q _ => SB_Z _ _ _ _ _ q), cB_chain]
  have hs : mk (2 * m + 1) (ancSet m (SB (chainDesc (m + 1) r) nD nA b b) .Z
        (roundForm (SB (chainDesc (m + 1) r) nD nA b b))) =
      mk (2 * m + 1) (SB (chainDesc (m + 1) r) nD nA b (!b)) := by
    apply mk_congr
    intro x _
    by_cases hx : x ∈ ancL m
    · rw [ancSet_anc _ _ _ hx, roundForm_SB m r nD nA b hx, SB_anc m r nD nA b (!b) hx]
    · rw [ancSet_other _ _ _ hx]; exact SB_not_anc m r nD nA b b (!b) hx
  have hr : (ancL m).map (roundForm (SB (chainDesc (m + 1) r) nD nA b b)) =
      (ancL m).map (cycleFormB (chainDesc (m + 1) r) nD nA (!b)) :=
    List.map_congr_left (fun t ht => roundForm_SB m r nD nA b ht)
  rw [hs, hr]

theorem data_lt {m q : Nat} (h : q ∈ dataL m) : q < 2 * m + 1 := (mem_dataL.mp h).2

/-- the refocusing pulses -/
theorem run_X_data (m : Nat) (nD nA : Nat) (b ba : Bool) (T D : List Nat) (o : Nat) :
    run ((dataL m).map .X) ⟨mk (2 * m + 1) (SB (chainDesc (m + 1) true) nD nA b ba), T, D, o⟩ =
      some ⟨mk (2 * m + 1) (SB (chainDesc (m + 1) true) nD nA (!b) ba), T, D, o⟩ := by
  rw [run_act1_layer .X (.Z, 1) (.X, 0) (.Y, 1) (fun _ _ => rfl) _ _ (fun q hq => data_lt hq) (dataL_nodup m)]
  congr 2
  apply mk_congr
  intro x _
  by_cases hx : x ∈ dataL m
  · simp only [hx, if_true, SB_data m true nD nA _ ba hx, loc, finalFormB, chain_refocus]
    cases b
    · simp
    · simp [xor_xor_self]
  · simp only [hx, if_false]
    exact SB_not_data m true nD nA b (!b) ba hx

theorem SB_norefocus (m : Nat) (nD nA : Nat) (b b' ba : Bool) :
    SB (chainDesc (m + 1) false) nD nA b ba = SB (chainDesc (m + 1) false) nD nA b' ba := by
  funext q
  simp [SB, finalFormB, chain_refocus]

/-- `round_effect` for every chain: one QEC round with dynamical decoupling maps the closed-form state of
    parity `b` to the one of parity `!b` and appends the outcomes `cB (!b)` -/
theorem run_roundDD_chain (m : Nat) (hm : 0 < m) (r : Bool) (nD nA : Nat) (b : Bool)
    (T D : List Nat) (o : Nat) :
    run (roundDD (chainDesc (m + 1) r)) ⟨stateB (chainDesc (m + 1) r) nD nA b, T, D, o⟩ =
      some ⟨stateB (chainDesc (m + 1) r) nD nA (!b), cB (chainDesc (m + 1) r) nD nA (!b) ++ T, D, o⟩ := by
  unfold roundDD
  rw [List.append_assoc, run_append_some (run_roundPlain_chain m hm r nD nA b T D o), stateB_eq, chain_refocus,
    chain_measData]
  cases r
  · simp only [Bool.false_eq_true, if_false, List.nil_append]
    rw [SB_norefocus m nD nA b (!b) (!b)]
    rfl
  · simp only [if_true]
    rw [run_append_some (run_X_data m nD nA b (!b) _ D o)]
    rfl

end Qco.RepChain
