import QcoVerif.Lemmas.RepCode
/- C09: the per-description facts of the chain descriptions with 0 … 9 data qubits (length ≤ 17). -/
namespace Qco.RepCode

def chainTable : List Desc := (List.range 10).map fun dist => chainDesc dist true

theorem factsD : checkAll (entries chainTable) = true := by decide +kernel

end Qco.RepCode
