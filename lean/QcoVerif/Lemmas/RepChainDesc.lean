import QcoVerif.Lemmas.RepChainSem
/-
  C09, all chain lengths: the fields of `chainDesc (m+1) r` (m ancillas, m+1 data qubits, m ≥ 1) and the
  instruction list of one QEC round in closed form.
-/
namespace Qco.RepChain
open Qco.StimSem Qco.RepCode

/-- data qubit indices 0, 2, …, 2m -/
def dataL (m : Nat) : List Nat := (List.range (m + 1)).map fun i => 2 * i
/-- ancilla qubit indices 1, 3, …, 2m−1 -/
def ancL (m : Nat) : List Nat := (List.range m).map fun j => 2 * j + 1

theorem mem_dataL {m q : Nat} : q ∈ dataL m ↔ q % 2 = 0 ∧ q < 2 * m + 1 := by
  simp only [dataL, List.mem_map, List.mem_range]
  constructor
  · rintro ⟨i, hi, rfl⟩; omega
  · rintro ⟨h1, h2⟩; exact ⟨q / 2, by omega, by omega⟩

theorem mem_ancL {m q : Nat} : q ∈ ancL m ↔ q % 2 = 1 ∧ q < 2 * m := by
  simp only [ancL, List.mem_map, List.mem_range]
  constructor
  · rintro ⟨i, hi, rfl⟩; omega
  · rintro ⟨h1, h2⟩; exact ⟨q / 2, by omega, by omega⟩

theorem dataL_length (m : Nat) : (dataL m).length = m + 1 := by simp [dataL]
theorem ancL_length (m : Nat) : (ancL m).length = m := by simp [ancL]

theorem nodup_map_range (n : Nat) (f : Nat → Nat) (hf : ∀ i j, i < j → f i ≠ f j) :
    ((List.range n).map f).Nodup := by
  rw [List.Nodup, List.pairwise_map]
  have := List.pairwise_lt_range (n := n)
  exact this.imp (fun {a b} hab => hf a b hab)

theorem dataL_nodup (m : Nat) : (dataL m).Nodup :=
  nodup_map_range _ _ (fun i j h => by omega)
theorem ancL_nodup (m : Nat) : (ancL m).Nodup :=
  nodup_map_range _ _ (fun i j h => by omega)

theorem filter_even_range (m : Nat) :
    (List.range (2 * m + 1)).filter (· % 2 == 0) = dataL m := by
  induction m with
  | zero => rfl
  | succ m ih =>
    have e : 2 * (m + 1) + 1 = (2 * m + 1) + 1 + 1 := by omega
    rw [e, List.range_succ, List.range_succ, List.filter_append, List.filter_append, ih]
    have h1 : ((2 * m + 1) % 2 == 0) = false := by simp <;> omega
    have h2 : ((2 * m + 1 + 1) % 2 == 0) = true := by simp <;> omega
    simp only [List.filter_cons, List.filter_nil, h1, h2]
    simp [dataL, List.range_succ]
    omega

theorem filter_odd_range (m : Nat) :
    (List.range (2 * m + 1)).filter (· % 2 == 1) = ancL m := by
  induction m with
  | zero => rfl
  | succ m ih =>
    have e : 2 * (m + 1) + 1 = (2 * m + 1) + 1 + 1 := by omega
    rw [e, List.range_succ, List.range_succ, List.filter_append, List.filter_append, ih]
    have h1 : ((2 * m + 1) % 2 == 1) = true := by simp <;> omega
    have h2 : ((2 * m + 1 + 1) % 2 == 1) = false := by simp <;> omega
    simp only [List.filter_cons, List.filter_nil, h1, h2]
    simp [ancL, List.range_succ]

theorem filter_even_range' (m : Nat) :
    (List.range (2 * m)).filter (· % 2 == 0) = (List.range m).map fun j => 2 * j := by
  induction m with
  | zero => rfl
  | succ m ih =>
    have e : 2 * (m + 1) = 2 * m + 1 + 1 := by omega
    rw [e, List.range_succ, List.range_succ, List.filter_append, List.filter_append, ih]
    have h1 : ((2 * m) % 2 == 0) = true := by simp
    have h2 : ((2 * m + 1) % 2 == 0) = false := by simp <;> omega
    simp only [List.filter_cons, List.filter_nil, h1, h2]
    simp [List.range_succ]

theorem filter_odd_range' (m : Nat) :
    (List.range (2 * m)).filter (· % 2 == 1) = (List.range m).map fun j => 2 * j + 1 := by
  induction m with
  | zero => rfl
  | succ m ih =>
    have e : 2 * (m + 1) = 2 * m + 1 + 1 := by omega
    rw [e, List.range_succ, List.range_succ, List.filter_append, List.filter_append, ih]
    have h1 : ((2 * m) % 2 == 1) = false := by simp
    have h2 : ((2 * m + 1) % 2 == 1) = true := by simp <;> omega
    simp only [List.filter_cons, List.filter_nil, h1, h2]
    simp [List.range_succ]


/-! ### the fields of the chain description -/

/-- first gate layer: CZ (2j, 2j+1) -/
def evenG (m : Nat) : List (Nat × Nat) := (ancL m).map fun t => (t - 1, t)
/-- second gate layer: CZ (2j+1, 2j+2) -/
def oddG (m : Nat) : List (Nat × Nat) := (ancL m).map fun t => (t, t + 1)

theorem chain_dataIdx (m : Nat) (r : Bool) : (chainDesc (m + 1) r).dataIdx = dataL m := by
  have e : 2 * (m + 1) - 1 = 2 * m + 1 := by omega
  simp only [chainDesc, e]
  exact filter_even_range m

theorem chain_ancIdx (m : Nat) (r : Bool) : (chainDesc (m + 1) r).ancIdx = ancL m := by
  have e : 2 * (m + 1) - 1 = 2 * m + 1 := by omega
  simp only [chainDesc, e]
  exact filter_odd_range m

theorem chain_nbr (m : Nat) (r : Bool) :
    (chainDesc (m + 1) r).nbr = (List.range m).map fun j => (2 * j, 2 * j + 2) := by
  simp [chainDesc]

theorem chain_refocus (m : Nat) (r : Bool) : (chainDesc (m + 1) r).refocus = r := rfl

theorem chain_layers (m : Nat) (hm : 0 < m) (r : Bool) :
    (chainDesc (m + 1) r).layers = [⟨evenG m, []⟩, ⟨oddG m, []⟩] := by
  have e : 2 * (m + 1) - 1 - 1 = 2 * m := by omega
  simp only [chainDesc, e]
  have h1 : ((List.range (2 * m)).map fun i => (i, i + 1)).filter (fun e => e.1 % 2 == 0) = evenG m := by
    rw [List.filter_map]
    have : ((fun e : Nat × Nat => e.1 % 2 == 0) ∘ fun i => (i, i + 1)) = fun i => i % 2 == 0 := rfl
    rw [this, filter_even_range']
    simp [evenG, ancL, List.map_map, Function.comp_def]
  have h2 : ((List.range (2 * m)).map fun i => (i, i + 1)).filter (fun e => e.1 % 2 == 1) = oddG m := by
    rw [List.filter_map]
    have : ((fun e : Nat × Nat => e.1 % 2 == 1) ∘ fun i => (i, i + 1)) = fun i => i % 2 == 1 := rfl
    rw [this, filter_odd_range']
    simp [oddG, ancL, List.map_map, Function.comp_def]
  rw [h1, h2]
  obtain ⟨k, rfl⟩ : ∃ k, m = k + 1 := ⟨m - 1, by omega⟩
  simp [evenG, oddG, ancL, List.range_succ_eq_map]


theorem interleave_range' (a k : Nat) :
    interleave (List.range' a (k + 1) 2) (List.range' (a + 1) k 2) = List.range' a (2 * k + 1) := by
  induction k generalizing a with
  | zero => simp [interleave]
  | succ k ih =>
    have e : 2 * (k + 1) + 1 = (2 * k + 1) + 1 + 1 := by omega
    rw [e]
    simp only [List.range'_succ, interleave]
    have := ih (a + 2)
    simp only [List.range'_succ] at this
    simp only [Nat.add_assoc] at this ⊢
    rw [this]

theorem map_range_eq_range' (a s n : Nat) :
    (List.range n).map (fun i => a + s * i) = List.range' a n s := by
  apply List.ext_getElem
  · simp
  · intro i h1 h2
    simp

theorem dataL_eq_range' (m : Nat) : dataL m = List.range' 0 (m + 1) 2 := by
  rw [← map_range_eq_range']; simp [dataL]

theorem ancL_eq_range' (m : Nat) : ancL m = List.range' 1 m 2 := by
  rw [← map_range_eq_range']; simp [ancL, Nat.add_comm]

theorem chain_allIdx (m : Nat) (r : Bool) : (chainDesc (m + 1) r).allIdx = List.range (2 * m + 1) := by
  rw [Desc.allIdx, chain_dataIdx, chain_ancIdx, dataL_eq_range', ancL_eq_range']
  have := interleave_range' 0 m
  simp only [Nat.zero_add] at this
  rw [this, List.range_eq_range']

theorem chain_measData (m : Nat) (r : Bool) : (chainDesc (m + 1) r).measData = dataL m := by
  rw [Desc.measData, chain_allIdx, chain_dataIdx, ← filter_even_range]
  apply List.filter_congr
  intro q hq
  have hq := List.mem_range.mp hq
  rw [filter_even_range]
  by_cases h : q % 2 = 0
  · have : q ∈ dataL m := mem_dataL.mpr ⟨h, hq⟩
    simp [h, this]
  · have : ¬ q ∈ dataL m := fun hh => h (mem_dataL.mp hh).1
    simp [h, this]

theorem chain_measAnc (m : Nat) (r : Bool) : (chainDesc (m + 1) r).measAnc = ancL m := by
  rw [Desc.measAnc, chain_allIdx, chain_ancIdx, ← filter_odd_range]
  apply List.filter_congr
  intro q hq
  have hq := List.mem_range.mp hq
  rw [filter_odd_range]
  by_cases h : q % 2 = 1
  · have : q ∈ ancL m := mem_ancL.mpr ⟨h, by omega⟩
    simp [h, this]
  · have : ¬ q ∈ ancL m := fun hh => h (mem_ancL.mp hh).1
    simp [h, this]

theorem foldl_max_range (k : Nat) : (List.range (k + 1)).foldl max 0 = k := by
  induction k with
  | zero => rfl
  | succ k ih => rw [List.range_succ, List.foldl_append, ih]; simp

theorem chain_size (m : Nat) (r : Bool) : (chainDesc (m + 1) r).size = 2 * m + 1 := by
  rw [Desc.size, chain_allIdx, foldl_max_range]


/-! ### one QEC round -/

theorem flatMap_single_of_mem (P : Nat → Bool) (f : Nat → List Nat) (l : List Nat)
    (h : ∀ t ∈ l, (f t).filter P = [t]) : (l.flatMap fun t => (f t).filter P) = l := by
  induction l with
  | nil => rfl
  | cons t l ih =>
    rw [List.flatMap_cons, h t List.mem_cons_self, ih (fun x hx => h x (List.mem_cons_of_mem _ hx))]
    rfl

theorem chain_activeAnc_even (m : Nat) (r : Bool) :
    activeAnc (chainDesc (m + 1) r) ⟨evenG m, []⟩ = ancL m := by
  simp only [activeAnc, chain_measAnc, evenG, List.flatMap_map]
  apply flatMap_single_of_mem
  intro t ht
  have h := mem_ancL.mp ht
  have h1 : ¬ (t - 1) ∈ ancL m := fun hh => by have := (mem_ancL.mp hh).1; omega
  simp [ht, h1]

theorem chain_activeAnc_odd (m : Nat) (r : Bool) :
    activeAnc (chainDesc (m + 1) r) ⟨oddG m, []⟩ = ancL m := by
  simp only [activeAnc, chain_measAnc, oddG, List.flatMap_map]
  apply flatMap_single_of_mem
  intro t ht
  have h := mem_ancL.mp ht
  have h1 : ¬ (t + 1) ∈ ancL m := fun hh => by have := (mem_ancL.mp hh).1; omega
  simp [ht, h1]

theorem ancL_isEmpty (m : Nat) (hm : 0 < m) : (ancL m).isEmpty = false := by
  obtain ⟨k, rfl⟩ : ∃ k, m = k + 1 := ⟨m - 1, by omega⟩
  simp [ancL, List.range_succ_eq_map]

/-- the instructions of `get_circuit_qec_round` for the chain -/
def roundIns (m : Nat) : List Ins :=
  (ancL m).map .SY ++ [.TICK] ++ (ancL m).map (fun t => .CZ (t - 1) t) ++ [.TICK, .TICK] ++
  (ancL m).map (fun t => .CZ t (t + 1)) ++ [.TICK, .TICK] ++ (ancL m).map .SYd ++ [.TICK] ++ (ancL m).map .M

theorem chain_roundPlain (m : Nat) (hm : 0 < m) (r : Bool) :
    roundPlain (chainDesc (m + 1) r) = roundIns m := by
  have hE := ancL_isEmpty m hm
  have hf : (ancL m).filter (fun x => !(ancL m).contains x) = [] := by
    rw [List.filter_eq_nil_iff]; intro a ha; simp [ha]
  simp only [roundPlain, chain_layers m hm, roundLayers, chain_activeAnc_even, chain_activeAnc_odd,
    chain_measAnc]
  simp only [roundIns, evenG, oddG, List.map_map, Function.comp_def, List.isEmpty_map, hE, hf]
  have h1 : 1 ∈ ancL m := mem_ancL.mpr ⟨rfl, by omega⟩
  have h2 : ¬ ∀ a, ¬ a ∈ ancL m := fun h => h 1 h1
  simp [h2]
  congr 1
  exact List.filter_eq_self.mpr (fun _ _ => rfl)

theorem chain_roundDD (m : Nat) (hm : 0 < m) (r : Bool) :
    roundDD (chainDesc (m + 1) r) = roundIns m ++ (if r then (dataL m).map .X else []) ++ [.TICK] := by
  simp only [roundDD, chain_roundPlain m hm, chain_measData, chain_refocus]

end Qco.RepChain
