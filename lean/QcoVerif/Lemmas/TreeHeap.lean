import QcoVerif.Lemmas.Unroll
/-
  Tree-shaped heaps (the hypothesis of the nested unrolling theorem, Lemmas/UnrollNested.lean): leaf signatures
  (`Op.sig`), the nodes of a composite (`World.kids`), the objects below an object (`World.below`), the count-expanded
  multiset of leaf signatures (`World.expand`), the separation predicate `TreeBelow`, `AllOnes`; congruence lemmas (these
  notions only read the objects below) and the frames of `add` / `extend`.  Core Lean only.
-/
namespace Qco

/-! ### signatures -/

/-- the link-independent signature of a leaf operation. -/
structure Sig where
  cls : Cls
  qs : List Int
  chan : Chan
  dur : Dur
  tag : Nat
  ints : List (Option Int)
  deriving DecidableEq, Repr

def Op.sig (o : Op) : Sig := ⟨o.cls, o.qs, o.chan, o.dur, o.tag, o.ints⟩

/-- the per-class `copy()` keeps the signature of this operation (true of everything the constructors produce:
    `copyStable_of_wellFormed`). -/
def Op.CopyStable (o : Op) : Prop := o.copyFields.sig = o.sig

theorem sig_noLink (o : Op) : o.noLink.sig = o.sig := rfl

theorem sig_of_noLink {a b : Op} (h : a.noLink = b.noLink) : a.sig = b.sig := by
  rw [← sig_noLink a, h, sig_noLink]

theorem copyFields_noLink (o : Op) : o.noLink.copyFields = o.copyFields := by
  cases o with
  | mk cls qs chan dur link tag reg ints rep graph =>
    cases cls <;> rfl

theorem copyStable_of_noLink {a b : Op} (h : a.noLink = b.noLink) (hb : b.CopyStable) : a.CopyStable := by
  unfold Op.CopyStable at hb ⊢
  rw [← copyFields_noLink a, h, copyFields_noLink, sig_of_noLink h]
  exact hb

/-- the copy of a copy has the signature of the copy: `copyFields` is idempotent on signatures. -/
theorem copyFields_idem (o : Op) (l r : Nat) :
    ({ o.copyFields with link := l, reg := r } : Op).copyFields.sig = o.copyFields.sig := by
  cases o with
  | mk cls qs chan dur link tag reg ints rep graph =>
    cases cls <;> rfl

theorem copyStable_of_wellFormed (o : Op) (h : C05.Op.WellFormed o) : o.CopyStable := by
  obtain ⟨h1, h2, h3, h4, h5, h6, _⟩ := C05.copy_class_faithful o h
  unfold Op.CopyStable Op.sig
  rw [h1, h2, h3, h4, h5, h6]

/-! ### list helpers -/

theorem perm_flatMap_congr {α β} {l : List α} {f g : α → List β} (h : ∀ a ∈ l, (f a).Perm (g a)) :
    (l.flatMap f).Perm (l.flatMap g) := by
  induction l with
  | nil => exact List.Perm.refl _
  | cons x xs ih =>
    simp only [List.flatMap_cons]
    exact (h x List.mem_cons_self).append (ih (fun a ha => h a (List.mem_cons_of_mem _ ha)))

theorem repeatList_add {α} (m n : Nat) (l : List α) : repeatList (m + n) l = repeatList m l ++ repeatList n l := by
  induction m with
  | zero => simp
  | succ m ih => rw [Nat.succ_add, repeatList_succ, repeatList_succ, ih, List.append_assoc]

/-! ### the tree below an object -/

/-- the nodes of a composite, in insertion order. -/
def World.kids (w : World) (o : Nat) : List Nat := (w.op o).graph.map (·.node)

/-- the objects at and below `o` (fuel = depth bound). -/
def World.below (w : World) : Nat → Nat → List Nat
  | 0, _ => []
  | f+1, o => o :: (if (w.op o).isComp then (w.kids o).flatMap (w.below f) else [])

/-- the count-expanded leaf signatures at and below `o`: a leaf gives its signature, a composite the signatures of its
    nodes (insertion order) repeated `max 1 count` times (`apply_modifiers` makes `count - 1` extra copies: a count of
    `0` behaves like `1`). -/
def World.expand (w : World) : Nat → Nat → List Sig
  | 0, _ => []
  | f+1, o =>
    if (w.op o).isComp then repeatList (max 1 (w.repCount (w.op o).rep)) ((w.kids o).flatMap (w.expand f))
    else [(w.op o).sig]

/-- the same expansion under an ARBITRARY assignment `cnt` of multiplicities to repetition strategies (used to state that
    a copy has the same strategy at every level: its expansions agree with the original's for every `cnt`). -/
def World.expandWith (w : World) (cnt : Rep → Nat) : Nat → Nat → List Sig
  | 0, _ => []
  | f+1, o =>
    if (w.op o).isComp then repeatList (cnt (w.op o).rep) ((w.kids o).flatMap (w.expandWith cnt f))
    else [(w.op o).sig]

/-- one pass over the nodes of `o` (without the count of `o` itself). -/
def World.content (w : World) (f o : Nat) : List Sig := (w.kids o).flatMap (w.expand f)

/-- **tree shape / separation**: `o` is an object of the heap; a composite's nodes are pairwise distinct, each is the
    root of a tree not containing `o`, and the trees of distinct nodes share no object; a leaf's class copy keeps its
    signature; the nesting depth is at most the fuel. -/
def TreeBelow (w : World) : Nat → Nat → Prop
  | 0, _ => False
  | f+1, o => o < w.ops.size ∧
      (((w.op o).isComp = true ∧ (w.kids o).Nodup ∧
        (∀ n ∈ w.kids o, TreeBelow w f n ∧ o ∉ w.below f n) ∧
        (∀ a ∈ w.kids o, ∀ b ∈ w.kids o, a ≠ b → ∀ j, j ∈ w.below f a → j ∉ w.below f b))
      ∨ ((w.op o).isComp = false ∧ (w.op o).CopyStable))

/-- every composite at or below `o` has the fixed repetition count 1. -/
def AllOnes (w : World) : Nat → Nat → Prop
  | 0, _ => True
  | f+1, o => (w.op o).isComp = true → (w.op o).rep = .fixed 1 ∧ ∀ n ∈ w.kids o, AllOnes w f n

theorem expand_comp (w : World) (f o : Nat) (h : (w.op o).isComp = true) :
    w.expand (f + 1) o = repeatList (max 1 (w.repCount (w.op o).rep)) (w.content f o) := by
  simp only [World.expand, h, if_true, World.content]

theorem expand_leaf (w : World) (f o : Nat) (h : (w.op o).isComp = false) :
    w.expand (f + 1) o = [(w.op o).sig] := by
  simp [World.expand, h]

theorem below_comp (w : World) (f o : Nat) (h : (w.op o).isComp = true) :
    w.below (f + 1) o = o :: (w.kids o).flatMap (w.below f) := by
  simp only [World.below, h, if_true]

theorem below_leaf (w : World) (f o : Nat) (h : (w.op o).isComp = false) : w.below (f + 1) o = [o] := by
  simp [World.below, h]

theorem self_mem_below (w : World) (f o : Nat) : o ∈ w.below (f + 1) o := by
  simp [World.below]

theorem below_kid (w : World) (f o n j : Nat) (h : (w.op o).isComp = true) (hn : n ∈ w.kids o)
    (hj : j ∈ w.below f n) : j ∈ w.below (f + 1) o := by
  rw [below_comp w f o h]
  exact List.mem_cons_of_mem _ (List.mem_flatMap.mpr ⟨n, hn, hj⟩)

theorem mem_below_comp (w : World) (f o j : Nat) (h : (w.op o).isComp = true) :
    j ∈ w.below (f + 1) o ↔ j = o ∨ ∃ n ∈ w.kids o, j ∈ w.below f n := by
  rw [below_comp w f o h, List.mem_cons, List.mem_flatMap]

theorem TreeBelow.pos {w : World} {f o : Nat} (h : TreeBelow w f o) : 0 < f := by
  cases f with
  | zero => exact h.elim
  | succ f => omega

theorem TreeBelow.lt {w : World} {f o : Nat} (h : TreeBelow w f o) : o < w.ops.size := by
  cases f with
  | zero => exact h.elim
  | succ f => exact h.1

theorem TreeBelow.self_mem {w : World} {f o : Nat} (h : TreeBelow w f o) : o ∈ w.below f o := by
  cases f with
  | zero => exact h.elim
  | succ f => exact self_mem_below w f o

theorem TreeBelow.leaf_intro {w : World} {f o : Nat} (h1 : o < w.ops.size) (h2 : (w.op o).isComp = false)
    (h3 : (w.op o).CopyStable) : TreeBelow w (f + 1) o := ⟨h1, Or.inr ⟨h2, h3⟩⟩

theorem TreeBelow.comp_intro {w : World} {f o : Nat} (h1 : o < w.ops.size) (h2 : (w.op o).isComp = true)
    (h3 : (w.kids o).Nodup) (h4 : ∀ n ∈ w.kids o, TreeBelow w f n) (h5 : ∀ n ∈ w.kids o, o ∉ w.below f n)
    (h6 : ∀ a ∈ w.kids o, ∀ b ∈ w.kids o, a ≠ b → ∀ j, j ∈ w.below f a → j ∉ w.below f b) :
    TreeBelow w (f + 1) o := ⟨h1, Or.inl ⟨h2, h3, fun n hn => ⟨h4 n hn, h5 n hn⟩, h6⟩⟩

theorem TreeBelow.stable {w : World} {f o : Nat} (h : TreeBelow w f o) (hl : (w.op o).isComp = false) :
    (w.op o).CopyStable := by
  cases f with
  | zero => exact h.elim
  | succ f =>
    rcases h.2 with h | h
    · rw [h.1] at hl; cases hl
    · exact h.2

theorem TreeBelow.kids_nodup {w : World} {f o : Nat} (h : TreeBelow w (f + 1) o) (hc : (w.op o).isComp = true) :
    (w.kids o).Nodup := by
  rcases h.2 with h | h
  · exact h.2.1
  · rw [h.1] at hc; cases hc

theorem TreeBelow.kid {w : World} {f o n : Nat} (h : TreeBelow w (f + 1) o) (hc : (w.op o).isComp = true)
    (hn : n ∈ w.kids o) : TreeBelow w f n := by
  rcases h.2 with h | h
  · exact (h.2.2.1 n hn).1
  · rw [h.1] at hc; cases hc

theorem TreeBelow.not_below_kid {w : World} {f o n : Nat} (h : TreeBelow w (f + 1) o) (hc : (w.op o).isComp = true)
    (hn : n ∈ w.kids o) : o ∉ w.below f n := by
  rcases h.2 with h | h
  · exact (h.2.2.1 n hn).2
  · rw [h.1] at hc; cases hc

theorem TreeBelow.disj {w : World} {f o a b : Nat} (h : TreeBelow w (f + 1) o) (hc : (w.op o).isComp = true)
    (ha : a ∈ w.kids o) (hb : b ∈ w.kids o) (hab : a ≠ b) : ∀ j, j ∈ w.below f a → j ∉ w.below f b := by
  rcases h.2 with h | h
  · exact h.2.2.2 a ha b hb hab
  · rw [h.1] at hc; cases hc

/-- every object below a tree root is an object of the heap. -/
theorem below_lt (w : World) : ∀ (f o : Nat), TreeBelow w f o → ∀ j ∈ w.below f o, j < w.ops.size := by
  intro f
  induction f with
  | zero => intro o h; exact h.elim
  | succ f ih =>
    intro o h j hj
    by_cases hc : (w.op o).isComp = true
    · rw [mem_below_comp w f o j hc] at hj
      rcases hj with rfl | ⟨n, hn, hj⟩
      · exact h.1
      · exact ih n (h.kid hc hn) j hj
    · have hc' : (w.op o).isComp = false := by simpa using hc
      rw [below_leaf w f o hc'] at hj
      simp only [List.mem_singleton] at hj
      subst hj; exact h.1

/-! ### congruence: these notions only read the objects below (up to links) -/

theorem kids_of_noLink {a b : Op} (h : a.noLink = b.noLink) : a.graph.map (·.node) = b.graph.map (·.node) := by
  rw [noLink_graph h]

theorem below_congr (w w' : World) : ∀ (f o : Nat),
    (∀ j ∈ w.below f o, (w'.op j).noLink = (w.op j).noLink) → w'.below f o = w.below f o := by
  intro f
  induction f with
  | zero => intro o _; rfl
  | succ f ih =>
    intro o h
    have ho := h o (self_mem_below w f o)
    by_cases hc : (w.op o).isComp = true
    · have hc' : (w'.op o).isComp = true := by rw [noLink_isComp ho]; exact hc
      have hk : w'.kids o = w.kids o := kids_of_noLink ho
      rw [below_comp w f o hc, below_comp w' f o hc', hk]
      congr 1
      apply flatMap_congr'
      intro n hn
      exact ih n (fun j hj => h j (below_kid w f o n j hc hn hj))
    · have hc0 : (w.op o).isComp = false := by simpa using hc
      have hc' : (w'.op o).isComp = false := by rw [noLink_isComp ho]; exact hc0
      rw [below_leaf w f o hc0, below_leaf w' f o hc']

theorem expand_congr (w w' : World) (hr : w'.rreg = w.rreg) : ∀ (f o : Nat),
    (∀ j ∈ w.below f o, (w'.op j).noLink = (w.op j).noLink) → w'.expand f o = w.expand f o := by
  intro f
  induction f with
  | zero => intro o _; rfl
  | succ f ih =>
    intro o h
    have ho := h o (self_mem_below w f o)
    by_cases hc : (w.op o).isComp = true
    · have hc' : (w'.op o).isComp = true := by rw [noLink_isComp ho]; exact hc
      have hk : w'.kids o = w.kids o := kids_of_noLink ho
      have hcnt : w'.repCount (w'.op o).rep = w.repCount (w.op o).rep := by
        rw [noLink_rep ho]; unfold World.repCount; rw [hr]
      rw [expand_comp w f o hc, expand_comp w' f o hc', hcnt]
      congr 1
      unfold World.content
      rw [hk]
      apply flatMap_congr'
      intro n hn
      exact ih n (fun j hj => h j (below_kid w f o n j hc hn hj))
    · have hc0 : (w.op o).isComp = false := by simpa using hc
      have hc' : (w'.op o).isComp = false := by rw [noLink_isComp ho]; exact hc0
      rw [expand_leaf w f o hc0, expand_leaf w' f o hc', sig_of_noLink ho]

theorem expandWith_congr (w w' : World) (cnt : Rep → Nat) : ∀ (f o : Nat),
    (∀ j ∈ w.below f o, (w'.op j).noLink = (w.op j).noLink) → w'.expandWith cnt f o = w.expandWith cnt f o := by
  intro f
  induction f with
  | zero => intro o _; rfl
  | succ f ih =>
    intro o h
    have ho := h o (self_mem_below w f o)
    by_cases hc : (w.op o).isComp = true
    · have hc' : (w'.op o).isComp = true := by rw [noLink_isComp ho]; exact hc
      have hk : w'.kids o = w.kids o := kids_of_noLink ho
      simp only [World.expandWith, hc, hc', if_true]
      rw [noLink_rep ho, hk]
      congr 1
      apply flatMap_congr'
      intro n hn
      exact ih n (fun j hj => h j (below_kid w f o n j hc hn hj))
    · have hc0 : (w.op o).isComp = false := by simpa using hc
      have hc' : (w'.op o).isComp = false := by rw [noLink_isComp ho]; exact hc0
      simp only [World.expandWith, hc0, hc', Bool.false_eq_true, if_false]
      rw [sig_of_noLink ho]

/-- the count-expanded multiset is the instance `cnt r = max 1 (count of r)`. -/
theorem expand_eq_expandWith (w : World) : ∀ (f o : Nat),
    w.expand f o = w.expandWith (fun r => max 1 (w.repCount r)) f o := by
  intro f
  induction f with
  | zero => intro o; rfl
  | succ f ih =>
    intro o
    simp only [World.expand, World.expandWith]
    have : (w.kids o).flatMap (w.expand f) =
        (w.kids o).flatMap (w.expandWith (fun r => max 1 (w.repCount r)) f) :=
      flatMap_congr' (fun n _ => ih n)
    rw [this]

theorem content_congr (w w' : World) (hr : w'.rreg = w.rreg) (f o : Nat) (hc : (w.op o).isComp = true)
    (h : ∀ j ∈ w.below (f + 1) o, (w'.op j).noLink = (w.op j).noLink) : w'.content f o = w.content f o := by
  have ho := h o (self_mem_below w f o)
  have hk : w'.kids o = w.kids o := kids_of_noLink ho
  unfold World.content
  rw [hk]
  apply flatMap_congr'
  intro n hn
  exact expand_congr w w' hr f n (fun j hj => h j (below_kid w f o n j hc hn hj))

theorem tree_congr (w w' : World) (hs : w.ops.size ≤ w'.ops.size) : ∀ (f o : Nat), TreeBelow w f o →
    (∀ j ∈ w.below f o, (w'.op j).noLink = (w.op j).noLink) → TreeBelow w' f o := by
  intro f
  induction f with
  | zero => intro o h _; exact h.elim
  | succ f ih =>
    intro o ht h
    have ho := h o (self_mem_below w f o)
    by_cases hc : (w.op o).isComp = true
    · have hc' : (w'.op o).isComp = true := by rw [noLink_isComp ho]; exact hc
      have hk : w'.kids o = w.kids o := kids_of_noLink ho
      have hb : ∀ n ∈ w.kids o, w'.below f n = w.below f n := fun n hn =>
        below_congr w w' f n (fun j hj => h j (below_kid w f o n j hc hn hj))
      refine TreeBelow.comp_intro (Nat.lt_of_lt_of_le ht.1 hs) hc' ?_ ?_ ?_ ?_
      · rw [hk]; exact ht.kids_nodup hc
      · intro n hn
        rw [hk] at hn
        exact ih n (ht.kid hc hn) (fun j hj => h j (below_kid w f o n j hc hn hj))
      · intro n hn
        rw [hk] at hn
        rw [hb n hn]; exact ht.not_below_kid hc hn
      · intro a ha b hb' hab
        rw [hk] at ha hb'
        rw [hb a ha, hb b hb']
        exact ht.disj hc ha hb' hab
    · have hc0 : (w.op o).isComp = false := by simpa using hc
      have hc' : (w'.op o).isComp = false := by rw [noLink_isComp ho]; exact hc0
      exact TreeBelow.leaf_intro (Nat.lt_of_lt_of_le ht.1 hs) hc' (copyStable_of_noLink ho (ht.stable hc0))

theorem allOnes_congr (w w' : World) : ∀ (f o : Nat), AllOnes w f o →
    (∀ j ∈ w.below f o, (w'.op j).noLink = (w.op j).noLink) → AllOnes w' f o := by
  intro f
  induction f with
  | zero => intro o _ _; trivial
  | succ f ih =>
    intro o ha h hc'
    have ho := h o (self_mem_below w f o)
    have hc : (w.op o).isComp = true := by rw [← noLink_isComp ho]; exact hc'
    have hk : w'.kids o = w.kids o := kids_of_noLink ho
    obtain ⟨h1, h2⟩ := ha hc
    refine ⟨by rw [noLink_rep ho]; exact h1, ?_⟩
    intro n hn
    rw [hk] at hn
    exact ih n (h2 n hn) (fun j hj => h j (below_kid w f o n j hc hn hj))

/-! ### forests: lists of pairwise separated trees -/

/-- a list of pairwise separated trees (the nodes of a composite of a tree-shaped heap). -/
structure Forest (w : World) (f : Nat) (K : List Nat) : Prop where
  nodup : K.Nodup
  tree : ∀ n ∈ K, TreeBelow w f n
  disj : ∀ a ∈ K, ∀ b ∈ K, a ≠ b → ∀ j, j ∈ w.below f a → j ∉ w.below f b

theorem Forest.nil (w : World) (f : Nat) : Forest w f [] :=
  ⟨List.nodup_nil, fun _ h => (by cases h), fun _ h _ _ _ => (by cases h)⟩

theorem TreeBelow.forest {w : World} {f o : Nat} (h : TreeBelow w (f + 1) o) (hc : (w.op o).isComp = true) :
    Forest w f (w.kids o) :=
  ⟨h.kids_nodup hc, fun _ hn => h.kid hc hn, fun _ ha _ hb hab => h.disj hc ha hb hab⟩

theorem TreeBelow.of_forest {w : World} {f o : Nat} (h1 : o < w.ops.size) (h2 : (w.op o).isComp = true)
    (h3 : Forest w f (w.kids o)) (h4 : ∀ n ∈ w.kids o, o ∉ w.below f n) : TreeBelow w (f + 1) o :=
  TreeBelow.comp_intro h1 h2 h3.nodup h3.tree h4 h3.disj

theorem Forest.congr {w w' : World} {f : Nat} {K : List Nat} (h : Forest w f K) (hs : w.ops.size ≤ w'.ops.size)
    (hsame : ∀ n ∈ K, ∀ j ∈ w.below f n, (w'.op j).noLink = (w.op j).noLink) :
    Forest w' f K ∧ ∀ n ∈ K, w'.below f n = w.below f n := by
  have hb : ∀ n ∈ K, w'.below f n = w.below f n := fun n hn => below_congr w w' f n (hsame n hn)
  refine ⟨⟨h.nodup, fun n hn => tree_congr w w' hs f n (h.tree n hn) (hsame n hn), ?_⟩, hb⟩
  intro a ha b hb' hab
  rw [hb a ha, hb b hb']
  exact h.disj a ha b hb' hab

theorem Forest.append {w : World} {f : Nat} {K1 K2 : List Nat} (h1 : Forest w f K1) (h2 : Forest w f K2)
    (hd : ∀ a ∈ K1, ∀ b ∈ K2, ∀ j, j ∈ w.below f a → j ∉ w.below f b) : Forest w f (K1 ++ K2) := by
  refine ⟨?_, ?_, ?_⟩
  · rw [List.nodup_append]
    refine ⟨h1.nodup, h2.nodup, ?_⟩
    intro a ha b hb hab
    subst hab
    exact hd a ha a hb a (h1.tree a ha).self_mem (h2.tree a hb).self_mem
  · intro n hn
    rcases List.mem_append.mp hn with hn | hn
    · exact h1.tree n hn
    · exact h2.tree n hn
  · intro a ha b hb hab j hja hjb
    rcases List.mem_append.mp ha with ha | ha <;> rcases List.mem_append.mp hb with hb | hb
    · exact h1.disj a ha b hb hab j hja hjb
    · exact hd a ha b hb j hja hjb
    · exact hd b hb a ha j hjb hja
    · exact h2.disj a ha b hb hab j hja hjb

theorem Forest.perm {w : World} {f : Nat} {K1 K2 : List Nat} (h : Forest w f K1) (hp : K1.Perm K2) : Forest w f K2 :=
  ⟨hp.nodup_iff.mp h.nodup, fun n hn => h.tree n (hp.mem_iff.mpr hn),
    fun a ha b hb hab => h.disj a (hp.mem_iff.mpr ha) b (hp.mem_iff.mpr hb) hab⟩

theorem Forest.single {w : World} {f n : Nat} (h : TreeBelow w f n) : Forest w f [n] := by
  refine ⟨by simp, ?_, ?_⟩
  · intro m hm; simp only [List.mem_singleton] at hm; subst hm; exact h
  · intro a ha b hb hab
    simp only [List.mem_singleton] at ha hb
    exact absurd (ha.trans hb.symm) hab

/-! ### frames of `add` and `extend`: which objects are written at all -/

theorem setLink_op_other (w : World) (i l j : Nat) (h : j ≠ i) : (w.setLink i l).op j = w.op j := by
  unfold World.setLink
  rw [op_setOp]
  have : ¬ (i = j ∧ i < w.ops.size) := fun hh => h hh.1.symm
  simp only [this, if_false]

/-- `add_to_graph` writes no object but the added one (whose link it may replace). -/
theorem addToGraph_op_other (w : World) (g : List Entry) (o j : Nat) (h : j ≠ o) :
    (w.addToGraph g o).1.op j = w.op j := by
  have nl : ∀ (w1 : World) (L : Link), ((w1.newLink L).1.setLink o (w1.newLink L).2).op j = w1.op j := by
    intro w1 L; rw [setLink_op_other _ _ _ _ h]; rfl
  unfold World.addToGraph
  simp only
  split
  · split
    · rfl
    · split <;> exact nl _ _
  · split
    · split
      · rfl
      · split <;> exact nl _ _
    · split <;> exact nl _ _

/-- `add` writes only the composite (its graph) and the added object (its link). -/
theorem add_op_other (w : World) (c o j : Nat) (hjc : j ≠ c) (hjo : j ≠ o) : (w.add c o).op j = w.op j := by
  unfold World.add
  simp only [World.setGraph]
  rw [op_setOp]
  have : ¬ (c = j ∧ c < (w.addToGraph (w.op c).graph o).1.ops.size) := fun hh => hjc hh.1.symm
  simp only [this, if_false]
  exact addToGraph_op_other w _ o j hjo

/-- `add` in terms of `kids`. -/
theorem add_kids (w : World) (c o : Nat) (hc : c < w.ops.size) : (w.add c o).kids c = w.kids c ++ [o] := by
  obtain ⟨_, _, ⟨e, he, hg⟩, _⟩ := add_spec w c o hc
  unfold World.kids
  rw [hg, List.map_append, List.map_cons, List.map_nil, he]

theorem extendStep_op_other (c rel : Nat) (w : World) (n j : Nat) (hjc : j ≠ c) (hjn : j ≠ n) :
    (extendStep c rel w n).op j = w.op j := by
  unfold extendStep
  rw [add_op_other _ _ _ _ hjc hjn]
  split
  · exact setLink_op_other w n rel j hjn
  · rfl

theorem extend_fold_op_other (c rel j : Nat) (hjc : j ≠ c) : ∀ (L : List Nat) (w : World), j ∉ L →
    (L.foldl (extendStep c rel) w).op j = w.op j := by
  intro L
  induction L with
  | nil => intro w _; rfl
  | cons n ns ih =>
    intro w hj
    simp only [List.foldl_cons]
    rw [ih _ (fun h => hj (List.mem_cons_of_mem _ h))]
    exact extendStep_op_other c rel w n j hjc (fun h => hj (h ▸ List.mem_cons_self))

/-- `extend` writes only the extended composite (its graph) and the appended nodes (their links). -/
theorem extend_op_other (w : World) (c other j : Nat) (hjc : j ≠ c) (hj : j ∉ listing (w.op other).graph) :
    (w.extend c other).op j = w.op j := by
  unfold World.extend
  simp only
  split
  · exact extend_fold_op_other c _ j hjc _ _ hj
  · exact extend_fold_op_other c _ j hjc _ _ hj

theorem extend_kids (w : World) (c other : Nat) (hc : c < w.ops.size) :
    (w.extend c other).kids c = w.kids c ++ listing (w.op other).graph :=
  (extend_spec w c other hc).2.2.1

end Qco
