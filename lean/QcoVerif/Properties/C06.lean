import QcoVerif.Model.Builder
namespace Qco.C06
end Qco.C06
