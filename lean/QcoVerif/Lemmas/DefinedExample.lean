import QcoVerif.Lemmas.DefinedBuild
import QcoVerif.Lemmas.DefinedCopy
import QcoVerif.Lemmas.CopyNestedExample
/-
  C01, definedness: a worked example.  The build program

      c = DeclarativeCircuit(); s = DeclarativeCircuit(repetitions 2)
      x = Rx180(0); s.add(x);  y = Ry90(0); s.add(y)            -- y FOLLOWED_BY x (implicit)
      a = Rx90(1); c.add(a);   c.add(s)                         -- the sub-circuit is a node of c
      d = DispersiveMeasure(1, relation=RelationLink(a, JOINED_END)); c.add(d)
      b = CPhase(0, 1); c.add(b)                                -- b FOLLOWED_BY s (implicit)

  is evaluated with the model's own builder (`newCircuit / newLink / newOp / add`) to a literal heap `dxLit`;
  the literal heap is closed and ranked (checked by evaluation), hence every time is defined with the driver's
  fuel, and — together with `schedule_unique` — the times are the ones listed in `dxS / dxD`.
  (The first four lines are `nxBuild4` of Lemmas/CopyNestedExample.lean.)
-/
namespace Qco.Defined

open Qco Qco.C10

def dxL5 : Link := { refs := [4], rel := .je }
def dxD : Op := { cls := .measure, qs := [1], dur := .glob .ro, link := 5 }

/-- the build program (continuing `nxBuild4`). -/
def dxWorld : World :=
  let w := nxBuild4
  let (w, l4) := w.newLink { refs := [4], rel := .je }
  let (w, d) := w.newOp { cls := .measure, qs := [1], dur := .glob .ro, link := l4 }
  let w := w.add 0 d
  let (w, l5) := w.newLink {}
  let (w, b) := w.newOp { cls := .cphase, qs := [0, 1], dur := .glob .fl, link := l5 }
  w.add 0 b

def dxS5 : World :=
  { ops := #[{ nxC with graph := [⟨4, none, [0]⟩, ⟨1, none, [1]⟩] }, { nxS with graph := nxSg }, nxX, nxY, nxA, dxD],
    links := #[{}, {}, {}, { refs := [2] }, {}, dxL5] }
def dxS5' : World :=
  { ops := #[{ nxC with graph := [⟨4, none, [0]⟩, ⟨1, none, [1]⟩, ⟨5, some 4, [0, 0]⟩] }, { nxS with graph := nxSg },
             nxX, nxY, nxA, dxD],
    links := #[{}, {}, {}, { refs := [2] }, {}, dxL5] }
def dxS6 : World :=
  { ops := #[{ nxC with graph := [⟨4, none, [0]⟩, ⟨1, none, [1]⟩, ⟨5, some 4, [0, 0]⟩] }, { nxS with graph := nxSg },
             nxX, nxY, nxA, dxD, { cls := .cphase, qs := [0, 1], dur := .glob .fl, link := 6 }],
    links := #[{}, {}, {}, { refs := [2] }, {}, dxL5, {}] }
/-- the heap the build program produces. -/
def dxLit : World :=
  { ops := #[{ nxC with graph := nxCg }, { nxS with graph := nxSg }, nxX, nxY, nxA, dxD,
             { cls := .cphase, qs := [0, 1], dur := .glob .fl, link := 7 }],
    links := #[{}, {}, {}, { refs := [2] }, {}, dxL5, {}, { refs := [1] }] }

theorem dxStep5 : dxS5.add 0 5 = dxS5' := by
  rw [add_child_eq dxS5 0 5 4 (by decide) (by decide) (by decide) (by decide)]
  rfl

theorem dxStep6 : dxS6.add 0 6 = dxLit := by
  have hs : dxS6.chansOf 1 = [⟨0, .mw⟩] := by
    rw [chansOf_flatcomp dxS6 1 (by decide) (by
      show ∀ n ∈ listing nxSg, _
      rw [nxSg_listing]; decide)]
    show dedupChans ((listing nxSg).flatMap _) = _
    rw [nxSg_listing]; rfl
  have hl : listing (dxS6.op 0).graph = [4, 1, 5] := by rw [listing_lit _ (by decide)]; rfl
  have h5 : dxS6.chansOf 5 = [⟨1, .ro⟩] := by rw [chansOf_leaf dxS6 5 (by decide)]; rfl
  have h6 : dxS6.chansOf 6 = [⟨0, .fl⟩, ⟨0, .mw⟩, ⟨1, .fl⟩, ⟨1, .mw⟩] := by rw [chansOf_leaf dxS6 6 (by decide)]; rfl
  rw [add_relink_eq dxS6 0 6 1 (by decide) (by
    unfold World.leafAtAny
    rw [hl, h6]
    simp [h5, hs, ChId.matches])]
  rfl

/-- the build program evaluates to the literal heap. -/
theorem dxWorld_eq : dxWorld = dxLit := by
  unfold dxWorld
  rw [nxBuild4_eq]
  show ((dxS5.add 0 5).newLink {}).1.newOp _ |>.1.add 0 6 = dxLit
  rw [dxStep5]
  exact dxStep6

/-- the explicit rank function: `x, a ↦ 0`, `y, d ↦ 1`, `s ↦ 2`, `b ↦ 3`, `c ↦ 4`. -/
def dxRank : List Nat := [4, 2, 0, 1, 0, 1, 3]

theorem dxLit_ranked : Ranked dxLit (fun o => dxRank.getD o 0) :=
  ranked_of_check dxLit dxRank (by decide) (by decide)

theorem dxLit_closed : Closed dxLit := closed_of_check dxLit (by decide)

theorem dxWorld_ranked : Ranked dxWorld (fun o => dxRank.getD o 0) := by rw [dxWorld_eq]; exact dxLit_ranked

theorem dxWorld_closed : Closed dxWorld := by rw [dxWorld_eq]; exact dxLit_closed

end Qco.Defined
