import QcoVerif.Driver.HeapDraw
import QcoVerif.Lemmas.Draw
/-
  C18 — drawing shows the schedule and leaves the circuit alone.
-/
namespace Qco.C18

open Qco Qco.Draw

/-! ## rows -/

/-- the occupied channels carry no duplicate. -/
theorem occupied_nodup (w : World) (c : Nat) : (occupied w c).Nodup := nodup_uniqueInOrder _

/-- **rows (rejection)**: the requested order is rejected iff one of its elements is not occupied. -/
theorem rows_reject_iff (occ order : List Int) :
    reorder occ order = none ↔ ∃ x ∈ order, x ∉ occ := by
  unfold reorder
  by_cases h : order.all (fun x => occ.contains x) = true
  · simp only [h, if_true]
    constructor
    · intro h'; cases h'
    · rintro ⟨x, hx, hn⟩
      have := (List.all_eq_true.mp h) x hx
      simp at this
      exact absurd this hn
  · simp only [h]
    constructor
    · intro _
      have : ∃ x ∈ order, ¬ (occ.contains x = true) := by
        simpa [List.all_eq_true] using h
      obtain ⟨x, hx, hn⟩ := this
      exact ⟨x, hx, by simpa using hn⟩
    · intro _; rfl

/-- **rows (value)**: an accepted order is put in front, the remaining occupied channels follow in
    their own order. -/
theorem rows_eq (occ order r : List Int) (h : reorder occ order = some r) :
    r = order ++ occ.filter (fun x => !order.contains x) ∧ ∀ x ∈ order, x ∈ occ := by
  unfold reorder at h
  by_cases hh : order.all (fun x => occ.contains x) = true
  · simp only [hh, if_true, Option.some.injEq] at h
    refine ⟨h.symm, ?_⟩
    intro x hx
    have := (List.all_eq_true.mp hh) x hx
    simpa using this
  · rw [if_neg hh] at h
    cases h

/-- **rows (cover)**: the rows are exactly the occupied channels. -/
theorem rows_mem (occ order r : List Int) (h : reorder occ order = some r) (q : Int) :
    q ∈ r ↔ q ∈ occ := by
  obtain ⟨rfl, hsub⟩ := rows_eq occ order r h
  simp only [List.mem_append, List.mem_filter]
  constructor
  · rintro (h1 | ⟨h1, _⟩)
    · exact hsub q h1
    · exact h1
  · intro hq
    by_cases ho : q ∈ order
    · exact Or.inl ho
    · exact Or.inr ⟨hq, by simpa using ho⟩

/-- **rows (no duplicates)**: a duplicate-free order over duplicate-free occupied channels gives
    duplicate-free rows. -/
theorem rows_nodup (occ order r : List Int) (h : reorder occ order = some r)
    (hocc : occ.Nodup) (hord : order.Nodup) : r.Nodup := by
  obtain ⟨rfl, _⟩ := rows_eq occ order r h
  rw [List.nodup_append]
  refine ⟨hord, hocc.filter _, ?_⟩
  intro a ha b hb hab
  subst hab
  simp only [List.mem_filter] at hb
  have := hb.2
  simp at this
  exact this ha

/-- **rows (permutation)**: the rows are a permutation of the occupied channels. -/
theorem rows_perm (occ order r : List Int) (h : reorder occ order = some r)
    (hocc : occ.Nodup) (hord : order.Nodup) : r.Perm occ :=
  (List.perm_ext_iff_of_nodup (rows_nodup occ order r h hocc hord) hocc).mpr (rows_mem occ order r h)


/-- duplicates of the requested order are kept (the code concatenates, it does not de-duplicate);
    this is why `rows_nodup` asks for a duplicate-free order. -/
theorem rows_duplicate_witness : reorder [0, 1] [1, 1] = some [1, 1, 0] := by decide

/-- `rowOf` is `list.index`: the first position holding the qubit. -/
theorem rowOf_spec : ∀ (rows : List Int) (q : Int) (i : Nat), rowOf rows q = some i →
    rows[i]? = some q ∧ ∀ j, j < i → rows[j]? ≠ some q
  | [], q, i, h => by simp [rowOf] at h
  | r :: rs, q, i, h => by
    unfold rowOf at h
    by_cases e : r = q
    · simp only [e, if_true, Option.some.injEq] at h
      subst h
      simp [e]
    · simp only [e, if_false, Option.map_eq_some_iff] at h
      obtain ⟨k, hk, rfl⟩ := h
      have ih := rowOf_spec rs q k hk
      refine ⟨by simpa using ih.1, ?_⟩
      intro j hj
      cases j with
      | zero => simp [e]
      | succ j => simpa using ih.2 j (by omega)

/-- **rows (totality)**: every channel that has a row is found. -/
theorem rowOf_of_mem : ∀ (rows : List Int) (q : Int), q ∈ rows → ∃ i, rowOf rows q = some i
  | [], q, h => by simp at h
  | r :: rs, q, h => by
    unfold rowOf
    by_cases e : r = q
    · exact ⟨0, by simp [e]⟩
    · have : q ∈ rs := by
        rcases List.mem_cons.mp h with h | h
        · exact absurd h.symm e
        · exact h
      obtain ⟨i, hi⟩ := rowOf_of_mem rs q this
      exact ⟨i + 1, by simp [e, hi]⟩

/-- **rows**: every occupied channel of the drawn circuit has a row, whatever order was accepted. -/
theorem rows_total (w : World) (c : Nat) (order r : List Int)
    (h : reorder (occupied w c) order = some r) (q : Int) (hq : q ∈ occupied w c) :
    ∃ i, rowOf r q = some i ∧ r[i]? = some q :=
  let ⟨i, hi⟩ := rowOf_of_mem r q ((rows_mem _ _ _ h q).mpr hq)
  ⟨i, hi, (rowOf_spec r q i hi).1⟩

/-! ## labels -/

/-- **labels**: one label per row; the label of a row is the requested label of the channel on that row,
    the channel index itself when none was requested. -/
theorem labels (rows : List Int) (m : List (Int × String)) :
    (labelsOf rows m).length = rows.length ∧
    ∀ i : Nat, (labelsOf rows m)[i]? = rows[i]?.map (fun q =>
      match m.find? (fun p => p.1 == q) with
      | some p => p.2
      | none => toString q) := by
  refine ⟨by simp [labelsOf], fun i => ?_⟩
  simp only [labelsOf, List.getElem?_map]
  rfl

/-! ## figure width -/

/-- **figure width**: `max(1, latest end) + 1` (time unit 1/8: `max(8, ·) + 8`): at least 2, one unit to the
    right of the end of every listed operation, and exactly one unit to the right of the latest end (or of 1). -/
theorem figure_width (w : World) (rows : List Int) (lab : List (Int × String)) (tm : Times)
    (ops subs : List Nat) (d : Desc) (h : describe w rows lab tm ops subs = .ok d) :
    16 ≤ d.width ∧
    (∀ o ∈ ops, ∃ s dd, tm o = some (s, dd) ∧ s + dd + 8 ≤ d.width) ∧
    (d.width = 16 ∨ ∃ o ∈ ops, ∃ s dd, tm o = some (s, dd) ∧ d.width = s + dd + 8) := by
  unfold describe at h
  cases hts : ops.mapM tm with
  | none => simp [hts] at h
  | some ts =>
    have hw : d.width = latestEnd (ts.map (fun t => t.1 + t.2)) + 8 := by
      simp only [hts] at h
      split at h
      · cases h
      · split at h
        · split at h <;> cases h
        · cases h; rfl
    obtain ⟨h1, h2, h3⟩ := foldl_latest (ts.map (fun t => t.1 + t.2)) 8
    unfold latestEnd at hw
    refine ⟨by omega, ?_, ?_⟩
    · intro o ho
      obtain ⟨y, hy, hf⟩ := mapM_some_mem tm ops ts hts o ho
      refine ⟨y.1, y.2, hf, ?_⟩
      have := h2 (y.1 + y.2) (List.mem_map.mpr ⟨y, hy, rfl⟩)
      omega
    · rcases h3 with h3 | h3
      · exact Or.inl (by omega)
      · right
        obtain ⟨y, hy, hye⟩ := List.mem_map.mp h3
        -- y is the time of some listed operation
        have : ∃ o ∈ ops, tm o = some y := by
          clear hw h1 h2 h3 hye h
          induction ops generalizing ts with
          | nil => simp at hts; subst hts; simp at hy
          | cons a l ih =>
            rw [List.mapM_cons] at hts
            cases ha : tm a with
            | none => simp [ha] at hts
            | some b =>
              cases hl : l.mapM tm with
              | none => simp [ha, hl] at hts
              | some bs =>
                simp [ha, hl] at hts
                subst hts
                rcases List.mem_cons.mp hy with rfl | hy
                · exact ⟨a, List.mem_cons_self, ha⟩
                · obtain ⟨o, ho, hf⟩ := ih bs hl hy
                  exact ⟨o, List.mem_cons_of_mem _ ho, hf⟩
        obtain ⟨o, ho, hf⟩ := this
        exact ⟨o, ho, y.1, y.2, hf, by omega⟩


/-! ## components: row, x-position, width -/

/-- a successful description carries exactly the components of `Draw.components` (the model never fails
    to draw: since the repair e4339e6 operations that occupy no channel are left out). -/
theorem describe_comps (w : World) (rows : List Int) (lab : List (Int × String)) (tm : Times)
    (ops subs : List Nat) (d : Desc) (h : describe w rows lab tm ops subs = .ok d) :
    components w rows tm ops = some d.comps ∧ d.rows = rows ∧ d.labels = labelsOf rows lab := by
  unfold describe at h
  split at h
  · cases h
  · split at h
    · cases h
    · next cs hcs =>
      split at h
      · split at h <;> cases h
      · cases h; exact ⟨hcs, rfl, rfl⟩

/-- **pivot_row**: every component draws a listed operation that occupies a channel, with one pivot per pivot qubit (control and
    target; all qubits of a barrier; else the operation's qubit), each on the row of that qubit. -/
theorem pivot_row (w : World) (rows : List Int) (tm : Times) (ops : List Nat) (cs : List Comp)
    (h : components w rows tm ops = some cs) (c : Comp) (hc : c ∈ cs) :
    c.op ∈ ops ∧ (w.op c.op).leafChans ≠ [] ∧
    (pivotQubits (w.op c.op)).mapM (rowOf rows) = some (c.pivots.map (·.2)) := by
  obtain ⟨⟨hop, hch⟩, hcase⟩ := components_sound w rows tm ops cs h c hc
  refine ⟨hop, hch, ?_⟩
  rcases hcase with ⟨_, hs⟩ | ⟨_, s, d, r0, r1, g, n, j, _, h0, h1, hg, _, hceq⟩
  · unfold singleComp at hs
    simp only at hs
    split at hs
    · simp only [Option.map_eq_some_iff] at hs
      obtain ⟨rs, hrs, hceq⟩ := hs
      have hpiv : c.pivots = rs.map (fun r => ((⟨_, 1⟩ : Frac), r)) := (congrArg Comp.pivots hceq).symm
      rw [hrs, hpiv, List.map_map]
      congr 1
      clear hrs hceq hpiv
      induction rs with
      | nil => rfl
      | cons a l ih => simpa using ih
    · cases hs
  · have hp : pivotQubits (w.op c.op) = [(w.op c.op).qs.headD 0, ((w.op c.op).qs.drop 1).headD 0] := by
      unfold pivotQubits
      unfold twoGlyph at hg
      split at hg
      · next hcls => simp [glyphOf, hcls]
      · next hcls => simp [glyphOf, hcls]
      · cases hg
    have hpiv : c.pivots = [(twoX s d n j, r0), (twoX s d n j, r1)] := congrArg Comp.pivots hceq
    rw [hp, hpiv, List.mapM_cons, List.mapM_cons, List.mapM_nil, h0, h1]
    rfl

/-- **pivot_time / width**: a component sits at x = start time of its operation and is as wide as the
    operation lasts (rotation blocks are unit squares) — under the times `tm` in force while drawing.
    Exception made by the code: two-qubit gates that start together on overlapping rows are shifted to
    `twoX start dur n j`, element `j` of a group of `n`: at most a quarter duration off (`twoX_alone`,
    `twoX_bound`). -/
theorem pivot_time (w : World) (rows : List Int) (tm : Times) (ops : List Nat) (cs : List Comp)
    (h : components w rows tm ops = some cs) (c : Comp) (hc : c ∈ cs) :
    ∃ s d, tm c.op = some (s, d) ∧
      c.width = (if c.glyph = .rotation then 8 else d) ∧
      (isTwo (w.op c.op).cls = false → ∀ p ∈ c.pivots, p.1 = ⟨s, 1⟩) ∧
      (isTwo (w.op c.op).cls = true → ∃ n j, j < n ∧ ∀ p ∈ c.pivots, p.1 = twoX s d n j) := by
  obtain ⟨_, hcase⟩ := components_sound w rows tm ops cs h c hc
  rcases hcase with ⟨hn, hs⟩ | ⟨ht, s, d, r0, r1, g, n, j, htm, _, _, hg, hj, hceq⟩
  · unfold singleComp at hs
    simp only at hs
    split at hs
    · next g s d hgl htm =>
      simp only [Option.map_eq_some_iff] at hs
      obtain ⟨rs, _, hceq⟩ := hs
      have hpiv : c.pivots = rs.map (fun r => ((⟨s, 1⟩ : Frac), r)) := (congrArg Comp.pivots hceq).symm
      have hwid : c.width = (if g = .rotation then unitHeight else d) := (congrArg Comp.width hceq).symm
      have hgl' : c.glyph = g := (congrArg Comp.glyph hceq).symm
      refine ⟨s, d, htm, ?_, ?_, ?_⟩
      · rw [hwid, hgl']; rfl
      · intro _ p hp
        rw [hpiv] at hp
        obtain ⟨r, _, rfl⟩ := List.mem_map.mp hp
        rfl
      · intro ht; rw [hn] at ht; cases ht
    · cases hs
  · have hpiv : c.pivots = [(twoX s d n j, r0), (twoX s d n j, r1)] := congrArg Comp.pivots hceq
    have hwid : c.width = d := congrArg Comp.width hceq
    have hgl' : c.glyph = g := congrArg Comp.glyph hceq
    refine ⟨s, d, htm, ?_, ?_, ?_⟩
    · have : g ≠ .rotation := by
        unfold twoGlyph at hg
        split at hg
        · cases hg; decide
        · cases hg; decide
        · cases hg
      rw [hwid, hgl', if_neg this]
    · intro hf; rw [ht] at hf; cases hf
    · intro _
      refine ⟨n, j, hj, ?_⟩
      rw [hpiv]
      intro p hp
      rcases List.mem_cons.mp hp with rfl | hp
      · rfl
      · rcases List.mem_cons.mp hp with rfl | hp
        · rfl
        · cases hp

/-- a two-qubit gate alone in its space-shared group sits exactly at its start time. -/
theorem twoX_alone (s d : Int) (j : Nat) : twoX s d 1 j = ⟨s, 1⟩ := rfl

/-- the shift of a grouped two-qubit gate is `b · d/4` with `b = (2j − (n−1))/(n−1) ∈ [−1, 1]`: the gate
    stays within a quarter of its duration of its start time (for `0 ≤ d`: `4·|x − s| ≤ d`, written without
    division as `4·|num − s·den| ≤ d·den`). -/
theorem twoX_bound (s d : Int) (n j : Nat) (hn : 2 ≤ n) (hj : j < n) (hd : 0 ≤ d) :
    (twoX s d n j).den = 4 * (n - 1) ∧
    (twoX s d n j).num - s * (twoX s d n j).den = (2 * (j : Int) - ((n : Int) - 1)) * d ∧
    4 * ((twoX s d n j).num - s * (twoX s d n j).den) ≤ d * (twoX s d n j).den ∧
    -(d * (twoX s d n j).den) ≤ 4 * ((twoX s d n j).num - s * (twoX s d n j).den) := by
  have h1 : ¬ n ≤ 1 := by omega
  have hden : (twoX s d n j).den = 4 * (n - 1) := by unfold twoX; rw [if_neg h1]
  have hnum : (twoX s d n j).num - s * (twoX s d n j).den = (2 * (j : Int) - ((n : Int) - 1)) * d := by
    unfold twoX
    rw [if_neg h1]
    have : ((4 * (n - 1) : Nat) : Int) = 4 * ((n : Int) - 1) := by omega
    simp only [this]
    omega
  have hcast : (((twoX s d n j).den : Nat) : Int) = 4 * ((n : Int) - 1) := by rw [hden]; omega
  have hb1 : 2 * (j : Int) - ((n : Int) - 1) ≤ (n : Int) - 1 := by omega
  have hb2 : -((n : Int) - 1) ≤ 2 * (j : Int) - ((n : Int) - 1) := by omega
  have m1 := Int.mul_le_mul_of_nonneg_right hb1 hd
  have m2 := Int.mul_le_mul_of_nonneg_right hb2 hd
  refine ⟨hden, hnum, ?_, ?_⟩
  · rw [hnum, hcast]
    have : d * (4 * ((n : Int) - 1)) = 4 * (((n : Int) - 1) * d) := by
      rw [Int.mul_comm d, Int.mul_assoc]
    rw [this]
    omega
  · rw [hnum, hcast]
    have : d * (4 * ((n : Int) - 1)) = 4 * (((n : Int) - 1) * d) := by
      rw [Int.mul_comm d, Int.mul_assoc]
    rw [this]
    have : -((n : Int) - 1) * d = -(((n : Int) - 1) * d) := Int.neg_mul _ _
    omega

/-- regression for R17 (fixed in /repo by 01bd1d3; before, the offset was `b·d²/4`): two gates of
    duration 5 (40 eighths) starting together at 0, control/target rows (0,1) and (1,2).  Sorted by bottom
    edge they form ONE space-shared group (n = 2); element 0 is drawn at x = −40/4 eighths = −1.25 and
    element 1 at +1.25 — a quarter duration off their start time, no longer −6.25 / +6.25.
    (The sort itself is by well-founded recursion and does not reduce in the kernel; the whole pipeline on
    this input is replayed on driver and implementation from `corpus/C18/r17_offset_squared.json`.) -/
theorem pivot_time_grouped_example :
    let a1 : TwoInfo := ⟨1, 0, 40, 1, 2⟩
    let a0 : TwoInfo := ⟨0, 0, 40, 0, 1⟩
    ([a1, a0].foldl spaceStep []).map (·.1) = [[a1, a0]] ∧
    twoX 0 40 2 0 = ⟨-40, 4⟩ ∧ twoX 0 40 2 1 = ⟨40, 4⟩ := by
  decide

/-! ## plotting and the heap -/

/-- **plot (rejection)**: an order naming an unoccupied channel is rejected before anything is listed;
    the heap is exactly as before, in compact and in non-compact mode, under any ambient durations. -/
theorem plot_reject (w : World) (c : Nat) (a : Args) (x : Int) (hx : x ∈ a.order)
    (hn : x ∉ occupied w c) : plot w c a = (w, .reject) := by
  rw [plot_eq, (rows_reject_iff _ _).mpr ⟨x, hx, hn⟩]

/-- **plot (world)**: plotting is "enter override; list; times; leave override": what it leaves behind is
    exactly the heap that listing the circuit leaves behind — the global durations, both registries and
    every field of every object except `link` untouched. -/
theorem plot_world (w : World) (c : Nat) (a : Args) (rows : List Int)
    (h : reorder (occupied w c) a.order = some rows) :
    (plot w c a).1 = (w.operations c).1 ∧ LinkOnly w (plot w c a).1 := by
  rw [plot_eq, h]
  exact ⟨rfl, operations_linkOnly w c⟩

/-- **plot (durations)**: the description is computed from the rows, the listing and the times of the
    listed heap under the drawing's own durations in compact mode and under the ambient ones otherwise. -/
theorem plot_durations (w : World) (c : Nat) (a : Args) (rows : List Int)
    (h : reorder (occupied w c) a.order = some rows) :
    (plot w c a).2 = describe (drawWorld w c a) rows a.labels (timesOf (drawWorld w c a))
        (w.operations c).2 (subComps (drawWorld w c a) (drawWorld w c a).depthFuel c) ∧
    getG (drawWorld w c a) = a.compact.getD (getG w) := by
  rw [plot_eq, h]
  exact ⟨rfl, rfl⟩

/-- **plot_frame (partial)**.
    Full statement: for every heap reachable through the API and every circuit `c`, after one listing of `c`
    (any `list`/`acq` observer) plotting `c` leaves the heap unchanged, hence every observer answers as before.
    Proved here: this holds for every heap that is `settled` for `c` (each node below `c` has a relation or
    already carries its enclosing link) — for any ambient durations, any drawing durations, compact or not,
    any order and labels.  Missing: `settled ((w.operations c).1) c` for all API-reachable heaps (needs the
    builder invariant that no object hangs in two graphs); the driver evaluates `settled` after every plot
    of the correspondence run instead. -/
theorem plot_frame_partial (w : World) (c : Nat) (a : Args)
    (hs : settled w w.depthFuel c = true) : (plot w c a).1 = w := by
  rw [plot_eq]
  cases reorder (occupied w c) a.order with
  | none => rfl
  | some rows =>
    show (w.operations c).1 = w
    unfold World.operations
    rw [decomposed_of_settled _ w c hs]

/-- … and the listing it performs returns the same operations as before. -/
theorem settled_listing (w : World) (c : Nat) (hs : settled w w.depthFuel c = true) :
    w.operations c = (w, flat w w.depthFuel c) :=
  decomposed_of_settled _ w c hs


/-! ## non-vacuity: the hypotheses above are met by non-trivial values -/

/-- an accepted order (a prefix of a permutation): rows = order ++ rest. -/
example : reorder [0, 1, 2] [2, 0] = some [2, 0, 1] := by decide
/-- a rejected one. -/
example : reorder [0, 1] [0, 5] = none ∧ (5 : Int) ∈ [0, 5] ∧ (5 : Int) ∉ [0, 1] := by decide
example : rowOf [2, 0, 1] 0 = some 1 := by decide
example : (5 : Int) ∉ occupied ({} : World) 0 := by decide

/-- a rotation, a wait and a barrier on two rows in swapped order. -/
example :
    let w : World := { ops := #[{ cls := .rx180, qs := [0], dur := .glob .mw },
                              { cls := .wait, qs := [1], dur := .fixed 16 },
                              { cls := .barrier, qs := [0, 1], dur := .fixed 4 }] }
    let tm : Times := fun o => if o = 0 then some (0, 8) else if o = 1 then some (8, 16) else some (24, 4)
    components w [1, 0] tm [0, 1, 2] =
      some [⟨0, .rotation, [(⟨0, 1⟩, 1)], 8⟩, ⟨1, .indicator, [(⟨8, 1⟩, 0)], 16⟩,
            ⟨2, .barrier, [(⟨24, 1⟩, 1), (⟨24, 1⟩, 0)], 4⟩] ∧
    describe w [1, 0] [(0, "D1")] tm [0, 1, 2] [] =
      .ok ⟨[1, 0], ["1", "D1"], 36,
           [⟨0, .rotation, [(⟨0, 1⟩, 1)], 8⟩, ⟨1, .indicator, [(⟨8, 1⟩, 0)], 16⟩,
            ⟨2, .barrier, [(⟨24, 1⟩, 1), (⟨24, 1⟩, 0)], 4⟩], []⟩ := by
  decide

/-- a channel-less barrier (R18, fixed by e4339e6) is listed but not drawn. -/
example :
    let w : World := { ops := #[{ cls := .rx180, qs := [0], dur := .glob .mw }, { cls := .barrier, qs := [] }] }
    describe w [0] [] (fun _ => some (0, 8)) [0, 1] [] =
      .ok ⟨[0], ["0"], 16, [⟨0, .rotation, [(⟨0, 1⟩, 0)], 8⟩], []⟩ := by
  decide

/-- a settled heap with content: a circuit (link `L0`) holding one rotation that carries `L0` as well. -/
example :
    let w : World := { ops := #[{ cls := .comp, graph := [⟨1, none, [0]⟩] },
                              { cls := .rx180, qs := [3], dur := .glob .mw }] }
    settled w w.depthFuel 0 = true := by
  simp [settled, World.depthFuel, listing, sortedEntries, World.hasRel, World.op, World.lnk]

end Qco.C18
