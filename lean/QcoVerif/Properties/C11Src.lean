import QcoVerif.Properties.C11
import QcoVerif.Lemmas.BuilderSrc
import QcoVerif.Generated.Limits
import QcoVerif.Lemmas.FacadeSrc
/-
  C11 — tie to the SOURCE TEXT (DESIGN.md §2.3b).  Kept in a file of its own that nothing imports: a change of the translated
  source functions breaks THESE obligations only, not the build of the property files that import Properties/C11.lean.
-/
namespace Qco.C11
open Qco

/-! ### tie to the SOURCE TEXT of the builder (DESIGN.md §2.3b; proofs in Lemmas/BuilderSrc.lean)

`apply_flatten_to_self`.  The functions act on objects: the fragment records such effects (`Py.callEffects`) instead of executing them. -/

section BuilderSourceTie
open Qco.Py Qco.Gen.PySrc Qco.BuilderSrc

/-- **`apply_flatten_to_self`**: a fresh graph, `add_to_graph` of every listed operation in order, then the fresh graph replaces the old one — `World.flatten`. -/
theorem flatten_matches_source (ops : List Nat) :
    callEffects builderEnv Composite_flatten
        [.obj "CircuitCompositeOperation" 1 [("decomposed_operations()", .list (ops.map plainOp))]] =
      ops.map (fun n => Val.tuple [.str "call", .none, .str "CircuitGraphBranch.add_to_graph",
                 .tuple [.str "graph", .tuple [.str "CircuitGraphBranch"]], .tuple [.str "operation", plainOp n]]) ++
      [Val.tuple [.str "setattr", .obj "CircuitCompositeOperation" 1 [("decomposed_operations()", .list (ops.map plainOp))],
                  .str "_circuit_graph", .tuple [.str "CircuitGraphBranch"]]] :=
  BuilderSrc.flatten_matches_source ops

end BuilderSourceTie


/-- **pinned limit**: the code's layer-by-layer walk of a graph stops silently after `MAX_GRAPH_DEPTH` layers (a chain of more
    operations than that on one channel is listed truncated); the model's listing is unbounded, so the listing theorems are about
    graphs of fewer layers.  The bound they are stated for is the one the pinned code has: lowering it breaks this obligation
    (and the harness then builds a chain deeper than the new bound). -/
theorem graph_depth_bound_pinned : 5000 ≤ Qco.Gen.maxGraphDepth := by decide


/-! ### the facade `DeclarativeCircuit` as written (Lemmas/FacadeSrc.lean; DESIGN.md §2.3b) -/

section Facade
open Qco.Py Qco.Gen.PySrc Qco.BuilderSrc Qco.FacadeSrc

/-- **`flatten`**: the same, with `apply_flatten_to_self`. -/
theorem facade_flatten_matches_source :
    let st := stObj 2 [("apply_flatten_to_self()", stObj 2 [])]
    let fresh := Val.tuple [.str "DeclarativeCircuit", .tuple [.str "nr_qubits", .int 0]]
    callEffects builderEnv Decl_flatten [declObj 1 st addedObj regObj] =
      [Val.tuple [.str "setattr", fresh, .str "_structure", stObj 2 []],
       Val.tuple [.str "setattr", fresh, .str "_added_operations", addedObj],
       Val.tuple [.str "setattr", fresh, .str "_acquisition_registry", regObj]] :=
  FacadeSrc.flatten_matches_source 

end Facade

end Qco.C11
