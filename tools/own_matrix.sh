#!/bin/bash
# usage: tools/own_matrix.sh [parallelism] ["<seeded ids>"] — every seeded change against the quick check of ITS OWN property, each in a
# scratch worktree + scratch copy of /verif (tools/run_seeded_wt.sh; /repo is never touched).  Prints one MATRIX line per change.
cd "$(dirname "$0")/.."
P=${1:-4}; IDS=${2:-$(ls seeded)}
echo $IDS | tr ' ' '\n' | xargs -P $P -I{} sh -c 'tools/run_seeded_wt.sh {} 2>&1 | grep "^MATRIX"'
