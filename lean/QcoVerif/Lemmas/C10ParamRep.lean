import QcoVerif.Lemmas.C10ParamFast
/-
  C10: the timing evaluator never reads a repetition count.

  As constructed (before `apply_modifiers`) the heap of `construct_repetition_code_circuit(qec_cycles = k)` is, for
  every `k ≥ 4`, the heap for `k = 4` with ONE field changed: the repetition strategy of the middle block
  (`FixedRepetitionStrategy(k - 3)`; the recorder shows it in the block and in its two copies).  `RepEquiv w w'`:
  the two heaps agree in everything but repetition strategies.  Then all six evaluator functions agree
  (`ev_repEquiv`) and so does `NoDoubleBooking` (`noDoubleBooking_repEquiv`).
-/
namespace Qco.C10Param

open Qco Qco.C10

/-- an operation with its repetition strategy erased. -/
def noRep (o : Op) : Op := { o with rep := .fixed 1 }

/-- `w'` is `w` up to repetition strategies. -/
structure RepEquiv (w w' : World) : Prop where
  ops : ∀ i, noRep (w'.op i) = noRep (w.op i)
  lnk : ∀ l, w'.lnk l = w.lnk l
  dur : ∀ d, w'.leafDur d = w.leafDur d
  size : w'.ops.size = w.ops.size

namespace RepEquiv

variable {w w' : World} (h : RepEquiv w w')
include h

theorem isComp (i : Nat) : (w'.op i).isComp = (w.op i).isComp := by
  have := congrArg Op.cls (h.ops i)
  simp only [noRep] at this
  unfold Op.isComp; rw [this]

theorem graph (i : Nat) : (w'.op i).graph = (w.op i).graph := by
  have := congrArg Op.graph (h.ops i)
  simpa [noRep] using this

theorem opDur (i : Nat) : (w'.op i).dur = (w.op i).dur := by
  have := congrArg Op.dur (h.ops i)
  simpa [noRep] using this

theorem link (i : Nat) : (w'.op i).link = (w.op i).link := by
  have := congrArg Op.link (h.ops i)
  simpa [noRep] using this

theorem cls (i : Nat) : (w'.op i).cls = (w.op i).cls := by
  have := congrArg Op.cls (h.ops i)
  simpa [noRep] using this

theorem leafChans (i : Nat) : (w'.op i).leafChans = (w.op i).leafChans := by
  have h1 := congrArg Op.cls (h.ops i)
  have h2 := congrArg Op.qs (h.ops i)
  have h3 := congrArg Op.chan (h.ops i)
  simp only [noRep] at h1 h2 h3
  unfold Op.leafChans
  rw [h1, h2, h3]

end RepEquiv

/-- **the evaluator never reads a repetition strategy.** -/
theorem ev_repEquiv {w w' : World} (h : RepEquiv w w') : ∀ f : Nat,
    (∀ o, evLeadSpan w' f o = evLeadSpan w f o) ∧ (∀ o, evInterval w' f o = evInterval w f o) ∧
    (∀ o, evDur w' f o = evDur w f o) ∧ (∀ o, evStart w' f o = evStart w f o) ∧
    (∀ o, evEnd w' f o = evEnd w f o) ∧ (∀ l, evRef w' f l = evRef w f l) := by
  intro f
  induction f with
  | zero =>
    refine ⟨?_, ?_, ?_, ?_, ?_, ?_⟩ <;> intro o
    · rw [evLeadSpan.eq_1, evLeadSpan.eq_1]
    · rw [evInterval.eq_1, evInterval.eq_1]
    · rw [evDur.eq_1, evDur.eq_1]
    · rw [evStart.eq_1, evStart.eq_1]
    · rw [evEnd.eq_1, evEnd.eq_1]
    · rw [evRef.eq_1, evRef.eq_1]
  | succ f ih =>
    obtain ⟨ihLS, ihIv, ihD, ihS, ihE, ihR⟩ := ih
    refine ⟨?_, ?_, ?_, ?_, ?_, ?_⟩
    · intro o
      rw [evLeadSpan.eq_2, evLeadSpan.eq_2]
      simp only [h.isComp, h.graph, h.opDur, h.dur, ihS, ihIv]
    · intro o
      rw [evInterval.eq_2, evInterval.eq_2]
      simp only [ihS, ihLS]
    · intro o
      rw [evDur.eq_2, evDur.eq_2, ihLS]
    · intro o
      rw [evStart_succ, evStart_succ]
      simp only [h.link, h.lnk, ihD, ihR, ihS, ihE]
    · intro o
      rw [evEnd.eq_2, evEnd.eq_2]
      simp only [ihS, ihD]
    · intro l
      rw [evRef.eq_2, evRef.eq_2]
      simp only [h.lnk, ihE]

theorem contents_repEquiv {w w' : World} (h : RepEquiv w w') : ∀ (f c : Nat), contents w' f c = contents w f c := by
  intro f
  induction f with
  | zero => intro c; rfl
  | succ f ih =>
    intro c
    show ((w'.op c).graph.flatMap (fun e => if (w'.op e.node).isComp then contents w' f e.node else [e.node])) =
      ((w.op c).graph.flatMap (fun e => if (w.op e.node).isComp then contents w f e.node else [e.node]))
    simp only [h.graph, h.isComp, ih]

/-- **No double booking does not depend on repetition strategies.** -/
theorem noDoubleBooking_repEquiv {w w' : World} (h : RepEquiv w w') {c : Nat} (hw : NoDoubleBooking w c) :
    NoDoubleBooking w' c := by
  intro a ha b hb hab hsh sa ea sb eb hsa hea hsb heb hreq
  rw [h.size, contents_repEquiv h] at ha hb
  have hS : ∀ o v, Start w' o v → Start w o v := fun o v ⟨f, hf⟩ => ⟨f, by rw [← (ev_repEquiv h f).2.2.2.1 o]; exact hf⟩
  have hE : ∀ o v, End w' o v → End w o v := fun o v ⟨f, hf⟩ => ⟨f, by rw [← (ev_repEquiv h f).2.2.2.2.1 o]; exact hf⟩
  have hsh' : sharesChannel (w.op a) (w.op b) = true := by
    unfold sharesChannel at hsh ⊢
    rw [h.leafChans a, h.leafChans b] at hsh
    exact hsh
  rw [h.cls a, h.cls b] at hreq
  exact hw a ha b hb hab hsh' sa ea sb eb (hS a sa hsa) (hE a ea hea) (hS b sb hsb) (hE b eb heb) hreq

theorem RepEquiv.withDurations {w w' : World} (h : RepEquiv w w') (ro mw fl rs : Int)
    (hreg : w'.dreg = w.dreg) : RepEquiv (withDurations w ro mw fl rs) (withDurations w' ro mw fl rs) where
  ops := h.ops
  lnk := h.lnk
  dur := by
    intro d
    cases d with
    | fixed x => rfl
    | glob k => cases k <;> rfl
    | reg key => simp only [World.leafDur, C10.withDurations, hreg]
    | decoupling => rfl
  size := h.size

/-- the heap with the repetition strategy of every object replaced (object `i` gets `g i`). -/
def withReps (w : World) (g : Nat → Rep) : World :=
  { w with ops := w.ops.mapIdx (fun i o => { o with rep := g i }) }

theorem repEquiv_withReps (w : World) (g : Nat → Rep) : RepEquiv w (withReps w g) where
  ops := by
    intro i
    unfold World.op withReps
    simp only [Array.getD_eq_getD_getElem?, Array.getElem?_mapIdx]
    cases w.ops[i]? with
    | none => rfl
    | some o => rfl
  lnk := fun _ => rfl
  dur := fun _ => rfl
  size := by simp [withReps]

theorem withReps_dreg (w : World) (g : Nat → Rep) : (withReps w g).dreg = w.dreg := rfl

/-! ### a Boolean test on heaps given as tries -/

deriving instance DecidableEq for Op

/-- two heaps given as tries agree up to repetition strategies (same sizes, same links, same registry). -/
def repEquivB (x y : TCase) : Bool :=
  decide (x.n = y.n) && decide (x.m = y.m) && decide (x.dreg = y.dreg) &&
  (List.range x.n).all (fun i => decide (noRep (trieGet y.opsT default y.n i) = noRep (trieGet x.opsT default x.n i))) &&
  (List.range x.m).all (fun l => decide (trieGet y.lnkT default y.m l = trieGet x.lnkT default x.m l))

theorem repEquivB_sound {x y : TCase} (h : repEquivB x y = true) : RepEquiv x.w y.w ∧ y.w.dreg = x.w.dreg := by
  unfold repEquivB at h
  simp only [Bool.and_eq_true, decide_eq_true_eq, List.all_eq_true, List.mem_range] at h
  obtain ⟨⟨⟨⟨hn, hm⟩, hdreg⟩, hops⟩, hlnk⟩ := h
  refine ⟨⟨?_, ?_, ?_, ?_⟩, ?_⟩
  · intro i
    unfold TCase.w
    rw [mkWorld_op, mkWorld_op]
    by_cases hi : i < x.n
    · exact hops i hi
    · have hi' : ¬ i < y.n := by rw [← hn]; exact hi
      simp [trieGet, hi, hi']
  · intro l
    unfold TCase.w
    rw [mkWorld_lnk, mkWorld_lnk]
    by_cases hl : l < x.m
    · exact hlnk l hl
    · have hl' : ¬ l < y.m := by rw [← hm]; exact hl
      simp [trieGet, hl, hl']
  · intro d
    cases d with
    | fixed v => rfl
    | glob k => cases k <;> rfl
    | reg key => simp only [World.leafDur, TCase.w, mkWorld, hdreg]
    | decoupling => rfl
  · simp [TCase.w, mkWorld, BT.toList, hn]
  · simp [TCase.w, mkWorld, hdreg]

end Qco.C10Param
