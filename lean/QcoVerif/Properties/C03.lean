import QcoVerif.Model.Builder
namespace Qco.C03
end Qco.C03
