import QcoVerif.Properties.C10
/-
  C04 — a (sub-)circuit's duration spans everything it contains.

  About the specification evaluator of the REPAIRED duration (`evLeadSpan`, `leadSpan`; R2 of DESIGN.md):
  the duration of a block is latest end − earliest start over the intervals of its nodes, where the interval
  of a leaf is [start, end] and the interval of a nested block is again the span of its own nodes
  (`block_interval_is_node_span`), so by induction over the nesting the span of all contained leaves.
  An empty block has duration 0.  What is FOLLOWED_BY a block whose content does not start before its first
  operations starts after everything in the block has ended (`followed_by_block_after_all`).
  Not proved: that every head of a block starts with the block for every API-reachable heap (true after a
  listing for links other than JOINED_END, `C10.head_starts_with_block`; a sub-circuit can never carry
  JOINED_END through the public API because outside relations are dropped on nesting) — it is a hypothesis.
-/
namespace Qco.C04

open Qco Qco.C10

/-- `leadSpan`: span = latest end − earliest start, lead = earliest head start − earliest start. -/
theorem leadSpan_eq (hs : List Int) (ivs : List (Int × Int)) :
    (leadSpan hs ivs).2 = maxOf (ivs.map (·.2)) - minOf (ivs.map (·.1)) ∧
    (leadSpan hs ivs).1 = minOf hs - minOf (ivs.map (·.1)) := ⟨rfl, rfl⟩

/-- the earliest start and the latest end are attained and bound every interval. -/
theorem span_bounds {ivs : List (Int × Int)} (hne : ivs ≠ []) :
    (∃ iv ∈ ivs, iv.1 = minOf (ivs.map (·.1))) ∧ (∃ iv ∈ ivs, iv.2 = maxOf (ivs.map (·.2))) ∧
    ∀ iv ∈ ivs, minOf (ivs.map (·.1)) ≤ iv.1 ∧ iv.2 ≤ maxOf (ivs.map (·.2)) := by
  have h1 : ivs.map (·.1) ≠ [] := by simpa using hne
  have h2 : ivs.map (·.2) ≠ [] := by simpa using hne
  refine ⟨?_, ?_, ?_⟩
  · have := minOf_mem h1
    simp only [List.mem_map] at this
    obtain ⟨iv, hiv, he⟩ := this
    exact ⟨iv, hiv, he⟩
  · have := maxOf_mem h2
    simp only [List.mem_map] at this
    obtain ⟨iv, hiv, he⟩ := this
    exact ⟨iv, hiv, he⟩
  · intro iv hiv
    exact ⟨minOf_le (List.mem_map.mpr ⟨iv, hiv, rfl⟩), le_maxOf (List.mem_map.mpr ⟨iv, hiv, rfl⟩)⟩

/-- an empty (sub-)circuit has duration 0. -/
theorem empty_duration_zero {w : World} {c : Nat} (hc : (w.op c).isComp = true)
    (he : (w.op c).graph.isEmpty = true) {d : Int} (h : DurV w c d) : d = 0 := by
  obtain ⟨l, hls⟩ := h.decompose
  have := hls.empty hc he
  simp only [Prod.mk.injEq] at this
  exact this.2

/-- the interval of a leaf operation is [start, end]. -/
theorem leaf_interval {w : World} {o : Nat} (hl : (w.op o).isComp = false) {iv : Int × Int} (h : IntervalV w o iv) :
    ∃ s e, Start w o s ∧ End w o e ∧ iv = (s, e) := by
  obtain ⟨s, lead, span, hs, hls, heq⟩ := h.decompose
  have := hls.leaf hl
  simp only [Prod.mk.injEq] at this
  obtain ⟨h0, hd⟩ := this
  subst h0
  refine ⟨s, s + span, hs, End.of_start_dur hs (DurV.of_leadSpan hls), ?_⟩
  rw [heq]; simp

/-- **duration = span**: the duration of a non-empty (sub-)circuit is the latest end minus the earliest start
    over the intervals of ALL its nodes (not only leaves of the relation tree, not only depth-1 starts). -/
theorem duration_is_span {w : World} {c : Nat} (hc : (w.op c).isComp = true)
    (hne : (w.op c).graph.isEmpty = false) {d : Int} (h : DurV w c d) :
    ∃ ivs : List (Int × Int), ivs ≠ [] ∧
      (∀ n ∈ listing (w.op c).graph, ∃ iv ∈ ivs, IntervalV w n iv) ∧
      (∀ iv ∈ ivs, ∃ n ∈ listing (w.op c).graph, IntervalV w n iv) ∧
      d = maxOf (ivs.map (·.2)) - minOf (ivs.map (·.1)) := by
  obtain ⟨l, hls⟩ := h.decompose
  obtain ⟨hs, ivs, _, _, h3, h4, hne', hv⟩ := hls.comp hc hne
  refine ⟨ivs, hne', h3, h4, ?_⟩
  have := congrArg Prod.snd hv
  simpa [leadSpan] using this

/-- the interval a nested block contributes to its enclosing block is the span of its own nodes' intervals,
    provided its first operations start with the block (see the header). -/
theorem block_interval_is_node_span {w : World} {c : Nat} (hc : (w.op c).isComp = true)
    (hne : (w.op c).graph.isEmpty = false) (hheadsne : heads (w.op c).graph ≠ [])
    (hheads : ∀ h ∈ heads (w.op c).graph, ∀ sh sc, Start w h sh → Start w c sc → sh = sc)
    {iv : Int × Int} (hiv : IntervalV w c iv) :
    ∃ ivs : List (Int × Int), ivs ≠ [] ∧
      (∀ n ∈ listing (w.op c).graph, ∃ ivn ∈ ivs, IntervalV w n ivn) ∧
      (∀ ivn ∈ ivs, ∃ n ∈ listing (w.op c).graph, IntervalV w n ivn) ∧
      iv = (minOf (ivs.map (·.1)), maxOf (ivs.map (·.2))) := by
  obtain ⟨sc, lead, span, hsc, hls, heq⟩ := hiv.decompose
  obtain ⟨hs, ivs, h1, h2, h3, h4, hne', hv⟩ := hls.comp hc hne
  have hsne : hs ≠ [] := by
    cases hh : heads (w.op c).graph with
    | nil => exact absurd hh hheadsne
    | cons x xs =>
      obtain ⟨s, hs', _⟩ := h1 x (by rw [hh]; exact List.mem_cons_self)
      intro he; rw [he] at hs'; cases hs'
  have hmin : minOf hs = sc := by
    apply minOf_eq
    · obtain ⟨s, hs', hx⟩ : ∃ s ∈ hs, True := by
        cases hs with
        | nil => exact absurd rfl hsne
        | cons a as => exact ⟨a, List.mem_cons_self, trivial⟩
      obtain ⟨n, hn, hst⟩ := h2 s hs'
      have := hheads n hn s sc hst hsc
      rw [← this]; exact hs'
    · intro x hx
      obtain ⟨n, hn, hst⟩ := h2 x hx
      have := hheads n hn x sc hst hsc
      omega
  refine ⟨ivs, hne', h3, h4, ?_⟩
  have hl : lead = minOf hs - minOf (ivs.map (·.1)) := by
    have := congrArg Prod.fst hv; simpa [leadSpan] using this
  have hsp : span = maxOf (ivs.map (·.2)) - minOf (ivs.map (·.1)) := by
    have := congrArg Prod.snd hv; simpa [leadSpan] using this
  rw [heq, hl, hsp, hmin]
  ext <;> simp <;> omega

/-- whenever no contained node starts before the block's first operations (lead 0), everything scheduled
    FOLLOWED_BY the block starts only after all nodes of the block have ended. -/
theorem followed_by_block_after_all {w : World} {c x : Nat} (hc : (w.op c).isComp = true)
    (hne : (w.op c).graph.isEmpty = false) (hheadsne : heads (w.op c).graph ≠ [])
    (hheads : ∀ h ∈ heads (w.op c).graph, ∀ sh sc, Start w h sh → Start w c sc → sh = sc)
    (hx : FbStep w c x) {span : Int} (hls : LeadSpanV w c (0, span))
    {sx : Int} (hsx : Start w x sx) {n : Nat} (hn : n ∈ listing (w.op c).graph)
    {ivn : Int × Int} (hivn : IntervalV w n ivn) : ivn.2 ≤ sx :=
  Qco.C10.block_after_block hc hne hheadsne hheads hx hls hsx hn hivn

/-- non-vacuity of the span lemmas: three node intervals, one of them ending last without starting last, one
    starting before the others (the two shapes the pinned code got wrong, R2). -/
example : (leadSpan [0] [(0, 80), (0, 16), (-24, 16)]).2 = 104 ∧ (leadSpan [0] [(0, 80), (0, 16), (-24, 16)]).1 = 24 := by
  decide

end Qco.C04
