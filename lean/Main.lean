import QcoVerif.Driver.Heap
import QcoVerif.Driver.HeapStim
import QcoVerif.Driver.HeapOpenQL
import QcoVerif.Driver.HeapDraw
import QcoVerif.Driver.Kernel
import QcoVerif.Driver.Conn
import QcoVerif.Driver.Ident
import QcoVerif.Driver.Noise
import QcoVerif.Driver.RepCode
import QcoVerif.Driver.Py
/-
  Line-protocol driver.  `heap <cmd…>` drives a stateful build-program session (extensions add
  commands); every other module is stateless: `<module> <args…>` → one answer line.
  Unknown input answers `bad-op`.
-/
open Qco Qco.Driver

def stateless : List (String × (List String → String)) :=
  [("kernel", Kernel.handle), ("conn", Conn.handle), ("ident", Ident.handle), ("noise", Noise.handle),
   ("repcode", RepCode.handle), ("py", Qco.Driver.Py.handle)]

def heapExtensions : List (Sess → List String → Option (Sess × String)) :=
  [HeapStim.step, HeapOpenQL.step, HeapDraw.step]

def heapStepCore (s : Sess) (toks : List String) : Sess × String :=
  let r := step s toks
  if r.2 != "bad-op" then r else
  match heapExtensions.findSome? (fun f => f s toks) with
  | some r' => r'
  | none => r

def heapStep : Sess → List String → Sess × String := guarded heapStepCore

partial def loop (h : IO.FS.Stream) (out : IO.FS.Stream) (s : Sess) : IO Unit := do
  let line ← h.getLine
  if line.isEmpty then return ()
  let toks := (line.trimAscii.toString.splitOn " ").filter (· ≠ "")
  match toks with
  | "heap" :: rest =>
    let (s', ans) := heapStep s rest
    out.putStrLn ans
    loop h out s'
  | m :: rest =>
    match stateless.find? (·.1 == m) with
    | some (_, f) => out.putStrLn (f rest)
    | none => out.putStrLn "bad-op"
    loop h out s
  | [] =>
    out.putStrLn "bad-op"
    loop h out s

def main : IO Unit := do
  let out ← IO.getStdout
  loop (← IO.getStdin) out {}
  out.flush
