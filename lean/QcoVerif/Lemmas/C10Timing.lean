import QcoVerif.Model.Timing
/-
  Helper lemmas for C10 about the specification evaluator `evStart/evEnd/evDur/evLeadSpan/evInterval/evRef`
  (QcoVerif/Model/Timing.lean): results do not depend on the fuel once defined, durations are non-negative
  when the leaf durations are, bounds for `minOf`/`maxOf`.
-/
namespace Qco.C10

open Qco

/-! ### `List.mapM` in the `Option` monad -/

theorem mapM_cons_some {α β} (f : α → Option β) (x : α) (xs : List α) (zs : List β) :
    (x :: xs).mapM f = some zs ↔ ∃ y ys, f x = some y ∧ xs.mapM f = some ys ∧ zs = y :: ys := by
  rw [List.mapM_cons]
  cases hx : f x with
  | none => simp
  | some y =>
    cases hxs : xs.mapM f with
    | none => simp
    | some ys =>
      simp only [Option.bind_eq_bind, Option.bind_some, Option.pure_def, Option.some.injEq]
      constructor
      · intro h; exact ⟨y, ys, rfl, rfl, h.symm⟩
      · rintro ⟨y', ys', h1, h2, h3⟩; cases h1; cases h2; exact h3.symm

theorem mapM_nil_some {α β} (f : α → Option β) (zs : List β) :
    ([] : List α).mapM f = some zs ↔ zs = [] := by
  simp [eq_comm]

/-- pointwise transfer of a defined `mapM`. -/
theorem mapM_mono {α β} (f g : α → Option β) (l : List α)
    (h : ∀ x ∈ l, ∀ v, f x = some v → g x = some v) :
    ∀ ys, l.mapM f = some ys → l.mapM g = some ys := by
  induction l with
  | nil => intro ys hy; rw [mapM_nil_some] at *; exact hy
  | cons x xs ih =>
    intro zs hz
    rw [mapM_cons_some] at hz ⊢
    obtain ⟨y, ys, h1, h2, h3⟩ := hz
    exact ⟨y, ys, h x (List.mem_cons_self) y h1,
      ih (fun x hx => h x (List.mem_cons_of_mem _ hx)) ys h2, h3⟩

/-- every input of a defined `mapM` has its (defined) image in the output. -/
theorem mapM_mem_left {α β} (f : α → Option β) (l : List α) :
    ∀ ys, l.mapM f = some ys → ∀ x ∈ l, ∃ y ∈ ys, f x = some y := by
  induction l with
  | nil => intro ys _ x hx; cases hx
  | cons a as ih =>
    intro zs hz x hx
    rw [mapM_cons_some] at hz
    obtain ⟨y, ys, h1, h2, h3⟩ := hz
    subst h3
    cases hx with
    | head => exact ⟨y, List.mem_cons_self, h1⟩
    | tail _ hx' =>
      obtain ⟨y', hy', hf⟩ := ih ys h2 x hx'
      exact ⟨y', List.mem_cons_of_mem _ hy', hf⟩

/-- every output of a defined `mapM` is the image of an input. -/
theorem mapM_mem_right {α β} (f : α → Option β) (l : List α) :
    ∀ ys, l.mapM f = some ys → ∀ y ∈ ys, ∃ x ∈ l, f x = some y := by
  induction l with
  | nil => intro ys hy y hy'; rw [mapM_nil_some] at hy; subst hy; cases hy'
  | cons a as ih =>
    intro zs hz y hy
    rw [mapM_cons_some] at hz
    obtain ⟨y0, ys, h1, h2, h3⟩ := hz
    subst h3
    cases hy with
    | head => exact ⟨a, List.mem_cons_self, h1⟩
    | tail _ hy' =>
      obtain ⟨x, hx, hf⟩ := ih ys h2 y hy'
      exact ⟨x, List.mem_cons_of_mem _ hx, hf⟩

theorem mapM_length {α β} (f : α → Option β) (l : List α) :
    ∀ ys, l.mapM f = some ys → ys.length = l.length := by
  induction l with
  | nil => intro ys hy; rw [mapM_nil_some] at hy; subst hy; rfl
  | cons a as ih =>
    intro zs hz
    rw [mapM_cons_some] at hz
    obtain ⟨y0, ys, _, h2, h3⟩ := hz
    subst h3
    simp [ih ys h2]

/-! ### `minOf` / `maxOf` -/

theorem foldl_max_ge_init (l : List Int) (m : Int) :
    m ≤ l.foldl (fun m y => if y > m then y else m) m := by
  induction l generalizing m with
  | nil => exact Int.le_refl _
  | cons y ys ih =>
    simp only [List.foldl_cons]
    by_cases h : y > m
    · rw [if_pos h]; exact Int.le_trans (Int.le_of_lt h) (ih y)
    · rw [if_neg h]; exact ih m

theorem foldl_max_ge_mem (l : List Int) (m : Int) :
    ∀ x ∈ l, x ≤ l.foldl (fun m y => if y > m then y else m) m := by
  induction l generalizing m with
  | nil => intro x hx; cases hx
  | cons y ys ih =>
    intro x hx
    simp only [List.foldl_cons]
    cases hx with
    | head =>
      by_cases h : y > m
      · rw [if_pos h]; exact foldl_max_ge_init ys y
      · rw [if_neg h]; exact Int.le_trans (Int.not_lt.mp h) (foldl_max_ge_init ys m)
    | tail _ hx' => exact ih _ x hx'

theorem le_maxOf {l : List Int} {x : Int} (hx : x ∈ l) : x ≤ maxOf l := by
  cases l with
  | nil => cases hx
  | cons a as =>
    simp only [maxOf]
    cases hx with
    | head => exact foldl_max_ge_init as x
    | tail _ hx' => exact foldl_max_ge_mem as a x hx'

theorem foldl_min_le_init (l : List Int) (m : Int) :
    l.foldl (fun m y => if y < m then y else m) m ≤ m := by
  induction l generalizing m with
  | nil => exact Int.le_refl _
  | cons y ys ih =>
    simp only [List.foldl_cons]
    by_cases h : y < m
    · rw [if_pos h]; exact Int.le_trans (ih y) (Int.le_of_lt h)
    · rw [if_neg h]; exact ih m

theorem foldl_min_le_mem (l : List Int) (m : Int) :
    ∀ x ∈ l, l.foldl (fun m y => if y < m then y else m) m ≤ x := by
  induction l generalizing m with
  | nil => intro x hx; cases hx
  | cons y ys ih =>
    intro x hx
    simp only [List.foldl_cons]
    cases hx with
    | head =>
      by_cases h : y < m
      · rw [if_pos h]; exact foldl_min_le_init ys y
      · rw [if_neg h]; exact Int.le_trans (foldl_min_le_init ys m) (Int.not_lt.mp h)
    | tail _ hx' => exact ih _ x hx'

theorem minOf_le {l : List Int} {x : Int} (hx : x ∈ l) : minOf l ≤ x := by
  cases l with
  | nil => cases hx
  | cons a as =>
    simp only [minOf]
    cases hx with
    | head => exact foldl_min_le_init as x
    | tail _ hx' => exact foldl_min_le_mem as a x hx'

theorem foldl_max_mem (l : List Int) (m : Int) :
    l.foldl (fun m y => if y > m then y else m) m = m ∨
    l.foldl (fun m y => if y > m then y else m) m ∈ l := by
  induction l generalizing m with
  | nil => exact Or.inl rfl
  | cons y ys ih =>
    simp only [List.foldl_cons]
    by_cases h : y > m
    · rw [if_pos h]
      rcases ih y with h1 | h1
      · rw [h1]; exact Or.inr List.mem_cons_self
      · exact Or.inr (List.mem_cons_of_mem _ h1)
    · rw [if_neg h]
      rcases ih m with h1 | h1
      · exact Or.inl h1
      · exact Or.inr (List.mem_cons_of_mem _ h1)

/-- the maximum of a non-empty list is one of its elements. -/
theorem maxOf_mem {l : List Int} (h : l ≠ []) : maxOf l ∈ l := by
  cases l with
  | nil => exact absurd rfl h
  | cons a as =>
    simp only [maxOf]
    rcases foldl_max_mem as a with h1 | h1
    · rw [h1]; exact List.mem_cons_self
    · exact List.mem_cons_of_mem _ h1

theorem foldl_min_mem (l : List Int) (m : Int) :
    l.foldl (fun m y => if y < m then y else m) m = m ∨
    l.foldl (fun m y => if y < m then y else m) m ∈ l := by
  induction l generalizing m with
  | nil => exact Or.inl rfl
  | cons y ys ih =>
    simp only [List.foldl_cons]
    by_cases h : y < m
    · rw [if_pos h]
      rcases ih y with h1 | h1
      · rw [h1]; exact Or.inr List.mem_cons_self
      · exact Or.inr (List.mem_cons_of_mem _ h1)
    · rw [if_neg h]
      rcases ih m with h1 | h1
      · exact Or.inl h1
      · exact Or.inr (List.mem_cons_of_mem _ h1)

/-- the minimum of a non-empty list is one of its elements. -/
theorem minOf_mem {l : List Int} (h : l ≠ []) : minOf l ∈ l := by
  cases l with
  | nil => exact absurd rfl h
  | cons a as =>
    simp only [minOf]
    rcases foldl_min_mem as a with h1 | h1
    · rw [h1]; exact List.mem_cons_self
    · exact List.mem_cons_of_mem _ h1

/-- `minOf` is characterised by being a lower bound that is attained. -/
theorem minOf_eq {l : List Int} {m : Int} (hm : m ∈ l) (hle : ∀ x ∈ l, m ≤ x) : minOf l = m := by
  have h1 : minOf l ≤ m := minOf_le hm
  have h2 : m ≤ minOf l := hle _ (minOf_mem (List.ne_nil_of_mem hm))
  omega

theorem maxOf_eq {l : List Int} {m : Int} (hm : m ∈ l) (hle : ∀ x ∈ l, x ≤ m) : maxOf l = m := by
  have h1 : m ≤ maxOf l := le_maxOf hm
  have h2 : maxOf l ≤ m := hle _ (maxOf_mem (List.ne_nil_of_mem hm))
  omega

/-! ### listing / heads as sets -/

theorem mem_listing {g : List Entry} {n : Nat} : n ∈ listing g ↔ ∃ e ∈ g, e.node = n := by
  unfold listing sortedEntries
  rw [List.mem_map]
  constructor
  · rintro ⟨e, he, rfl⟩; exact ⟨e, (List.mergeSort_perm g entryLe).mem_iff.mp he, rfl⟩
  · rintro ⟨e, he, rfl⟩; exact ⟨e, (List.mergeSort_perm g entryLe).mem_iff.mpr he, rfl⟩

theorem mem_heads {g : List Entry} {n : Nat} :
    n ∈ heads g ↔ ∃ e ∈ g, e.parent = none ∧ e.node = n := by
  unfold heads sortedEntries
  rw [List.mem_map]
  constructor
  · rintro ⟨e, he, rfl⟩
    rw [List.mem_filter] at he
    refine ⟨e, (List.mergeSort_perm g entryLe).mem_iff.mp he.1, ?_, rfl⟩
    have := he.2
    cases hp : e.parent with
    | none => rfl
    | some p => simp [hp] at this
  · rintro ⟨e, he, hp, rfl⟩
    refine ⟨e, ?_, rfl⟩
    rw [List.mem_filter]
    exact ⟨(List.mergeSort_perm g entryLe).mem_iff.mpr he, by simp [hp]⟩

theorem heads_subset_listing {g : List Entry} {n : Nat} (h : n ∈ heads g) : n ∈ listing g := by
  rw [mem_heads] at h
  obtain ⟨e, he, _, hn⟩ := h
  exact mem_listing.mpr ⟨e, he, hn⟩

theorem listing_ne_nil {g : List Entry} (h : g.isEmpty = false) : listing g ≠ [] := by
  cases g with
  | nil => simp at h
  | cons e es =>
    intro hl
    have : e.node ∈ listing (e :: es) := mem_listing.mpr ⟨e, List.mem_cons_self, rfl⟩
    rw [hl] at this
    cases this

/-! ### the result of the evaluator does not depend on the fuel -/

/-- the start equation with explicit binds (the generated equation carries a `have`). -/
theorem evStart_succ (w : World) (f o : Nat) :
    evStart w (f+1) o =
      (evDur w f o).bind fun d =>
        (evRef w f (w.op o).link).bind fun r =>
          match r with
          | none => some (linkStart (w.lnk (w.op o).link).rel none d)
          | some r => (evStart w f r).bind fun s => (evEnd w f r).bind fun e =>
              some (linkStart (w.lnk (w.op o).link).rel (some (s, e)) d) := by
  rw [evStart.eq_2]; rfl

/-- all six evaluator functions are monotone in the fuel: one more unit never changes a defined result. -/
theorem ev_mono_step (w : World) : ∀ f : Nat,
    (∀ o v, evLeadSpan w f o = some v → evLeadSpan w (f+1) o = some v) ∧
    (∀ o v, evInterval w f o = some v → evInterval w (f+1) o = some v) ∧
    (∀ o v, evDur w f o = some v → evDur w (f+1) o = some v) ∧
    (∀ o v, evStart w f o = some v → evStart w (f+1) o = some v) ∧
    (∀ o v, evEnd w f o = some v → evEnd w (f+1) o = some v) ∧
    (∀ l v, evRef w f l = some v → evRef w (f+1) l = some v) := by
  intro f
  induction f with
  | zero =>
    refine ⟨?_, ?_, ?_, ?_, ?_, ?_⟩ <;> intro o v h
    · rw [evLeadSpan.eq_1] at h; cases h
    · rw [evInterval.eq_1] at h; cases h
    · rw [evDur.eq_1] at h; cases h
    · rw [evStart.eq_1] at h; cases h
    · rw [evEnd.eq_1] at h; cases h
    · rw [evRef.eq_1] at h; cases h
  | succ f ih =>
    obtain ⟨ihLS, ihIv, ihD, ihS, ihE, ihR⟩ := ih
    refine ⟨?_, ?_, ?_, ?_, ?_, ?_⟩
    · -- evLeadSpan
      intro o v h
      rw [evLeadSpan.eq_2] at h ⊢
      by_cases hc : (w.op o).isComp = true
      · rw [if_pos hc] at h ⊢
        by_cases he : (w.op o).graph.isEmpty = true
        · rw [if_pos he] at h ⊢; exact h
        · rw [if_neg he] at h ⊢
          cases h1 : (heads (w.op o).graph).mapM (fun n => evStart w f n) with
          | none => rw [h1] at h; cases h
          | some hs =>
            rw [h1] at h
            cases h2 : (listing (w.op o).graph).mapM (fun n => evInterval w f n) with
            | none => rw [h2] at h; cases h
            | some ivs =>
              rw [h2] at h
              rw [mapM_mono _ (fun n => evStart w (f+1) n) _ (fun x _ v hv => ihS x v hv) hs h1,
                  mapM_mono _ (fun n => evInterval w (f+1) n) _ (fun x _ v hv => ihIv x v hv) ivs h2]
              exact h
      · rw [if_neg hc] at h ⊢; exact h
    · -- evInterval
      intro o v h
      rw [evInterval.eq_2] at h ⊢
      cases h1 : evStart w f o with
      | none => rw [h1] at h; cases h
      | some s =>
        rw [h1] at h
        cases h2 : evLeadSpan w f o with
        | none => rw [h2] at h; cases h
        | some ls =>
          rw [h2] at h
          rw [ihS o s h1, ihLS o ls h2]; exact h
    · -- evDur
      intro o v h
      rw [evDur.eq_2] at h ⊢
      cases h1 : evLeadSpan w f o with
      | none => rw [h1] at h; cases h
      | some ls => rw [h1] at h; rw [ihLS o ls h1]; exact h
    · -- evStart
      intro o v h
      rw [evStart_succ] at h ⊢
      cases h1 : evDur w f o with
      | none => rw [h1] at h; cases h
      | some d =>
        rw [h1] at h
        rw [ihD o d h1]
        cases h2 : evRef w f (w.op o).link with
        | none => rw [h2] at h; cases h
        | some r =>
          rw [h2] at h
          rw [ihR _ r h2]
          cases r with
          | none => exact h
          | some r =>
            simp only [Option.bind_eq_bind, Option.bind_some] at h ⊢
            cases h3 : evStart w f r with
            | none => rw [h3] at h; cases h
            | some s =>
              rw [h3] at h
              cases h4 : evEnd w f r with
              | none => rw [h4] at h; cases h
              | some e =>
                rw [h4] at h
                rw [ihS r s h3, ihE r e h4]; exact h
    · -- evEnd
      intro o v h
      rw [evEnd.eq_2] at h ⊢
      cases h1 : evStart w f o with
      | none => rw [h1] at h; cases h
      | some s =>
        rw [h1] at h
        cases h2 : evDur w f o with
        | none => rw [h2] at h; cases h
        | some d =>
          rw [h2] at h
          rw [ihS o s h1, ihD o d h2]; exact h
    · -- evRef
      intro l v h
      rw [evRef.eq_2] at h ⊢
      by_cases hm : (!(w.lnk l).multi) = true
      · rw [if_pos hm] at h ⊢; exact h
      · rw [if_neg hm] at h ⊢
        cases hr : (w.lnk l).refs with
        | nil => rw [hr] at h; exact h
        | cons r0 rs =>
          rw [hr] at h
          simp only at h ⊢
          cases h1 : (r0 :: rs).mapM (fun r => (evEnd w f r).map (fun e => (r, e))) with
          | none => rw [h1] at h; cases h
          | some es =>
            rw [h1] at h
            cases h2 : evEnd w f r0 with
            | none => rw [h2] at h; cases h
            | some e0 =>
              rw [h2] at h
              have hes : (r0 :: rs).mapM (fun r => (evEnd w (f+1) r).map (fun e => (r, e))) = some es := by
                apply mapM_mono _ _ _ _ es h1
                intro x _ v hv
                cases hx : evEnd w f x with
                | none => rw [hx] at hv; cases hv
                | some e => rw [hx] at hv; rw [ihE x e hx]; exact hv
              rw [hes, ihE r0 e0 h2]; exact h

theorem ev_mono_le (w : World) {f f' : Nat} (hle : f ≤ f') :
    (∀ o v, evLeadSpan w f o = some v → evLeadSpan w f' o = some v) ∧
    (∀ o v, evInterval w f o = some v → evInterval w f' o = some v) ∧
    (∀ o v, evDur w f o = some v → evDur w f' o = some v) ∧
    (∀ o v, evStart w f o = some v → evStart w f' o = some v) ∧
    (∀ o v, evEnd w f o = some v → evEnd w f' o = some v) ∧
    (∀ l v, evRef w f l = some v → evRef w f' l = some v) := by
  induction hle with
  | refl => exact ⟨fun _ _ h => h, fun _ _ h => h, fun _ _ h => h, fun _ _ h => h, fun _ _ h => h, fun _ _ h => h⟩
  | step _ ih =>
    obtain ⟨a1, a2, a3, a4, a5, a6⟩ := ih
    obtain ⟨b1, b2, b3, b4, b5, b6⟩ := ev_mono_step w _
    exact ⟨fun o v h => b1 o v (a1 o v h), fun o v h => b2 o v (a2 o v h), fun o v h => b3 o v (a3 o v h),
           fun o v h => b4 o v (a4 o v h), fun o v h => b5 o v (a5 o v h), fun o v h => b6 o v (a6 o v h)⟩

/-! Fuel-free readings: "the evaluator answers `v` with some fuel". -/

def Start (w : World) (o : Nat) (v : Int) : Prop := ∃ f, evStart w f o = some v
def End (w : World) (o : Nat) (v : Int) : Prop := ∃ f, evEnd w f o = some v
def DurV (w : World) (o : Nat) (v : Int) : Prop := ∃ f, evDur w f o = some v
def LeadSpanV (w : World) (o : Nat) (v : Int × Int) : Prop := ∃ f, evLeadSpan w f o = some v
def IntervalV (w : World) (o : Nat) (v : Int × Int) : Prop := ∃ f, evInterval w f o = some v
def RefV (w : World) (l : Nat) (v : Option Nat) : Prop := ∃ f, evRef w f l = some v

theorem Start.unique {w o a b} (ha : Start w o a) (hb : Start w o b) : a = b := by
  obtain ⟨f, hf⟩ := ha; obtain ⟨g, hg⟩ := hb
  have h1 := (ev_mono_le w (Nat.le_max_left f g)).2.2.2.1 o a hf
  have h2 := (ev_mono_le w (Nat.le_max_right f g)).2.2.2.1 o b hg
  rw [h1] at h2; exact Option.some.inj h2

theorem End.unique {w o a b} (ha : End w o a) (hb : End w o b) : a = b := by
  obtain ⟨f, hf⟩ := ha; obtain ⟨g, hg⟩ := hb
  have h1 := (ev_mono_le w (Nat.le_max_left f g)).2.2.2.2.1 o a hf
  have h2 := (ev_mono_le w (Nat.le_max_right f g)).2.2.2.2.1 o b hg
  rw [h1] at h2; exact Option.some.inj h2

theorem DurV.unique {w o a b} (ha : DurV w o a) (hb : DurV w o b) : a = b := by
  obtain ⟨f, hf⟩ := ha; obtain ⟨g, hg⟩ := hb
  have h1 := (ev_mono_le w (Nat.le_max_left f g)).2.2.1 o a hf
  have h2 := (ev_mono_le w (Nat.le_max_right f g)).2.2.1 o b hg
  rw [h1] at h2; exact Option.some.inj h2

theorem LeadSpanV.unique {w o a b} (ha : LeadSpanV w o a) (hb : LeadSpanV w o b) : a = b := by
  obtain ⟨f, hf⟩ := ha; obtain ⟨g, hg⟩ := hb
  have h1 := (ev_mono_le w (Nat.le_max_left f g)).1 o a hf
  have h2 := (ev_mono_le w (Nat.le_max_right f g)).1 o b hg
  rw [h1] at h2; exact Option.some.inj h2

theorem IntervalV.unique {w o a b} (ha : IntervalV w o a) (hb : IntervalV w o b) : a = b := by
  obtain ⟨f, hf⟩ := ha; obtain ⟨g, hg⟩ := hb
  have h1 := (ev_mono_le w (Nat.le_max_left f g)).2.1 o a hf
  have h2 := (ev_mono_le w (Nat.le_max_right f g)).2.1 o b hg
  rw [h1] at h2; exact Option.some.inj h2

theorem RefV.unique {w l a b} (ha : RefV w l a) (hb : RefV w l b) : a = b := by
  obtain ⟨f, hf⟩ := ha; obtain ⟨g, hg⟩ := hb
  have h1 := (ev_mono_le w (Nat.le_max_left f g)).2.2.2.2.2 l a hf
  have h2 := (ev_mono_le w (Nat.le_max_right f g)).2.2.2.2.2 l b hg
  rw [h1] at h2; exact Option.some.inj h2

/-! ### one-step readings of the equations -/

/-- `end = start + dur`. -/
theorem End.decompose {w o e} (h : End w o e) : ∃ s d, Start w o s ∧ DurV w o d ∧ e = s + d := by
  obtain ⟨f, hf⟩ := h
  cases f with
  | zero => rw [evEnd.eq_1] at hf; cases hf
  | succ f =>
    rw [evEnd.eq_2] at hf
    cases h1 : evStart w f o with
    | none => rw [h1] at hf; cases hf
    | some s =>
      rw [h1] at hf
      cases h2 : evDur w f o with
      | none => rw [h2] at hf; cases hf
      | some d =>
        rw [h2] at hf
        simp only [Option.bind_eq_bind, Option.bind_some, Option.some.injEq] at hf
        exact ⟨s, d, ⟨f, h1⟩, ⟨f, h2⟩, hf.symm⟩

theorem End.of_start_dur {w o s d} (hs : Start w o s) (hd : DurV w o d) : End w o (s + d) := by
  obtain ⟨f, hf⟩ := hs; obtain ⟨g, hg⟩ := hd
  refine ⟨max f g + 1, ?_⟩
  rw [evEnd.eq_2, (ev_mono_le w (Nat.le_max_left f g)).2.2.2.1 o s hf,
      (ev_mono_le w (Nat.le_max_right f g)).2.2.1 o d hg]
  rfl

/-- the start equation: own duration, reference of the link, `linkStart`. -/
theorem Start.decompose {w o s} (h : Start w o s) :
    ∃ d r, DurV w o d ∧ RefV w (w.op o).link r ∧
      ((r = none ∧ s = linkStart (w.lnk (w.op o).link).rel none d) ∨
       (∃ r' sr er, r = some r' ∧ Start w r' sr ∧ End w r' er ∧
          s = linkStart (w.lnk (w.op o).link).rel (some (sr, er)) d)) := by
  obtain ⟨f, hf⟩ := h
  cases f with
  | zero => rw [evStart.eq_1] at hf; cases hf
  | succ f =>
    rw [evStart_succ] at hf
    cases h1 : evDur w f o with
    | none => rw [h1] at hf; cases hf
    | some d =>
      rw [h1] at hf
      cases h2 : evRef w f (w.op o).link with
      | none => rw [h2] at hf; cases hf
      | some r =>
        rw [h2] at hf
        refine ⟨d, r, ⟨f, h1⟩, ⟨f, h2⟩, ?_⟩
        cases r with
        | none =>
          simp only [Option.bind_eq_bind, Option.bind_some, Option.some.injEq] at hf
          exact Or.inl ⟨rfl, hf.symm⟩
        | some r' =>
          simp only [Option.bind_eq_bind, Option.bind_some] at hf
          cases h3 : evStart w f r' with
          | none => rw [h3] at hf; cases hf
          | some sr =>
            rw [h3] at hf
            cases h4 : evEnd w f r' with
            | none => rw [h4] at hf; cases hf
            | some er =>
              rw [h4] at hf
              simp only [Option.bind_some, Option.some.injEq] at hf
              exact Or.inr ⟨r', sr, er, rfl, ⟨f, h3⟩, ⟨f, h4⟩, hf.symm⟩

/-- reference of a single (non-multi) link. -/
theorem RefV.single {w l r} (h : RefV w l r) (hs : (w.lnk l).multi = false) : r = (w.lnk l).refs.head? := by
  obtain ⟨f, hf⟩ := h
  cases f with
  | zero => rw [evRef.eq_1] at hf; cases hf
  | succ f =>
    rw [evRef.eq_2, hs] at hf
    simp only [Bool.not_false, if_true, Option.some.injEq] at hf
    exact hf.symm

theorem DurV.decompose {w o d} (h : DurV w o d) : ∃ l, LeadSpanV w o (l, d) := by
  obtain ⟨f, hf⟩ := h
  cases f with
  | zero => rw [evDur.eq_1] at hf; cases hf
  | succ f =>
    rw [evDur.eq_2] at hf
    cases h1 : evLeadSpan w f o with
    | none => rw [h1] at hf; cases hf
    | some ls =>
      rw [h1] at hf
      simp only [Option.map_some, Option.some.injEq] at hf
      exact ⟨ls.1, f, by rw [h1, ← hf]⟩

theorem DurV.of_leadSpan {w o l d} (h : LeadSpanV w o (l, d)) : DurV w o d := by
  obtain ⟨f, hf⟩ := h
  exact ⟨f + 1, by rw [evDur.eq_2, hf]; rfl⟩

theorem IntervalV.decompose {w o iv} (h : IntervalV w o iv) :
    ∃ s l d, Start w o s ∧ LeadSpanV w o (l, d) ∧ iv = (s - l, s - l + d) := by
  obtain ⟨f, hf⟩ := h
  cases f with
  | zero => rw [evInterval.eq_1] at hf; cases hf
  | succ f =>
    rw [evInterval.eq_2] at hf
    cases h1 : evStart w f o with
    | none => rw [h1] at hf; cases hf
    | some s =>
      rw [h1] at hf
      cases h2 : evLeadSpan w f o with
      | none => rw [h2] at hf; cases hf
      | some ls =>
        rw [h2] at hf
        obtain ⟨l, d⟩ := ls
        simp only [Option.bind_eq_bind, Option.bind_some, Option.some.injEq] at hf
        exact ⟨s, l, d, ⟨f, h1⟩, ⟨f, h2⟩, hf.symm⟩

/-- (lead, span) of a leaf. -/
theorem LeadSpanV.leaf {w o v} (h : LeadSpanV w o v) (hl : (w.op o).isComp = false) :
    v = (0, w.leafDur (w.op o).dur) := by
  obtain ⟨f, hf⟩ := h
  cases f with
  | zero => rw [evLeadSpan.eq_1] at hf; cases hf
  | succ f =>
    rw [evLeadSpan.eq_2, hl] at hf
    simp only [Bool.false_eq_true, if_false, Option.some.injEq] at hf
    exact hf.symm

/-- (lead, span) of a non-empty composite: `leadSpan` of the head starts and of all node intervals. -/
theorem LeadSpanV.comp {w o v} (h : LeadSpanV w o v) (hc : (w.op o).isComp = true)
    (hne : (w.op o).graph.isEmpty = false) :
    ∃ hs ivs, (∀ n ∈ heads (w.op o).graph, ∃ s ∈ hs, Start w n s) ∧
      (∀ s ∈ hs, ∃ n ∈ heads (w.op o).graph, Start w n s) ∧
      (∀ n ∈ listing (w.op o).graph, ∃ iv ∈ ivs, IntervalV w n iv) ∧
      (∀ iv ∈ ivs, ∃ n ∈ listing (w.op o).graph, IntervalV w n iv) ∧
      ivs ≠ [] ∧ v = leadSpan hs ivs := by
  obtain ⟨f, hf⟩ := h
  cases f with
  | zero => rw [evLeadSpan.eq_1] at hf; cases hf
  | succ f =>
    rw [evLeadSpan.eq_2, hc, hne] at hf
    simp only [if_true, Bool.false_eq_true, if_false] at hf
    cases h1 : (heads (w.op o).graph).mapM (fun n => evStart w f n) with
    | none => rw [h1] at hf; cases hf
    | some hs =>
      rw [h1] at hf
      cases h2 : (listing (w.op o).graph).mapM (fun n => evInterval w f n) with
      | none => rw [h2] at hf; cases hf
      | some ivs =>
        rw [h2] at hf
        simp only [Option.bind_eq_bind, Option.bind_some, Option.some.injEq] at hf
        refine ⟨hs, ivs, ?_, ?_, ?_, ?_, ?_, hf.symm⟩
        · intro n hn
          obtain ⟨s, hs', hf'⟩ := mapM_mem_left _ _ hs h1 n hn
          exact ⟨s, hs', f, hf'⟩
        · intro s hs'
          obtain ⟨n, hn, hf'⟩ := mapM_mem_right _ _ hs h1 s hs'
          exact ⟨n, hn, f, hf'⟩
        · intro n hn
          obtain ⟨iv, hiv, hf'⟩ := mapM_mem_left _ _ ivs h2 n hn
          exact ⟨iv, hiv, f, hf'⟩
        · intro iv hiv
          obtain ⟨n, hn, hf'⟩ := mapM_mem_right _ _ ivs h2 iv hiv
          exact ⟨n, hn, f, hf'⟩
        · intro he
          have hl := mapM_length _ _ ivs h2
          rw [he] at hl
          have := listing_ne_nil hne
          cases hlst : listing (w.op o).graph with
          | nil => exact this hlst
          | cons a as => rw [hlst] at hl; simp at hl

theorem LeadSpanV.empty {w o v} (h : LeadSpanV w o v) (hc : (w.op o).isComp = true)
    (he : (w.op o).graph.isEmpty = true) : v = (0, 0) := by
  obtain ⟨f, hf⟩ := h
  cases f with
  | zero => rw [evLeadSpan.eq_1] at hf; cases hf
  | succ f =>
    rw [evLeadSpan.eq_2, hc, he] at hf
    simp only [if_true, Option.some.injEq] at hf
    exact hf.symm

/-! ### durations are non-negative when the leaf durations are -/

/-- every leaf operation's strategy currently yields a non-negative duration. -/
def LeafDurNonneg (w : World) : Prop := ∀ o, (w.op o).isComp = false → 0 ≤ w.leafDur (w.op o).dur

theorem span_nonneg_fuel (w : World) (hd : LeafDurNonneg w) :
    ∀ f o l d, evLeadSpan w f o = some (l, d) → 0 ≤ d := by
  intro f
  induction f using Nat.strongRecOn with
  | ind f ih =>
    intro o l d h
    by_cases hc : (w.op o).isComp = true
    · by_cases he : (w.op o).graph.isEmpty = true
      · have := LeadSpanV.empty ⟨f, h⟩ hc he
        simp only [Prod.mk.injEq] at this; omega
      · have he' : (w.op o).graph.isEmpty = false := by simpa using he
        cases f with
        | zero => rw [evLeadSpan.eq_1] at h; cases h
        | succ f =>
          rw [evLeadSpan.eq_2, hc, he'] at h
          simp only [if_true, Bool.false_eq_true, if_false] at h
          cases h1 : (heads (w.op o).graph).mapM (fun n => evStart w f n) with
          | none => rw [h1] at h; cases h
          | some hs =>
            rw [h1] at h
            cases h2 : (listing (w.op o).graph).mapM (fun n => evInterval w f n) with
            | none => rw [h2] at h; cases h
            | some ivs =>
              rw [h2] at h
              simp only [Option.bind_eq_bind, Option.bind_some, Option.some.injEq, leadSpan,
                Prod.mk.injEq] at h
              -- pick the first interval: its end is at least its start
              have hne : listing (w.op o).graph ≠ [] := listing_ne_nil he'
              cases hlst : listing (w.op o).graph with
              | nil => exact absurd hlst hne
              | cons n ns =>
                have hn : n ∈ listing (w.op o).graph := by rw [hlst]; exact List.mem_cons_self
                obtain ⟨iv, hiv, hf'⟩ := mapM_mem_left _ _ ivs h2 n hn
                -- iv = (s - lead, s - lead + span) with span ≥ 0 by induction
                have hle : iv.1 ≤ iv.2 := by
                  cases f with
                  | zero => rw [evInterval.eq_1] at hf'; cases hf'
                  | succ f' =>
                    rw [evInterval.eq_2] at hf'
                    cases h3 : evStart w f' n with
                    | none => rw [h3] at hf'; cases hf'
                    | some s =>
                      rw [h3] at hf'
                      cases h4 : evLeadSpan w f' n with
                      | none => rw [h4] at hf'; cases hf'
                      | some ls =>
                        rw [h4] at hf'
                        obtain ⟨l', d'⟩ := ls
                        simp only [Option.bind_eq_bind, Option.bind_some, Option.some.injEq] at hf'
                        have := ih f' (by omega) n l' d' h4
                        rw [← hf']; simp only; omega
                have h5 : iv.2 ≤ maxOf (ivs.map (·.2)) := le_maxOf (List.mem_map.mpr ⟨iv, hiv, rfl⟩)
                have h6 : minOf (ivs.map (·.1)) ≤ iv.1 := minOf_le (List.mem_map.mpr ⟨iv, hiv, rfl⟩)
                omega
    · have hc' : (w.op o).isComp = false := by simpa using hc
      have := LeadSpanV.leaf ⟨f, h⟩ hc'
      simp only [Prod.mk.injEq] at this
      rw [this.2]; exact hd o hc'

/-- **durations are non-negative**: if every leaf duration is, so is every (sub-)circuit duration. -/
theorem dur_nonneg {w : World} (hd : LeafDurNonneg w) {o : Nat} {d : Int} (h : DurV w o d) : 0 ≤ d := by
  obtain ⟨l, f, hf⟩ := h.decompose
  exact span_nonneg_fuel w hd f o l d hf

end Qco.C10
