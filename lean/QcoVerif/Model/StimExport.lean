import QcoVerif.Model.Builder
/-
  Stim export (`addon_stim`): instruction type, the per-class translation, the tree walk.

  Mirrors
  * `factory_manager.py`            — class → gate-name table, looked up by the EXACT type of the operation;
  * `factory_basic_operations.py`   — `get_qubit_index` = channel-identifier ids, de-duplicated in order;
  * `circuit_operations.py`         — `DetectorOperation / LogicalObservableOperation /
                                       CoordinateShiftOperation.to_stim_instruction`;
  * `intrf_stim_factory.py`         — `StimCircuitFactoryManager.construct`: walks the graph nodes in listing
                                       order (the non-mutating node iterator, NOT `decomposed_operations`), a
                                       composite contributes `inner * nr_of_repetitions`, a `DeclarativeCircuit`
                                       is multiplied by its own count.

  The model produces the FLATTENED program: repeat blocks multiplied out, one instruction per operation (Stim
  fuses adjacent equal gates into one instruction with several targets; the harness splits them again).
  Core Lean only.
-/
namespace Qco

/-- A Stim gate target: a qubit index or a measurement-record lookback `rec[k]`. -/
inductive Tgt
  | q (i : Int)
  | mrec (k : Int)
  deriving DecidableEq, Repr, Inhabited

/-- A Stim instruction (gate arguments are integral for everything this exporter emits). -/
structure Instr where
  name : String
  targets : List Tgt := []
  args : List Int := []
  deriving DecidableEq, Repr, Inhabited

/-- The factory table of `StimFactoryManager` (15 entries; every other class is skipped).
    Written by hand; the harness compares it entry by entry with the live `factory_lookup`. -/
def Cls.stimName : Cls → Option String
  | .reset => some "R"
  | .barrier => some "TICK"
  | .hadamard => some "H"
  | .identity => some "I"
  | .cphase => some "CZ"
  | .measure => some "M"
  | .rx180 => some "X"
  | .rx90 => some "SQRT_X"
  | .rxm90 => some "SQRT_X_DAG"
  | .ry180 => some "Y"
  | .ry90 => some "SQRT_Y"
  | .rym90 => some "SQRT_Y_DAG"
  | .detector => some "DETECTOR"
  | .observable => some "OBSERVABLE_INCLUDE"
  | .cshift => some "SHIFT_COORDS"
  | _ => none

/-- `get_qubit_index(operation)`. -/
def Op.exportQubits (o : Op) : List Int := uniqueInOrder (o.leafChans.map (·.q))

/-- `k`-th entry of the integer fields (`none` = Python `None` or absent). -/
def Op.fld (o : Op) (k : Nat) : Option Int := (o.ints[k]?).join

/-- Record lookbacks of `DetectorOperation.to_stim_instruction`, by branch.
    Outer `none` = the code raises (`None + 1`); `some []` = the fall-through `DETECTOR` without targets. -/
def detectorRecs (last main sec refOff secOff : Option Int) : Option (List Int) :=
  match main with
  | none => some []
  | some m =>
    match last with
    | none => none
    | some l =>
      let mt := m - (l + 1)
      match sec, refOff, secOff with
      | none, none, _ => some [mt]
      | none, some r, _ => some [mt, mt - r]
      | some s, none, _ => some [mt, s - (l + 1)]
      | some s, some r, none => some [mt, s - (l + 1), -r]
      | some s, some r, some o => some [mt, s - (l + 1), -r, -r - o]

/-- Record lookbacks of `LogicalObservableOperation.to_stim_instruction`
    (`none` = no target and no argument, which Stim rejects). -/
def observableRecs (last main : Option Int) : Option (List Int) :=
  match last, main with
  | some l, some m => some [m - (l + 1)]
  | _, _ => none

def Op.detRecs (o : Op) : Option (List Int) :=
  detectorRecs (o.fld 0) (o.fld 1) (o.fld 2) (o.fld 3) (o.fld 4)

def Op.obsRecs (o : Op) : Option (List Int) := observableRecs (o.fld 0) (o.fld 1)

/-- targets of the emitted instruction, per class. -/
def Op.stimTargets (o : Op) : List Tgt :=
  match o.cls with
  | .barrier | .cshift => []
  | .detector => (o.detRecs.getD []).map .mrec
  | .observable => (o.obsRecs.getD []).map .mrec
  | _ => o.exportQubits.map .q

/-- gate arguments of the emitted instruction, per class.
    Detector: `[qubit_index, 0]` (none in the fall-through branch); observable: `[0]`;
    coordinate shift: `[space_shift, time_shift]` (fields are stored as `[time_shift, space_shift]`). -/
def Op.stimArgs (o : Op) : List Int :=
  match o.cls with
  | .detector => if (o.fld 1).isSome then [o.qs.headD 0, 0] else []
  | .observable => if o.obsRecs.isSome then [0] else []
  | .cshift => [(o.fld 1).getD 0, (o.fld 0).getD 0]
  | _ => []

/-- The instruction an operation is exported as; `none` = the class is not in the table (skipped). -/
def translate (o : Op) : Option Instr :=
  o.cls.stimName.map (fun nm => { name := nm, targets := o.stimTargets, args := o.stimArgs })

/-- a record lookback Stim accepts (`stim.target_rec`). -/
def recOk (k : Int) : Bool := decide (-16777215 ≤ k) && decide (k ≤ -1)

/-- Does the exporter produce an instruction for this operation without raising?
    (Outside this guard the code raises `TypeError`/`IndexError`/`ValueError` and `translate` is only a
    totalisation.)  Unsupported classes are never looked at, hence accepted. -/
def Op.stimOk (o : Op) : Bool :=
  match o.cls with
  | .barrier => true
  | .cshift => (o.fld 0).isSome && (o.fld 1).isSome
  | .detector =>
    match o.detRecs with
    | none => false
    | some rs => rs.all recOk
  | .observable =>
    match o.obsRecs with
    | none => false
    | some rs => rs.all recOk
  | .cphase => o.exportQubits.length == 2 && o.exportQubits.all (fun q => decide (0 ≤ q))
  | c =>
    match c.stimName with
    | none => true
    | some _ => o.exportQubits.all (fun q => decide (0 ≤ q))

/-- `l * n` of Stim circuits, flattened. -/
def repeatList {α} (n : Nat) (l : List α) : List α := (List.replicate n l).flatten

/-- `StimCircuitFactoryManager.construct` on a composite (flattened). Fuel bounds the nesting. -/
def World.stimBody (w : World) : Nat → Nat → List Instr
  | 0, _ => []
  | f+1, c =>
    (listing (w.op c).graph).flatMap (fun n =>
      if (w.op n).isComp then repeatList (w.repCount (w.op n).rep) (w.stimBody f n)
      else (translate (w.op n)).toList)

/-- `to_stim(circuit)` for a declarative circuit whose structure is `c`: the body times the circuit's own
    count (repair of R13). -/
def World.stimExport (w : World) (c : Nat) : List Instr :=
  repeatList (w.repCount (w.op c).rep) (w.stimBody w.depthFuel c)

/-- every leaf the walk visits is accepted (`stimOk`). -/
def World.stimAllOk (w : World) : Nat → Nat → Bool
  | 0, _ => true
  | f+1, c =>
    (listing (w.op c).graph).all (fun n =>
      if (w.op n).isComp then w.stimAllOk f n else (w.op n).stimOk)

/-- the nesting below `c` is at most `f` levels deep (so that the fuel of the walk is not exhausted). -/
def World.nestWithin (w : World) : Nat → Nat → Bool
  | 0, _ => false
  | f+1, c => (listing (w.op c).graph).all (fun n => !(w.op n).isComp || w.nestWithin f n)

/-- number of measurement results the program records. -/
def measCount (l : List Instr) : Nat := ((l.filter (fun i => i.name == "M")).map (·.targets.length)).sum

/-- what the driver answers: `none` = the implementation raises. -/
def World.stimExport? (w : World) (c : Nat) : Option (List Instr) :=
  if w.nestWithin w.depthFuel c && w.stimAllOk w.depthFuel c then some (w.stimExport c) else none

/-! ### specification side: the count-expanded listing -/

/-- leaf operations below `c` in listing order, sub-circuits expanded in place, WITHOUT multiplying counts
    and without the link mutation of `decomposed_operations`. -/
def World.leafListing (w : World) : Nat → Nat → List Nat
  | 0, _ => []
  | f+1, c =>
    (listing (w.op c).graph).flatMap (fun n =>
      if (w.op n).isComp then w.leafListing f n else [n])

/-- leaf operations below `c`, each sub-circuit repeated its count in place. -/
def World.expanded (w : World) : Nat → Nat → List Nat
  | 0, _ => []
  | f+1, c =>
    (listing (w.op c).graph).flatMap (fun n =>
      if (w.op n).isComp then repeatList (w.repCount (w.op n).rep) (w.expanded f n) else [n])

/-- the same including the count of `c` itself. -/
def World.expandedTop (w : World) (c : Nat) : List Nat :=
  repeatList (w.repCount (w.op c).rep) (w.expanded w.depthFuel c)

/-- every sub-circuit below `c` has count 1. -/
def World.allOne (w : World) : Nat → Nat → Bool
  | 0, _ => true
  | f+1, c =>
    (listing (w.op c).graph).all (fun n =>
      !(w.op n).isComp || (w.repCount (w.op n).rep == 1 && w.allOne f n))

/-! ### canonical text -/

def Tgt.show : Tgt → String
  | .q i => toString i
  | .mrec k => "r" ++ toString k

def Instr.show (i : Instr) : String :=
  i.name ++ ":" ++ ",".intercalate (i.targets.map Tgt.show) ++ ":" ++ ",".intercalate (i.args.map toString)

def showProgram (l : List Instr) : String :=
  (if l.isEmpty then "-" else ";".intercalate (l.map Instr.show)) ++ s!" # {measCount l}"

end Qco
