import QcoVerif.Lemmas.RepTable
import QcoVerif.Lemmas.RepChainInit
/-
  C09 — repetition-code circuits run the protocol: deterministic detectors, exact record.

  About `Qco.RepCode.program` (the model of `to_stim(construct_repetition_code_circuit(...))` with REPEAT
  blocks unrolled — the very function the driver prints and harness/c09.py compares with the real export) and
  `Qco.StimSem.run` (product-state semantics of the exported gate set, validated against stim's tableau
  simulator by the harness).

  FULL STATEMENT (the property as written): for EVERY code distance, all computational initial states of
  data and ancilla qubits, all numbers of QEC cycles ≥ 0, chain descriptions and every contiguous sub-chain
  of the Surface-17 repetition layouts, with and without refocusing: the run is defined, the record is
  heralding zeros ++ per cycle c and ancilla j  a_j ⊕ (c mod 2)(x_a ⊕ x_b) ++ final data x_i ⊕ [refocus ∧
  (cycles−1) odd]; every requested initial state is prepared; all (d−1)(cycles+1) detectors and the
  observable are deterministic.

  WHAT IS PROVED (`…_partial`): exactly that, for ALL cycle counts (induction over the repeated block,
  period 2) and ALL initial states (symbolic variables + `symbolic_sound`), but for the descriptions of
  the finite table `allEntries` only:
    * chain descriptions with 0 … 9 data qubits (chain length ≤ 17 = all that fits on the device),
    * every contiguous data-terminated sub-chain (forward chain order) of Repetition9Code,
      Repetition9Round6Code, Repetition5Round4Code (table generated from the live code),
    each with and without refocusing, for containers that give a state to every data qubit and to all or to
    none of the ancilla qubits.
  MISSING for the full statement: chain descriptions of more than 9 data qubits (an induction over the chain
  length was not attempted), containers that give states to only some qubits, sub-chains listed in another
  qubit order (all three are covered by the correspondence run only).
  ADDENDUM: the first two gaps are closed for the chain descriptions by the `…_chain` theorems at the end of
  this file (every chain length, every prefix container), proved in Lemmas/RepChain*.lean.
-/
namespace Qco.C09
open Qco.StimSem Qco.RepCode

/-! ### the semantics -/

/-- Instantiating the initial-state variables commutes with running: the run of the instantiated program
    from the instantiated state is the instantiated symbolic run (and is undefined exactly when that is). -/
theorem symbolic_sound (σ : Nat → Bool) (p : List Ins) (s : St) :
    run (p.map (instIns σ)) (mapSt (evalNat σ) s) = (run p s).map (mapSt (evalNat σ)) :=
  run_hom (evalNat_formHom σ) p s

/-- SHIFT_COORDS instructions can be moved, added or removed without changing the run (record, detector
    values, observable, definedness) — needed because unrolling displaces them (known finding R5). -/
theorem run_ignores_annotation_position (p p' : List Ins) (s : St)
    (h : p.filter (fun i => !isShift i) = p'.filter (fun i => !isShift i)) : run p s = run p' s := by
  rw [← run_dropShift p s, ← run_dropShift p' s, h]

example : ([Ins.M 0, .SHIFT 0 1, .DET 0 0 [-1]] : List Ins).filter (fun i => !isShift i)
    = ([Ins.SHIFT 0 1, .M 0, .DET 0 0 [-1], .SHIFT 0 1] : List Ins).filter (fun i => !isShift i) := by decide

/-! ### one QEC round -/

/-- One QEC round with dynamical decoupling on the state "data x_i, ancilla a_j" (symbolic): data stays x_i
    (⊕1 with refocusing), ancilla j is measured and left at a_j ⊕ x_a ⊕ x_b; the next round returns to the
    start (period 2).  For every table description. -/
theorem round_effect_partial {e : Desc × Nat × Nat} (he : e ∈ allEntries) (b : Bool) :
    run (roundDD e.1) ⟨stateB e.1 e.2.1 e.2.2 b, [], [], 0⟩ =
      some ⟨stateB e.1 e.2.1 e.2.2 (!b), cB e.1 e.2.1 e.2.2 (!b), [], 0⟩ := by
  have F := facts_of_mem he
  cases b
  · exact F.round0
  · exact F.round1

/-! ### the protocol -/

/-- `protocol_record` for the table descriptions: for all cycles ≥ 0 and all computational initial states
    the exported program exists, its run is defined (so every measurement is deterministic) and the record
    is the closed form `expectedRecord` (heralding zeros; cycle c, ancilla j: a_j ⊕ (c mod 2)(x_a ⊕ x_b);
    final data x_i ⊕ [refocus ∧ (cycles−1) odd]) instantiated with the given states. -/
theorem protocol_record_partial {e : Desc × Nat × Nat} (he : e ∈ allEntries) (cycles : Nat) (ds as : List Bool)
    (hD : ds.length = e.2.1) (hA : as.length = e.2.2) :
    ∃ p sf, program e.1 cycles ds as = some p ∧ run p (start e.1.size) = some sf ∧
      sf.mrec.reverse = (expectedRecord e.1 cycles e.2.1 e.2.2).map (evalNat (assign ds as)) := by
  obtain ⟨prep, sf, _, hprog, _, hrun, hrec, _, _⟩ := facts_concrete (facts_of_mem he) cycles ds as hD hA
  exact ⟨_, sf, hprog, hrun, hrec⟩

/-- Reading the closed form: under any assignment σ of the initial states the outcome of ancilla `q` in cycle
    `c` is  a_q ⊕ (c mod 2)·(x_a ⊕ x_b)  for its two parity neighbours a, b … -/
theorem record_entry_value (σ : Nat → Bool) (d : Desc) (nD nA c q : Nat) :
    evalNat σ (cycleForm d nD nA c q) =
      evalNat σ (aVar d nD nA q) ^^^
        (if c % 2 = 1 then evalNat σ (xVar d nD (nbrOf d q).1) ^^^ evalNat σ (xVar d nD (nbrOf d q).2) else 0) := by
  unfold cycleForm cycleFormB parityForm par
  by_cases h : c % 2 = 1
  · simp [h, evalNat_xor]
  · simp [h, evalNat_zero]

/-- … and the final value of data qubit `q` is  x_q ⊕ [refocusing ∧ (cycles − 1) odd]. -/
theorem final_entry_value (σ : Nat → Bool) (d : Desc) (nD cycles q : Nat) :
    evalNat σ (finalForm d nD cycles q) =
      evalNat σ (xVar d nD q) ^^^ (if d.refocus = true ∧ (cycles - 1) % 2 = 1 then 1 else 0) := by
  unfold finalForm finalFormB par
  by_cases h : d.refocus = true ∧ (cycles - 1) % 2 = 1
  · obtain ⟨h1, h2⟩ := h
    simp [h1, h2, evalNat_xor, evalNat_one]
  · have : (d.refocus && ((cycles - 1) % 2 == 1)) = false := by
      cases hr : d.refocus <;> simp_all
    simp [this, h, evalNat_xor, evalNat_zero]

/-- the hypotheses are satisfiable: distance-3 chain with refocusing, all states given -/
example : (chainDesc 3 true, 3, 2) ∈ allEntries := by decide
example : ([true, false, true] : List Bool).length = (chainDesc 3 true, 3, 2).2.1 := rfl
/-- … and a sub-chain of Repetition9Code without refocusing, data states only (D4 Z1 D5 Z4 D6 is among them) -/
example : ∃ e ∈ allEntries, e.1.refocus = false ∧ e.2.2 = 0 ∧ e.1.layers.length = 4 ∧ e.1.ancIdx.length = 2 := by decide

/-- All ancillas·(cycles+1) detectors and the logical observable are deterministic: the run is defined and
    each detector evaluates to the constant `expectedDetectors` gives (first cycle a_j ⊕ x_a ⊕ x_b, second
    cycle a_j, every later one — including the final ones — 0), the observable to the sum of the final data
    values. -/
theorem detectors_deterministic_partial {e : Desc × Nat × Nat} (he : e ∈ allEntries) (cycles : Nat)
    (ds as : List Bool) (hD : ds.length = e.2.1) (hA : as.length = e.2.2) :
    ∃ p sf, program e.1 cycles ds as = some p ∧ run p (start e.1.size) = some sf ∧
      p.countP isDet = e.1.ancIdx.length * (cycles + 1) ∧
      sf.det.reverse = (expectedDetectors e.1 cycles e.2.1 e.2.2).map (evalNat (assign ds as)) ∧
      (∀ v ∈ sf.det, v = 0 ∨ v = 1) := by
  obtain ⟨prep, sf, _, hprog, _, hrun, _, hdet, _⟩ := facts_concrete (facts_of_mem he) cycles ds as hD hA
  refine ⟨_, sf, hprog, hrun, ?_, hdet, ?_⟩
  · have hc := (run_counts _ _ _ hrun).1
    have hl : sf.det.length = e.1.ancIdx.length * (cycles + 1) := by
      rw [← List.length_reverse, hdet, List.length_map, expectedDetectors_length]
    simp only [start, List.length_nil, Nat.zero_add] at hc
    omega
  · intro v hv
    have : v ∈ sf.det.reverse := List.mem_reverse.mpr hv
    rw [hdet, List.mem_map] at this
    obtain ⟨f, _, rfl⟩ := this
    unfold evalNat
    cases evalForm (assign ds as) f <;> simp

theorem observable_deterministic_partial {e : Desc × Nat × Nat} (he : e ∈ allEntries) (cycles : Nat)
    (ds as : List Bool) (hD : ds.length = e.2.1) (hA : as.length = e.2.2) :
    ∃ p sf, program e.1 cycles ds as = some p ∧ run p (start e.1.size) = some sf ∧
      sf.obs = evalNat (assign ds as) (expectedObservable e.1 cycles e.2.1) := by
  obtain ⟨prep, sf, _, hprog, _, hrun, _, _, hobs⟩ := facts_concrete (facts_of_mem he) cycles ds as hD hA
  exact ⟨_, sf, hprog, hrun, hobs⟩

/-! ### the preparation layer -/

/-- Every requested initial state is prepared: right after the preparation layer (heralding measurements all
    0) data qubit i is |x_i⟩ and ancilla qubit j is |a_j⟩ (|0⟩ if the container gives no ancilla states). -/
theorem initial_state_prepared_partial {e : Desc × Nat × Nat} (he : e ∈ allEntries) (ds as : List Bool)
    (hD : ds.length = e.2.1) (hA : as.length = e.2.2) :
    ∃ prep s, prepConc e.1 ds as = some prep ∧ run (initPart e.1 prep) (start e.1.size) = some s ∧
      s.mrec = zeros e.1 ∧
      (∀ i, i < ds.length → s.q[e.1.dataIdx.getD i 0]? = some ⟨.Z, (ds.getD i false).toNat⟩) ∧
      (∀ j, j < e.1.ancIdx.length → s.q[e.1.ancIdx.getD j 0]? = some ⟨.Z, (as.getD j false).toNat⟩) := by
  have F := facts_of_mem he
  obtain ⟨prep, sf, hprep, _, hinit, _⟩ := facts_concrete F 0 ds as hD hA
  refine ⟨prep, _, hprep, hinit, ?_, ?_, ?_⟩
  · simp [mapSt, zeros, evalNat_zero]
  · intro i hi
    have h := F.prepData
    rw [List.all_eq_true] at h
    have := h i (List.mem_range.mpr (hD ▸ hi))
    simp only [decide_eq_true_eq] at this
    simp only [mapSt, List.getElem?_map, this, Option.map_some, mapQ, evalNat_var, assign_data ds as i hi]
  · intro j hj
    have h := F.prepAnc
    rw [List.all_eq_true] at h
    have := h j (List.mem_range.mpr hj)
    simp only [decide_eq_true_eq] at this
    simp only [mapSt, List.getElem?_map, this, Option.map_some, mapQ]
    by_cases hjA : j < e.2.2
    · simp only [hjA, if_true, evalNat_var, ← hD, assign_anc ds as j]
    · have : as[j]?.getD false = false := by
        rw [List.getElem?_eq_none (by omega)]; rfl
      simp [hjA, evalNat_zero, this]

/-! ### stim's `flattened()` -/

/-- Applying the coordinate shifts to the detector coordinates and dropping SHIFT_COORDS (what
    `stim.Circuit.flattened()` does, `flatProgram`) does not change the run. -/
theorem flattened_same_run (p : List Ins) (a b : Int) (s : St) : run (applyShifts p a b) s = run p s := by
  induction p generalizing a b s with
  | nil => rfl
  | cons i is ih =>
    cases i <;> simp only [applyShifts, run, step, ih] <;> rfl

/-! ### ALL chain lengths (Lemmas/RepChain*.lean)

  The `_partial` theorems above cover the chain descriptions `from_chain(2n−1)` with n ≤ 9 through the
  kernel-checked table.  Below the same statements for EVERY n, with and without refocusing, all cycle
  counts, all computational initial states — and for every container that gives a state to the first
  `ds.length ≤ n` data qubits and the first `as.length ≤ n−1` ancilla qubits (so in particular the two
  container shapes of the table, `ds.length = n` and `as.length ∈ {0, n−1}`).  The per-description facts
  that `RepLift` needs are PROVED for `chainDesc n r` (`Qco.RepChain.chain_facts_all`): the round of the
  chain is SQRT_Y on the ancillas, CZ (2j,2j+1), CZ (2j+1,2j+2), SQRT_Y_DAG, M; each layer acts on a
  register of product states by a closed-form local rule (`run_act1_layer`, `run_cz_layer`, `run_M_layer`),
  the detector look-backs are computed from `lastAcqOf` of the parametric listings. -/

/-- One QEC round with dynamical decoupling, for EVERY chain: from the closed-form state of parity `b`
    (data x_i ⊕ [refocus ∧ b], ancilla a_j ⊕ [b](x_j ⊕ x_{j+1})) to the one of parity `!b`, the record gets
    the ancilla outcomes of that state. -/
theorem round_effect_chain (n : Nat) (r : Bool) (nD nA : Nat) (hD : nD ≤ n) (hA : nA ≤ n - 1) (b : Bool) :
    run (roundDD (chainDesc n r)) ⟨stateB (chainDesc n r) nD nA b, [], [], 0⟩ =
      some ⟨stateB (chainDesc n r) nD nA (!b), cB (chainDesc n r) nD nA (!b), [], 0⟩ := by
  have F := Qco.RepChain.chain_facts_all n r nD nA hD hA
  cases b
  · exact F.round0
  · exact F.round1

/-- `protocol_record` for EVERY chain length: for all n, all cycles ≥ 0 and all computational initial states
    the exported program exists, its run is defined (every measurement deterministic) and the record is the
    closed form `expectedRecord` instantiated with the given states. -/
theorem protocol_record_chain (n : Nat) (r : Bool) (cycles : Nat) (ds as : List Bool)
    (hD : ds.length ≤ n) (hA : as.length ≤ n - 1) :
    ∃ p sf, program (chainDesc n r) cycles ds as = some p ∧ run p (start (chainDesc n r).size) = some sf ∧
      sf.mrec.reverse = (expectedRecord (chainDesc n r) cycles ds.length as.length).map (evalNat (assign ds as)) := by
  obtain ⟨prep, sf, _, hprog, _, hrun, hrec, _, _⟩ :=
    facts_concrete (Qco.RepChain.chain_facts_all n r ds.length as.length hD hA) cycles ds as rfl rfl
  exact ⟨_, sf, hprog, hrun, hrec⟩

/-- the hypotheses are satisfiable beyond the table: distance 12 (23 qubits), all data and ancilla states given -/
example : (List.replicate 12 true).length ≤ 12 ∧ ([true, false, true, true, false, false, true, false, true, true, false] : List Bool).length ≤ 12 - 1 := by decide
/-- … and the theorem instantiated there (7 cycles, with refocusing) -/
example : ∃ p sf, program (chainDesc 12 true) 7 (List.replicate 12 true) [true, false, true] = some p ∧
    run p (start (chainDesc 12 true).size) = some sf ∧
    sf.mrec.reverse = (expectedRecord (chainDesc 12 true) 7 12 3).map (evalNat (assign (List.replicate 12 true) [true, false, true])) :=
  protocol_record_chain 12 true 7 (List.replicate 12 true) [true, false, true] (by decide) (by decide)

/-- `protocol_record_partial` instantiated at `chainDesc n` without the table-membership hypothesis:
    the container gives a state to every data qubit and to all or to none of the ancilla qubits. -/
theorem protocol_record_chain_full (n : Nat) (r : Bool) (nA : Nat) (hnA : nA = 0 ∨ nA = n - 1) (cycles : Nat)
    (ds as : List Bool) (hD : ds.length = n) (hA : as.length = nA) :
    ∃ p sf, program (chainDesc n r) cycles ds as = some p ∧ run p (start (chainDesc n r).size) = some sf ∧
      sf.mrec.reverse = (expectedRecord (chainDesc n r) cycles n nA).map (evalNat (assign ds as)) := by
  subst hD; subst hA
  exact protocol_record_chain ds.length r cycles ds as (Nat.le_refl _) (by omega)

example : (3 : Nat) = 0 ∨ 3 = 4 - 1 := by decide

/-- All (n−1)·(cycles+1) detectors are deterministic, for EVERY chain length: the run is defined and each
    detector evaluates to the constant `expectedDetectors` gives. -/
theorem detectors_deterministic_chain (n : Nat) (r : Bool) (cycles : Nat) (ds as : List Bool)
    (hD : ds.length ≤ n) (hA : as.length ≤ n - 1) :
    ∃ p sf, program (chainDesc n r) cycles ds as = some p ∧ run p (start (chainDesc n r).size) = some sf ∧
      p.countP isDet = (chainDesc n r).ancIdx.length * (cycles + 1) ∧
      sf.det.reverse = (expectedDetectors (chainDesc n r) cycles ds.length as.length).map (evalNat (assign ds as)) ∧
      (∀ v ∈ sf.det, v = 0 ∨ v = 1) := by
  obtain ⟨prep, sf, _, hprog, _, hrun, _, hdet, _⟩ :=
    facts_concrete (Qco.RepChain.chain_facts_all n r ds.length as.length hD hA) cycles ds as rfl rfl
  refine ⟨_, sf, hprog, hrun, ?_, hdet, ?_⟩
  · have hc := (run_counts _ _ _ hrun).1
    have hl : sf.det.length = (chainDesc n r).ancIdx.length * (cycles + 1) := by
      rw [← List.length_reverse, hdet, List.length_map, expectedDetectors_length]
    simp only [start, List.length_nil, Nat.zero_add] at hc
    omega
  · intro v hv
    have : v ∈ sf.det.reverse := List.mem_reverse.mpr hv
    rw [hdet, List.mem_map] at this
    obtain ⟨f, _, rfl⟩ := this
    unfold evalNat
    cases evalForm (assign ds as) f <;> simp

/-- the number of ancillas of the chain of distance n is n − 1 -/
theorem chain_ancilla_count (n : Nat) (r : Bool) : (chainDesc n r).ancIdx.length = n - 1 := by
  match n with
  | 0 => rfl
  | m + 1 => rw [Qco.RepChain.chain_ancIdx, Qco.RepChain.ancL_length]; rfl

/-- The logical observable is deterministic, for EVERY chain length: the sum of the final data values. -/
theorem observable_deterministic_chain (n : Nat) (r : Bool) (cycles : Nat) (ds as : List Bool)
    (hD : ds.length ≤ n) (hA : as.length ≤ n - 1) :
    ∃ p sf, program (chainDesc n r) cycles ds as = some p ∧ run p (start (chainDesc n r).size) = some sf ∧
      sf.obs = evalNat (assign ds as) (expectedObservable (chainDesc n r) cycles ds.length) := by
  obtain ⟨prep, sf, _, hprog, _, hrun, _, _, hobs⟩ :=
    facts_concrete (Qco.RepChain.chain_facts_all n r ds.length as.length hD hA) cycles ds as rfl rfl
  exact ⟨_, sf, hprog, hrun, hobs⟩

/-- Every requested initial state is prepared, for EVERY chain length: right after the preparation layer
    (heralding measurements all 0) data qubit i is |x_i⟩ and ancilla qubit j is |a_j⟩ (|0⟩ if no state was
    given for it). -/
theorem initial_state_prepared_chain (n : Nat) (r : Bool) (ds as : List Bool)
    (hD : ds.length ≤ n) (hA : as.length ≤ n - 1) :
    ∃ prep s, prepConc (chainDesc n r) ds as = some prep ∧
      run (initPart (chainDesc n r) prep) (start (chainDesc n r).size) = some s ∧
      s.mrec = zeros (chainDesc n r) ∧
      (∀ i, i < ds.length → s.q[(chainDesc n r).dataIdx.getD i 0]? = some ⟨.Z, (ds.getD i false).toNat⟩) ∧
      (∀ j, j < (chainDesc n r).ancIdx.length →
        s.q[(chainDesc n r).ancIdx.getD j 0]? = some ⟨.Z, (as.getD j false).toNat⟩) := by
  have F := Qco.RepChain.chain_facts_all n r ds.length as.length hD hA
  obtain ⟨prep, sf, hprep, _, hinit, _⟩ := facts_concrete F 0 ds as rfl rfl
  refine ⟨prep, _, hprep, hinit, ?_, ?_, ?_⟩
  · simp [mapSt, zeros, evalNat_zero]
  · intro i hi
    have h := F.prepData
    rw [List.all_eq_true] at h
    have := h i (List.mem_range.mpr hi)
    simp only [decide_eq_true_eq] at this
    simp only [mapSt, List.getElem?_map, this, Option.map_some, mapQ, evalNat_var, assign_data ds as i hi]
  · intro j hj
    have h := F.prepAnc
    rw [List.all_eq_true] at h
    have := h j (List.mem_range.mpr hj)
    simp only [decide_eq_true_eq] at this
    simp only [mapSt, List.getElem?_map, this, Option.map_some, mapQ]
    by_cases hjA : j < as.length
    · simp only [hjA, if_true, evalNat_var, assign_anc ds as j]
    · simp [hjA, evalNat_zero]

/-- the hypotheses of the `_chain` theorems are satisfiable beyond the table: distance 40, partial containers -/
example : (25 : Nat) ≤ 40 ∧ (39 : Nat) ≤ 40 - 1 := by decide

/-- … so the chain of distance n has exactly (n−1)·(cycles+1) detectors, all deterministic. -/
theorem detector_count_chain (n : Nat) (r : Bool) (cycles : Nat) (ds as : List Bool)
    (hD : ds.length ≤ n) (hA : as.length ≤ n - 1) :
    ∃ p, program (chainDesc n r) cycles ds as = some p ∧ p.countP isDet = (n - 1) * (cycles + 1) := by
  obtain ⟨p, _, hp, _, hc, _⟩ := detectors_deterministic_chain n r cycles ds as hD hA
  rw [chain_ancilla_count] at hc
  exact ⟨p, hp, hc⟩

example : ([] : List Bool).length ≤ 30 ∧ ([] : List Bool).length ≤ 30 - 1 := by decide

end Qco.C09
