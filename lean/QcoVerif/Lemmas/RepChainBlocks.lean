import QcoVerif.Lemmas.RepChainDet
/-
  C09, all chain lengths: the three sub-circuits of `get_circuit_qec_with_detectors` on the closed-form
  states of the chain.
-/
namespace Qco.RepChain
open Qco.StimSem Qco.RepCode

theorem lookback_skip_chunk (n : Nat) (h : Nat → Nat) (T : List Nat) (t : Int) (ht : t + n < 0) :
    lookback (chunk n h ++ T) t = lookback T (t + n) := by
  have := lookback_skip (chunk n h) T t (by rw [chunk_length]; exact ht)
  rw [chunk_length] at this
  exact this

theorem sl_one {r : List Nat} {t : Int} {a : Nat} (h : lookback r t = some a) :
    sumLookbacks r [t] = some a := by
  simp [sumLookbacks, h]

theorem sl_two {r : List Nat} {t1 t2 : Int} {a b : Nat} (h1 : lookback r t1 = some a)
    (h2 : lookback r t2 = some b) : sumLookbacks r [t1, t2] = some (a ^^^ b) := by
  simp [sumLookbacks, h1, h2]

theorem sl_three {r : List Nat} {t1 t2 t3 : Int} {a b c : Nat} (h1 : lookback r t1 = some a)
    (h2 : lookback r t2 = some b) (h3 : lookback r t3 = some c) :
    sumLookbacks r [t1, t2, t3] = some (a ^^^ (b ^^^ c)) := by
  simp [sumLookbacks, h1, h2, h3]

theorem sl_four {r : List Nat} {t1 t2 t3 t4 : Int} {a b c e : Nat} (h1 : lookback r t1 = some a)
    (h2 : lookback r t2 = some b) (h3 : lookback r t3 = some c) (h4 : lookback r t4 = some e) :
    sumLookbacks r [t1, t2, t3, t4] = some (a ^^^ (b ^^^ (c ^^^ e))) := by
  simp [sumLookbacks, h1, h2, h3, h4]

theorem map_zero_reverse (l : List Nat) : (l.map fun _ => 0).reverse = List.replicate l.length 0 := by
  induction l with
  | nil => rfl
  | cons a l ih =>
    simp only [List.map_cons, List.reverse_cons, ih, List.length_cons]
    rw [← List.replicate_succ', ]

theorem twoN_chain (m : Nat) (r : Bool) : twoN (chainDesc (m + 1) r) = 2 * (m : Int) := by
  rw [twoN, chain_ancIdx, ancL_length]

section
variable (m : Nat) (hm : 0 < m) (r : Bool) (nD nA : Nat)

local notation "d" => chainDesc (m + 1) r

/-- look-up of ancilla `2j+1` in the most recent cycle -/
theorem lookback_c0 (b : Bool) (T : List Nat) (j : Nat) (hj : j < m) :
    lookback (cB d nD nA b ++ T) ((j : Int) - m) = some (cycleFormB d nD nA b (2 * j + 1)) := by
  rw [cB_chain, anc_chunk]
  exact lookback_hit m _ T j hj _ rfl

/-- look-up of ancilla `2j+1` two cycles earlier -/
theorem lookback_c2 (b0 b1 b2 : Bool) (T : List Nat) (j : Nat) (hj : j < m) :
    lookback (cB d nD nA b0 ++ (cB d nD nA b1 ++ (cB d nD nA b2 ++ T))) ((j : Int) - m - 2 * m) =
      some (cycleFormB d nD nA b2 (2 * j + 1)) := by
  rw [cB_chain, cB_chain, cB_chain, anc_chunk, anc_chunk, anc_chunk,
    lookback_skip_chunk _ _ _ _ (by omega), lookback_skip_chunk _ _ _ _ (by omega)]
  exact lookback_hit m _ T j hj _ (by omega)

include hm

/-- first sub-circuit: a refocusing round, one raw detector per ancilla -/
theorem run_block1 (b : Bool) (T D : List Nat) (o : Nat) :
    run (block1 d) ⟨stateB d nD nA b, T, D, o⟩ =
      some ⟨stateB d nD nA (!b), cB d nD nA (!b) ++ T, cB d nD nA (!b) ++ D, o⟩ := by
  unfold block1
  rw [List.append_assoc, run_append_some (run_roundDD_chain m hm r nD nA b T D o),
    run_append_some (run_blockDets m r _ (measured_roundDD m hm r) none (cycleFormB d nD nA (!b)) _ _ D o
      (fun j hj => sl_one (lookback_c0 m r nD nA (!b) T j hj)))]
  rw [← cB_chain]
  rfl

/-- second sub-circuit: a refocusing round, one detector per ancilla comparing with two cycles earlier -/
theorem run_block2 (b : Bool) (T D : List Nat) (o : Nat) :
    run (block2 d) ⟨stateB d nD nA b, cB d nD nA b ++ (cB d nD nA (!b) ++ T), D, o⟩ =
      some ⟨stateB d nD nA (!b), cB d nD nA (!b) ++ (cB d nD nA b ++ (cB d nD nA (!b) ++ T)),
            List.replicate m 0 ++ D, o⟩ := by
  unfold block2
  rw [List.append_assoc, run_append_some (run_roundDD_chain m hm r nD nA b _ D o),
    run_append_some (run_blockDets m r _ (measured_roundDD m hm r) (some (twoN d)) (fun _ => 0) _ _ D o
      (fun j hj => by
        rw [twoN_chain]
        have := sl_two (lookback_c0 m r nD nA (!b) (cB d nD nA b ++ (cB d nD nA (!b) ++ T)) j hj)
          (lookback_c2 m r nD nA (!b) b (!b) T j hj)
        rw [Nat.xor_self] at this
        exact this))]
  rw [map_zero_reverse, ancL_length]
  rfl

/-- third sub-circuit (last cycle, no refocusing), comparing with two cycles earlier -/
theorem run_block3_true (b : Bool) (T D : List Nat) (o : Nat) :
    run (block3 d true) ⟨stateB d nD nA b, cB d nD nA b ++ (cB d nD nA (!b) ++ T), D, o⟩ =
      some ⟨mk (2 * m + 1) (SB d nD nA b (!b)), cB d nD nA (!b) ++ (cB d nD nA b ++ (cB d nD nA (!b) ++ T)),
            List.replicate m 0 ++ D, o⟩ := by
  unfold block3
  simp only [if_true]
  rw [List.append_assoc, run_append_some (run_roundPlain_chain m hm r nD nA b _ D o),
    run_append_some (run_blockDets m r _ (measured_roundPlain m hm r) (some (twoN d)) (fun _ => 0) _ _ D o
      (fun j hj => by
        rw [twoN_chain]
        have := sl_two (lookback_c0 m r nD nA (!b) (cB d nD nA b ++ (cB d nD nA (!b) ++ T)) j hj)
          (lookback_c2 m r nD nA (!b) b (!b) T j hj)
        rw [Nat.xor_self] at this
        exact this))]
  rw [map_zero_reverse, ancL_length]
  rfl

/-- third sub-circuit when it is the first or second cycle: raw detectors -/
theorem run_block3_false (b : Bool) (T D : List Nat) (o : Nat) :
    run (block3 d false) ⟨stateB d nD nA b, T, D, o⟩ =
      some ⟨mk (2 * m + 1) (SB d nD nA b (!b)), cB d nD nA (!b) ++ T, cB d nD nA (!b) ++ D, o⟩ := by
  unfold block3
  simp only [Bool.false_eq_true, if_false]
  rw [List.append_assoc, run_append_some (run_roundPlain_chain m hm r nD nA b T D o),
    run_append_some (run_blockDets m r _ (measured_roundPlain m hm r) none (cycleFormB d nD nA (!b)) _ _ D o
      (fun j hj => sl_one (lookback_c0 m r nD nA (!b) T j hj)))]
  rw [← cB_chain]
  rfl

end

end Qco.RepChain
