import QcoVerif.Model.StimExport
/-
  Helper lemmas for the exporter properties (C08, C15): list algebra of `repeatList`, evaluation of `listing`
  on an already sorted graph literal, the frame of `setLink`, and the relation between the mutating listing
  `World.decomposed` and the pure `World.leafListing`.  Core Lean only.
-/
namespace Qco

/-! ### lists -/

theorem flatMap_congr' {α β} {l : List α} {f g : α → List β} (h : ∀ a ∈ l, f a = g a) :
    l.flatMap f = l.flatMap g := by
  induction l with
  | nil => rfl
  | cons x xs ih =>
    simp only [List.flatMap_cons]
    rw [h x (by simp), ih (fun a ha => h a (by simp [ha]))]

theorem all_congr' {α} {l : List α} {p q : α → Bool} (h : ∀ a ∈ l, p a = q a) : l.all p = l.all q := by
  induction l with
  | nil => rfl
  | cons x xs ih =>
    simp only [List.all_cons]
    rw [h x (by simp), ih (fun a ha => h a (by simp [ha]))]

@[simp] theorem repeatList_zero {α} (l : List α) : repeatList 0 l = [] := by simp [repeatList]

theorem repeatList_succ {α} (n : Nat) (l : List α) : repeatList (n + 1) l = l ++ repeatList n l := by
  simp [repeatList, List.replicate_succ]

@[simp] theorem repeatList_one {α} (l : List α) : repeatList 1 l = l := by
  simp [repeatList_succ]

@[simp] theorem repeatList_nil {α} (n : Nat) : repeatList n ([] : List α) = [] := by
  induction n with
  | zero => simp
  | succ n ih => simp [repeatList_succ, ih]

theorem filterMap_repeatList {α β} (f : α → Option β) (n : Nat) (l : List α) :
    (repeatList n l).filterMap f = repeatList n (l.filterMap f) := by
  induction n with
  | zero => simp
  | succ n ih => simp [repeatList_succ, List.filterMap_append, ih]

theorem map_repeatList {α β} (f : α → β) (n : Nat) (l : List α) :
    (repeatList n l).map f = repeatList n (l.map f) := by
  induction n with
  | zero => simp
  | succ n ih => simp [repeatList_succ, ih]

theorem Perm.repeatList {α} {l₁ l₂ : List α} (n : Nat) (h : l₁.Perm l₂) :
    (repeatList n l₁).Perm (repeatList n l₂) := by
  induction n with
  | zero => simp
  | succ n ih => rw [repeatList_succ, repeatList_succ]; exact h.append ih

theorem mem_repeatList {α} {n : Nat} {l : List α} {a : α} (h : a ∈ repeatList n l) : a ∈ l := by
  induction n with
  | zero => simp at h
  | succ n ih =>
    rw [repeatList_succ, List.mem_append] at h
    exact h.elim id ih

theorem measCount_append (a b : List Instr) : measCount (a ++ b) = measCount a + measCount b := by
  simp [measCount, List.filter_append, List.sum_append]

theorem measCount_repeatList (n : Nat) (l : List Instr) : measCount (repeatList n l) = n * measCount l := by
  induction n with
  | zero => simp [measCount]
  | succ n ih => rw [repeatList_succ, measCount_append, ih, Nat.succ_mul, Nat.add_comm]

theorem measCount_perm {a b : List Instr} (h : a.Perm b) : measCount a = measCount b := by
  unfold measCount
  exact ((h.filter _).map _).sum_nat

/-! ### `listing` of a graph literal that is already in listing order -/

theorem listing_of_sorted (g : List Entry) (h : g.Pairwise (fun a b => entryLe a b = true)) :
    listing g = g.map (·.node) := by
  unfold listing sortedEntries
  rw [List.mergeSort_of_pairwise h]

/-- all graphs of the heap are stored in listing order (decidable on heap literals). -/
def World.graphsSorted (w : World) : Bool :=
  w.ops.toList.all (fun o => decide (o.graph.Pairwise (fun a b => entryLe a b = true)))

/-- on such a heap `listing` is the stored order — a rewrite rule that also fires under binders, which lets
    `decide` evaluate the walkers on heap literals (`mergeSort` itself does not reduce in the kernel). -/
theorem listing_of_graphsSorted (w : World) (h : w.graphsSorted = true) (c : Nat) :
    listing (w.op c).graph = (w.op c).graph.map (·.node) := by
  apply listing_of_sorted
  unfold World.graphsSorted at h
  rw [List.all_eq_true] at h
  unfold World.op
  rw [Array.getD_eq_getD_getElem?]
  by_cases hc : c < w.ops.size
  · have hm : w.ops[c] ∈ w.ops.toList := by simp
    have := h _ hm
    simp only [decide_eq_true_eq] at this
    simpa [hc] using this
  · have : w.ops[c]? = none := by simp; omega
    rw [this]
    exact List.Pairwise.nil

theorem filterMap_congr' {α β} {l : List α} {f g : α → Option β} (h : ∀ a ∈ l, f a = g a) :
    l.filterMap f = l.filterMap g := by
  induction l with
  | nil => rfl
  | cons x xs ih =>
    simp only [List.filterMap_cons]
    rw [h x (by simp), ih (fun a ha => h a (by simp [ha]))]

theorem stimBody_succ (w : World) (f c : Nat) :
    w.stimBody (f + 1) c = (listing (w.op c).graph).flatMap (fun n =>
      if (w.op n).isComp then repeatList (w.repCount (w.op n).rep) (w.stimBody f n)
      else (translate (w.op n)).toList) := rfl

theorem nestWithin_succ (w : World) (f c : Nat) :
    w.nestWithin (f + 1) c = (listing (w.op c).graph).all (fun n => !(w.op n).isComp || w.nestWithin f n) := rfl

/-! ### frame of `setLink`: everything but the link of one object is untouched -/

/-- the part of an object the exporters read (everything but the relation link). -/
def Op.noLink (o : Op) : Op := { o with link := 0 }

theorem op_setOp (w : World) (i : Nat) (o : Op) (j : Nat) :
    (w.setOp i o).op j = if i = j ∧ i < w.ops.size then o else w.op j := by
  unfold World.setOp World.op
  simp only [Array.getD_eq_getD_getElem?, Array.getElem?_setIfInBounds]
  by_cases hij : i = j
  · by_cases hlt : i < w.ops.size
    · subst hij; simp [hlt]
    · subst hij
      simp [hlt]
  · simp [hij]

theorem noLink_setLink (w : World) (i l j : Nat) : ((w.setLink i l).op j).noLink = (w.op j).noLink := by
  unfold World.setLink
  rw [op_setOp]
  split
  · rename_i h
    rw [← h.1]
    rfl
  · rfl

@[simp] theorem rreg_setLink (w : World) (i l : Nat) : (w.setLink i l).rreg = w.rreg := rfl

/-- `w` and `w0` agree on everything the exporters read. -/
def Shape (w w0 : World) : Prop := w.rreg = w0.rreg ∧ ∀ j, (w.op j).noLink = (w0.op j).noLink

theorem Shape.refl (w : World) : Shape w w := ⟨rfl, fun _ => rfl⟩

theorem Shape.setLink {w w0 : World} (h : Shape w w0) (i l : Nat) : Shape (w.setLink i l) w0 :=
  ⟨h.1, fun j => (noLink_setLink w i l j).trans (h.2 j)⟩

theorem Shape.cls {w w0 : World} (h : Shape w w0) (j : Nat) : (w.op j).cls = (w0.op j).cls :=
  show (w.op j).noLink.cls = (w0.op j).noLink.cls from congrArg Op.cls (h.2 j)

theorem Shape.isComp {w w0 : World} (h : Shape w w0) (j : Nat) : (w.op j).isComp = (w0.op j).isComp := by
  unfold Op.isComp; rw [h.cls j]

theorem Shape.graph {w w0 : World} (h : Shape w w0) (j : Nat) : (w.op j).graph = (w0.op j).graph :=
  show (w.op j).noLink.graph = (w0.op j).noLink.graph from congrArg Op.graph (h.2 j)

theorem Shape.rep {w w0 : World} (h : Shape w w0) (j : Nat) : (w.op j).rep = (w0.op j).rep :=
  show (w.op j).noLink.rep = (w0.op j).noLink.rep from congrArg Op.rep (h.2 j)

theorem Shape.qs {w w0 : World} (h : Shape w w0) (j : Nat) : (w.op j).qs = (w0.op j).qs :=
  show (w.op j).noLink.qs = (w0.op j).noLink.qs from congrArg Op.qs (h.2 j)

theorem Shape.ints {w w0 : World} (h : Shape w w0) (j : Nat) : (w.op j).ints = (w0.op j).ints :=
  show (w.op j).noLink.ints = (w0.op j).noLink.ints from congrArg Op.ints (h.2 j)

theorem Shape.chan {w w0 : World} (h : Shape w w0) (j : Nat) : (w.op j).chan = (w0.op j).chan :=
  show (w.op j).noLink.chan = (w0.op j).noLink.chan from congrArg Op.chan (h.2 j)

theorem Shape.dur {w w0 : World} (h : Shape w w0) (j : Nat) : (w.op j).dur = (w0.op j).dur :=
  show (w.op j).noLink.dur = (w0.op j).noLink.dur from congrArg Op.dur (h.2 j)

theorem Shape.repCount {w w0 : World} (h : Shape w w0) (r : Rep) : w.repCount r = w0.repCount r := by
  unfold World.repCount; rw [h.1]

/-! ### the mutating listing lists what the pure walk lists -/

theorem foldl_spec {w0 : World} {step : World × List Nat → Nat → World × List Nat} {g : Nat → List Nat}
    (hstep : ∀ w out n, Shape w w0 → Shape (step (w, out) n).1 w0 ∧ (step (w, out) n).2 = out ++ g n) :
    ∀ (L : List Nat) (w : World) (out : List Nat), Shape w w0 →
      Shape (L.foldl step (w, out)).1 w0 ∧ (L.foldl step (w, out)).2 = out ++ L.flatMap g := by
  intro L
  induction L with
  | nil => intro w out h; simp [h]
  | cons n ns ih =>
    intro w out h
    simp only [List.foldl_cons, List.flatMap_cons]
    have hs := hstep w out n h
    have := ih (step (w, out) n).1 (step (w, out) n).2 hs.1
    rw [show step (w, out) n = ((step (w, out) n).1, (step (w, out) n).2) from rfl]
    rw [hs.2] at this ⊢
    simpa [List.append_assoc] using this

/-- `decomposed_operations` only rewrites links, and lists the leaves in the order of the pure walk. -/
theorem decomposed_spec (w0 : World) :
    ∀ (f c : Nat) (w : World), Shape w w0 →
      Shape (w.decomposed f c).1 w0 ∧ (w.decomposed f c).2 = w0.leafListing f c := by
  intro f
  induction f with
  | zero => intro c w h; exact ⟨h, rfl⟩
  | succ f ih =>
    intro c w h
    unfold World.decomposed World.leafListing
    rw [h.graph c]
    have := foldl_spec (w0 := w0)
      (step := fun (acc : World × List Nat) n =>
        let (w', out) := acc
        let w' := if !w'.hasRel n then w'.setLink n (w.op c).link else w'
        if (w'.op n).isComp then
          let (w', sub) := w'.decomposed f n
          (w', out ++ sub)
        else (w', out ++ [n]))
      (g := fun n => if (w0.op n).isComp then w0.leafListing f n else [n])
      (by
        intro w1 out n h1
        have h2 : Shape (if !w1.hasRel n then w1.setLink n (w.op c).link else w1) w0 := by
          split
          · exact h1.setLink _ _
          · exact h1
        simp only []
        rw [h2.isComp n]
        by_cases hc : (w0.op n).isComp = true
        · simp only [hc, if_true]
          have := ih n _ h2
          exact ⟨this.1, by rw [this.2]⟩
        · simp only [hc]
          exact ⟨h2, rfl⟩)
      (listing (w0.op c).graph) w [] h
    simpa using this

theorem operations_eq_leafListing (w : World) (c : Nat) :
    (w.operations c).2 = w.leafListing w.depthFuel c :=
  (decomposed_spec w w.depthFuel c w (Shape.refl w)).2

theorem operations_shape (w : World) (c : Nat) : Shape (w.operations c).1 w :=
  (decomposed_spec w w.depthFuel c w (Shape.refl w)).1

/-! ### fuel -/

theorem nestWithin_mono (w : World) : ∀ (f f' c : Nat), f ≤ f' → w.nestWithin f c = true → w.nestWithin f' c = true := by
  intro f
  induction f with
  | zero => intro f' c _ h; simp [World.nestWithin] at h
  | succ f ih =>
    intro f' c hle h
    cases f' with
    | zero => omega
    | succ f' =>
      simp only [World.nestWithin, List.all_eq_true, Bool.or_eq_true, Bool.not_eq_eq_eq_not, Bool.not_true] at h ⊢
      intro n hn
      rcases h n hn with h | h
      · exact Or.inl h
      · exact Or.inr (ih f' n (by omega) h)

/-- more fuel never changes the walk once the nesting fits. -/
theorem stimBody_fuel (w : World) :
    ∀ (f f' c : Nat), f ≤ f' → w.nestWithin f c = true → w.stimBody f' c = w.stimBody f c := by
  intro f
  induction f with
  | zero => intro f' c _ h; simp [World.nestWithin] at h
  | succ f ih =>
    intro f' c hle h
    cases f' with
    | zero => omega
    | succ f' =>
      simp only [World.nestWithin, List.all_eq_true, Bool.or_eq_true, Bool.not_eq_eq_eq_not, Bool.not_true] at h
      simp only [World.stimBody]
      apply flatMap_congr'
      intro n hn
      by_cases hc : (w.op n).isComp = true
      · simp only [hc, if_true]
        rcases h n hn with h' | h'
        · rw [hc] at h'; cases h'
        · rw [ih f' n (by omega) h']
      · simp [hc]

/-! ### the export as an image of the count-expanded listing -/

/-- the body of the export is the image of the count-expanded listing, for any fuel and any counts. -/
theorem stimBody_is_image (w : World) :
    ∀ (f c : Nat), w.stimBody f c = (w.expanded f c).filterMap (fun n => translate (w.op n)) := by
  intro f
  induction f with
  | zero => intro c; rfl
  | succ f ih =>
    intro c
    simp only [World.stimBody, World.expanded, List.filterMap_flatMap]
    apply flatMap_congr'
    intro n _
    by_cases hc : (w.op n).isComp = true
    · simp only [hc, if_true]
      rw [filterMap_repeatList, ih n]
    · simp only [hc]
      cases h : translate (w.op n) <;> simp [h]

/-- with all counts 1 the count-expanded listing is the plain leaf listing. -/
theorem expanded_eq_leafListing (w : World) :
    ∀ (f c : Nat), w.allOne f c = true → w.expanded f c = w.leafListing f c := by
  intro f
  induction f with
  | zero => intro c _; rfl
  | succ f ih =>
    intro c h
    simp only [World.allOne, List.all_eq_true, Bool.or_eq_true, Bool.not_eq_eq_eq_not, Bool.not_true,
      Bool.and_eq_true, beq_iff_eq] at h
    simp only [World.expanded, World.leafListing]
    apply flatMap_congr'
    intro n hn
    by_cases hc : (w.op n).isComp = true
    · simp only [hc, if_true]
      rcases h n hn with h' | h'
      · rw [hc] at h'; cases h'
      · rw [h'.1, repeatList_one, ih n h'.2]
    · simp [hc]

/-- and the count-expanded listing only contains leaves of the tree. -/
theorem expanded_subset_leafListing (w : World) :
    ∀ (f c n : Nat), n ∈ w.expanded f c → n ∈ w.leafListing f c := by
  intro f
  induction f with
  | zero => intro c n h; simp [World.expanded] at h
  | succ f ih =>
    intro c n h
    simp only [World.expanded, World.leafListing, List.mem_flatMap] at h ⊢
    obtain ⟨a, ha, hn⟩ := h
    refine ⟨a, ha, ?_⟩
    by_cases hc : (w.op a).isComp = true
    · simp only [hc, if_true] at hn ⊢
      exact ih a n (mem_repeatList hn)
    · simpa [hc] using hn

/-- what the exporter reads of an operation. -/
def exportKey (o : Op) : Cls × List Int × List (Option Int) × Chan := (o.cls, o.qs, o.ints, o.chan)

theorem translate_of_key (a b : Op) (h : exportKey a = exportKey b) : translate a = translate b := by
  simp only [exportKey, Prod.mk.injEq] at h
  obtain ⟨h1, h2, h3, h4⟩ := h
  unfold translate Op.stimTargets Op.stimArgs Op.detRecs Op.obsRecs Op.exportQubits Op.fld Op.leafChans
  rw [h1, h2, h3, h4]

end Qco
