/-
  Stateless driver module `ident`: `handle args` answers one line. Filled in by the Ident model.
-/
namespace Qco.Driver.Ident

def handle (_args : List String) : String := "bad-op"

end Qco.Driver.Ident
