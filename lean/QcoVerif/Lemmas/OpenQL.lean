import QcoVerif.Model.OpenQL
import QcoVerif.Lemmas.Export
/-
  Helper lemmas for C15: the stack machine on a run of kernel calls, flat circuits, bracket-depth bookkeeping of
  `ownCalls`.  Core Lean only.
-/
namespace Qco

/-- no sub-circuit among the nodes of `c`. -/
def flat (w : World) (c : Nat) : Prop := ∀ n ∈ listing (w.op c).graph, (w.op n).isComp = false

theorem foldl_calls (cs : List QCall) (f : QFrame) (fs : List QFrame) (last : List (List QCall)) :
    (cs.map QTok.call).foldl qlStep (f :: fs, last) = ({ f with kernel := f.kernel ++ cs } :: fs, last) := by
  induction cs generalizing f with
  | nil => simp
  | cons c cs ih =>
    simp only [List.map_cons, List.foldl_cons, qlStep]
    rw [ih]
    simp [List.append_assoc]

theorem leafListing_flat (w : World) (c : Nat) (h : flat w c) (f : Nat) :
    w.leafListing (f + 1) c = listing (w.op c).graph := by
  simp only [World.leafListing]
  rw [flatMap_congr' (g := fun n => [n])]
  · simp [List.flatMap_singleton']
  · intro n hn
    simp [h n hn]

theorem ownCalls_calls (k : Nat) (hk : k ≠ 1) (cs : List QCall) (rest : List QTok) :
    ownCalls k (cs.map .call ++ rest) = ownCalls k rest := by
  induction cs with
  | nil => rfl
  | cons c cs ih =>
    simp only [List.map_cons, List.cons_append, ownCalls]
    have : (k == 1) = false := by simpa using hk
    simp [this, ih]

theorem ownCalls_adds (k m : Nat) (rest : List QTok) :
    ownCalls k (List.replicate m .addProgram ++ rest) = ownCalls k rest := by
  induction m with
  | zero => rfl
  | succ m ih => simp only [List.replicate_succ, List.cons_append, ownCalls, ih]

/-- a complete `construct` trace below the outermost one contributes nothing to the outermost kernel. -/
theorem ownCalls_skip (w : World) :
    ∀ (f c depth : Nat) (top : List Cls) (k : Nat), 1 ≤ k → ∀ rest,
      ownCalls k (w.qlWalk f c depth top ++ rest) = ownCalls k rest := by
  intro f
  induction f with
  | zero => intro c depth top k _ rest; rfl
  | succ f ih =>
    intro c depth top k hk rest
    simp only [World.qlWalk, List.cons_append, List.nil_append, List.append_assoc, ownCalls]
    generalize (if (depth == 0) = true then w.qlSeq c else top) = top'
    have inner : ∀ (L : List Nat) (rest' : List QTok),
        ownCalls (k + 1) (L.flatMap (fun n =>
          if (w.op n).isComp then
            w.qlWalk f n (depth + 1) top' ++ List.replicate (w.repCount (w.op n).rep) .addProgram
          else (w.qlCalls (w.op n)).map .call) ++ rest') = ownCalls (k + 1) rest' := by
      intro L
      induction L with
      | nil => intro rest'; rfl
      | cons n ns ihL =>
        intro rest'
        simp only [List.flatMap_cons, List.append_assoc]
        by_cases hc : (w.op n).isComp = true
        · simp only [hc, if_true, List.append_assoc]
          rw [ih n (depth + 1) top' (k + 1) (by omega), ownCalls_adds, ihL]
        · have hc' : (w.op n).isComp = false := by simpa using hc
          simp only [hc', Bool.false_eq_true, if_false]
          rw [ownCalls_calls (k + 1) (by omega), ihL]
    rw [inner]
    simp [ownCalls]

end Qco
