import QcoVerif.Lemmas.Graph
import QcoVerif.Lemmas.Listing
import QcoVerif.Lemmas.C10Timing
/-
  Helper lemmas for C11 "flattening again changes nothing".

  Part 1 (pure graph theory): a graph built by successive `attach` calls (`TreeOk`) is reproduced entry by entry when
  its entries are re-attached in listing (breadth-first) order (`reattach_sorted`).
  Part 2 (heap): specification of one `addToGraph` step, the invariant `FlatInv` of the rebuild loop of `flatten`,
  the listing of a flat circuit (`decomposed_flat`, `handDown`), and the second rebuild (`rebuild_fixed`).
  Core Lean only.
-/
namespace Qco.Flat

/-! ### Part 1: keys, siblings, the tree invariant -/

/-- the key prefix `attach` gives to a child of `p` (`none` = root). -/
def baseKey (g : List Entry) : Option Nat → List Nat
  | none => []
  | some q => ((entryOf? g q).map (·.key)).getD []

theorem attach_eq_baseKey (g : List Entry) (p : Option Nat) (n : Nat) :
    attach g p n = g ++ [{ node := n, parent := p, key := baseKey g p ++ [sibCount g p] }] := by
  cases p <;> rfl

theorem node_inj : ∀ (g : List Entry), (g.map (·.node)).Nodup →
    ∀ a ∈ g, ∀ b ∈ g, a.node = b.node → a = b := by
  intro g
  induction g with
  | nil => intro _ a ha; cases ha
  | cons x xs ih =>
    intro hnd a ha b hb hab
    simp only [List.map_cons, List.nodup_cons, List.mem_map, not_exists, not_and] at hnd
    rcases List.mem_cons.mp ha with rfl | ha' <;> rcases List.mem_cons.mp hb with rfl | hb'
    · rfl
    · exact absurd hab.symm (hnd.1 b hb')
    · exact absurd hab (hnd.1 a ha')
    · exact ih hnd.2 a ha' b hb' hab

theorem entryOf?_of_mem {g : List Entry} (hnd : (g.map (·.node)).Nodup) {pe : Entry} (hpe : pe ∈ g) :
    entryOf? g pe.node = some pe := by
  unfold entryOf?
  cases hf : g.find? (fun e => e.node == pe.node) with
  | none =>
    rw [List.find?_eq_none] at hf
    have := hf pe hpe
    simp at this
  | some x =>
    have hx : x ∈ g := List.mem_of_find?_eq_some hf
    have hn : x.node = pe.node := by simpa using List.find?_some hf
    rw [node_inj g hnd x hx pe hpe hn]

theorem baseKey_of_mem {g : List Entry} (hnd : (g.map (·.node)).Nodup) {pe : Entry} (hpe : pe ∈ g) {q : Nat}
    (hq : pe.node = q) : baseKey g (some q) = pe.key := by
  subst hq
  simp [baseKey, entryOf?_of_mem hnd hpe]

theorem inGraph_iff {g : List Entry} {n : Nat} : inGraph g n = true ↔ ∃ e ∈ g, e.node = n := by
  simp [inGraph]

theorem baseKey_append (g : List Entry) (x : Entry) (p : Option Nat)
    (hp : ∀ q, p = some q → ∃ pe ∈ g, pe.node = q) : baseKey (g ++ [x]) p = baseKey g p := by
  cases p with
  | none => rfl
  | some q =>
    obtain ⟨pe, hpe, hq⟩ := hp q rfl
    simp only [baseKey, entryOf?, List.find?_append]
    cases hf : g.find? (fun e => e.node == q) with
    | none =>
      rw [List.find?_eq_none] at hf
      have := hf pe hpe
      simp [hq] at this
    | some y => simp

theorem sibCount_append (g : List Entry) (x : Entry) (p : Option Nat) :
    sibCount (g ++ [x]) p = sibCount g p + (if x.parent = p then 1 else 0) := by
  simp only [sibCount, List.filter_append, List.length_append]
  by_cases h : x.parent = p
  · simp [h]
  · simp [h]

theorem sibCount_pos_mem {g : List Entry} {p : Option Nat} (h : 0 < sibCount g p) : ∃ e ∈ g, e.parent = p := by
  unfold sibCount at h
  obtain ⟨e, he⟩ := List.exists_mem_of_length_pos h
  rw [List.mem_filter] at he
  exact ⟨e, he.1, by simpa using he.2⟩

/-- the shape of a graph built by `attach`: distinct nodes, parents present, keys = parent key ++ [sibling index],
    sibling indices of every parent are exactly `0 … count-1`, each once. -/
structure TreeOk (g : List Entry) : Prop where
  nodup : (g.map (·.node)).Nodup
  par : ∀ e ∈ g, ∀ p, e.parent = some p → ∃ pe ∈ g, pe.node = p
  key : ∀ e ∈ g, ∃ i, e.key = baseKey g e.parent ++ [i] ∧ i < sibCount g e.parent
  full : ∀ p j, j < sibCount g p → ∃ e ∈ g, e.parent = p ∧ e.key = baseKey g p ++ [j]
  sibinj : ∀ e ∈ g, ∀ e' ∈ g, e.parent = e'.parent → e.key = e'.key → e = e'

theorem treeOk_nil : TreeOk [] :=
  ⟨by simp, (by intro e he; cases he), (by intro e he; cases he), (by intro p j h; simp [sibCount] at h),
   (by intro e he; cases he)⟩

/-- `attach` of a fresh node under the root or under a node of the graph keeps the tree invariant. -/
theorem TreeOk.attach {g : List Entry} (h : TreeOk g) (p : Option Nat) (n : Nat)
    (hn : ∀ e ∈ g, e.node ≠ n) (hp : ∀ q, p = some q → ∃ pe ∈ g, pe.node = q) :
    TreeOk (Qco.attach g p n) := by
  rw [attach_eq_baseKey]
  generalize hx : ({ node := n, parent := p, key := baseKey g p ++ [sibCount g p] } : Entry) = x
  have hxn : x.node = n := by rw [← hx]
  have hxp : x.parent = p := by rw [← hx]
  have hxk : x.key = baseKey g p ++ [sibCount g p] := by rw [← hx]
  -- parents of all entries (old and new) are in the old graph
  have hpar : ∀ e ∈ g ++ [x], ∀ q, e.parent = some q → ∃ pe ∈ g, pe.node = q := by
    intro e he q hq
    rcases List.mem_append.mp he with he | he
    · exact h.par e he q hq
    · simp only [List.mem_singleton] at he
      subst he
      exact hp q (hxp ▸ hq)
  have hbase : ∀ e ∈ g ++ [x], baseKey (g ++ [x]) e.parent = baseKey g e.parent := by
    intro e he
    exact baseKey_append g x e.parent (hpar e he)
  refine ⟨?_, ?_, ?_, ?_, ?_⟩
  · rw [List.map_append, List.nodup_append]
    refine ⟨h.nodup, by simp, ?_⟩
    intro a ha b hb
    simp only [List.map_cons, List.map_nil, List.mem_singleton] at hb
    obtain ⟨e, he, hea⟩ := List.mem_map.mp ha
    rw [hb, hxn, ← hea]
    exact hn e he
  · intro e he q hq
    obtain ⟨pe, hpe, hpn⟩ := hpar e he q hq
    exact ⟨pe, List.mem_append_left _ hpe, hpn⟩
  · intro e he
    rw [hbase e he, sibCount_append]
    rcases List.mem_append.mp he with he' | he'
    · obtain ⟨i, hi1, hi2⟩ := h.key e he'
      exact ⟨i, hi1, by omega⟩
    · simp only [List.mem_singleton] at he'
      subst he'
      refine ⟨sibCount g p, by rw [hxk, hxp], ?_⟩
      rw [hxp]; simp
  · intro p' j hj
    rw [sibCount_append] at hj
    by_cases hpp : x.parent = p'
    · have hbp : baseKey (g ++ [x]) p' = baseKey g p' := by
        rw [← hpp]; exact hbase x (by simp)
      rw [if_pos hpp] at hj
      by_cases hjm : j < sibCount g p'
      · obtain ⟨e, he, he1, he2⟩ := h.full p' j hjm
        exact ⟨e, List.mem_append_left _ he, he1, by rw [hbp]; exact he2⟩
      · have : j = sibCount g p' := by omega
        refine ⟨x, by simp, hpp, ?_⟩
        rw [hbp, hxk, this, ← hpp, hxp]
    · rw [if_neg hpp, Nat.add_zero] at hj
      obtain ⟨e, he, he1, he2⟩ := h.full p' j hj
      have hbp : baseKey (g ++ [x]) p' = baseKey g p' := by
        rw [← he1]; exact hbase e (List.mem_append_left _ he)
      exact ⟨e, List.mem_append_left _ he, he1, by rw [hbp]; exact he2⟩
  · have hnew : ∀ e ∈ g, e.parent = x.parent → e.key = x.key → False := by
      intro e he hep hek
      obtain ⟨i, hi1, hi2⟩ := h.key e he
      rw [hep, hxp] at hi1 hi2
      rw [hxk, hi1] at hek
      have := List.append_inj_right' hek rfl
      simp only [List.cons.injEq, and_true] at this
      omega
    intro e he e' he' hpe hke
    rcases List.mem_append.mp he with h1 | h1 <;> rcases List.mem_append.mp he' with h2 | h2
    · exact h.sibinj e h1 e' h2 hpe hke
    · simp only [List.mem_singleton] at h2
      rw [h2] at hpe hke
      exact (hnew e h1 hpe hke).elim
    · simp only [List.mem_singleton] at h1
      rw [h1] at hpe hke
      exact (hnew e' h2 hpe.symm hke.symm).elim
    · simp only [List.mem_singleton] at h1 h2
      rw [h1, h2]

/-! ### the listing order among siblings -/

theorem lexLt_append_single (bk : List Nat) (k j : Nat) : lexLt (bk ++ [k]) (bk ++ [j]) = decide (k < j) := by
  induction bk with
  | nil => simp [lexLt]
  | cons a as ih => simp [lexLt, ih]

theorem keyLe_sib {bk : List Nat} {j k : Nat} (h : keyLe (bk ++ [j]) (bk ++ [k]) = true) : j ≤ k := by
  simp only [keyLe, List.length_append, List.length_cons, List.length_nil, Nat.lt_irrefl, decide_false,
    BEq.rfl, lexLt_append_single, Bool.true_and, Bool.false_or, Bool.not_eq_true', decide_eq_false_iff_not] at h
  omega

theorem entryLe_length {a b : Entry} (h : entryLe a b = true) : a.key.length ≤ b.key.length := by
  simp only [entryLe, keyLe, Bool.or_eq_true, decide_eq_true_eq, Bool.and_eq_true, beq_iff_eq] at h
  rcases h with h | ⟨h, _⟩
  · exact Nat.le_of_lt h
  · exact Nat.le_of_eq h

/-- listing order, strict: sorted by key and no node twice. -/
def StrictSorted (S : List Entry) : Prop :=
  S.Pairwise (fun a b => entryLe a b = true ∧ a.node ≠ b.node)

theorem strictSorted_sortedEntries (g : List Entry) (hnd : (g.map (·.node)).Nodup) :
    StrictSorted (sortedEntries g) := by
  have h1 := sortedEntries_pairwise g
  have h2 : ((sortedEntries g).map (·.node)).Nodup := ((sortedEntries_perm g).map _).nodup_iff.mpr hnd
  have h3 : (sortedEntries g).Pairwise (fun a b => a.node ≠ b.node) := by
    unfold List.Nodup at h2
    exact List.pairwise_map.mp h2
  exact h1.and h3

theorem StrictSorted.split {S A B : List Entry} {e : Entry} (hs : StrictSorted S) (hS : S = A ++ e :: B) :
    (∀ a ∈ A, entryLe a e = true ∧ a.node ≠ e.node) ∧ (∀ b ∈ B, entryLe e b = true ∧ e.node ≠ b.node) := by
  subst hS
  unfold StrictSorted at hs
  rw [List.pairwise_append] at hs
  exact ⟨fun a ha => hs.2.2 a ha e List.mem_cons_self, fun b hb => (List.pairwise_cons.mp hs.2.1).1 b hb⟩

theorem StrictSorted.nodes_prefix {S A B : List Entry} (hs : StrictSorted S) (hS : S = A ++ B) :
    (A.map (·.node)).Nodup := by
  subst hS
  unfold StrictSorted at hs
  rw [List.pairwise_append] at hs
  unfold List.Nodup
  rw [List.pairwise_map]
  exact hs.1.imp (fun h => h.2)

/-- in listing order the siblings that precede the one with index `i` are exactly those with a smaller index:
    there are `i` of them. -/
theorem sib_count_sorted {g : List Entry} (h : TreeOk g) {S : List Entry} (hperm : S.Perm g)
    (hs : StrictSorted S) (p : Option Nat) :
    ∀ (i : Nat) (A : List Entry) (e : Entry) (B : List Entry), S = A ++ e :: B → e.parent = p →
      e.key = baseKey g p ++ [i] → sibCount A p = i := by
  intro i
  induction i with
  | zero =>
    intro A e B hS hep hek
    obtain ⟨hA, _⟩ := hs.split hS
    have heg : e ∈ g := hperm.mem_iff.mp (by rw [hS]; simp)
    unfold sibCount
    rw [List.length_eq_zero_iff, List.filter_eq_nil_iff]
    intro a ha hap
    have hap : a.parent = p := by simpa using hap
    have hag : a ∈ g := hperm.mem_iff.mp (by rw [hS]; simp [ha])
    obtain ⟨j, hj, _⟩ := h.key a hag
    rw [hap] at hj
    obtain ⟨hle, hne⟩ := hA a ha
    unfold entryLe at hle
    rw [hj, hek] at hle
    have hj0 : j = 0 := by have := keyLe_sib hle; omega
    subst hj0
    have := h.sibinj a hag e heg (hap.trans hep.symm) (hj.trans hek.symm)
    exact hne (by rw [this])
  | succ i ih =>
    intro A e B hS hep hek
    obtain ⟨hA, hB⟩ := hs.split hS
    have heg : e ∈ g := hperm.mem_iff.mp (by rw [hS]; simp)
    obtain ⟨i', hi1, hi2⟩ := h.key e heg
    rw [hep] at hi1 hi2
    have hii : i' = i + 1 := by
      have := List.append_inj_right' (hi1.symm.trans hek) rfl
      simpa using this
    subst hii
    obtain ⟨e0, he0g, he0p, he0k⟩ := h.full p i (by omega)
    have he0S : e0 ∈ A ++ e :: B := by rw [← hS]; exact hperm.mem_iff.mpr he0g
    rcases List.mem_append.mp he0S with h0 | h0
    · obtain ⟨A1, A2, hA12⟩ := List.append_of_mem h0
      have hS2 : S = A1 ++ e0 :: (A2 ++ e :: B) := by rw [hS, hA12]; simp
      have ih1 := ih A1 e0 (A2 ++ e :: B) hS2 he0p he0k
      obtain ⟨_, hB2⟩ := hs.split hS2
      have hA2 : sibCount A2 p = 0 := by
        unfold sibCount
        rw [List.length_eq_zero_iff, List.filter_eq_nil_iff]
        intro a ha hap
        have hap : a.parent = p := by simpa using hap
        have haA : a ∈ A := by rw [hA12]; simp [ha]
        have hag : a ∈ g := hperm.mem_iff.mp (by rw [hS]; simp [haA])
        obtain ⟨j, hj, _⟩ := h.key a hag
        rw [hap] at hj
        obtain ⟨hle1, hne1⟩ := hA a haA
        obtain ⟨hle2, hne2⟩ := hB2 a (by simp [ha])
        unfold entryLe at hle1 hle2
        rw [hj, hek] at hle1
        rw [hj, he0k] at hle2
        have b1 := keyLe_sib hle1
        have b2 := keyLe_sib hle2
        by_cases hji : j = i
        · subst hji
          have := h.sibinj a hag e0 he0g (hap.trans he0p.symm) (hj.trans he0k.symm)
          exact hne2 (by rw [this])
        · have hj1 : j = i + 1 := by omega
          subst hj1
          have := h.sibinj a hag e heg (hap.trans hep.symm) (hj.trans hek.symm)
          exact hne1 (by rw [this])
      rw [hA12]
      have : sibCount (A1 ++ e0 :: A2) p = sibCount A1 p + 1 + sibCount A2 p := by
        simp only [sibCount, List.filter_append, List.filter_cons, he0p, BEq.rfl, if_true,
          List.length_append, List.length_cons]
        omega
      rw [this, ih1, hA2]
    · rcases List.mem_cons.mp h0 with h0 | h0
      · subst h0
        have := List.append_inj_right' (he0k.symm.trans hek) rfl
        simp at this
      · obtain ⟨hle, _⟩ := hB e0 h0
        unfold entryLe at hle
        rw [hek, he0k] at hle
        have := keyLe_sib hle
        omega

/-- the parent of an entry precedes it in listing order. -/
theorem parent_before {g : List Entry} (h : TreeOk g) {S : List Entry} (hperm : S.Perm g)
    (hs : StrictSorted S) {A B : List Entry} {e : Entry} (hS : S = A ++ e :: B) {q : Nat}
    (hq : e.parent = some q) : ∃ pe ∈ A, pe.node = q ∧ pe ∈ g := by
  obtain ⟨_, hB⟩ := hs.split hS
  have heg : e ∈ g := hperm.mem_iff.mp (by rw [hS]; simp)
  obtain ⟨pe, hpeg, hpn⟩ := h.par e heg q hq
  obtain ⟨i, hi, _⟩ := h.key e heg
  rw [hq, baseKey_of_mem h.nodup hpeg hpn] at hi
  have hlen : pe.key.length < e.key.length := by rw [hi]; simp
  have hpS : pe ∈ A ++ e :: B := by rw [← hS]; exact hperm.mem_iff.mpr hpeg
  rcases List.mem_append.mp hpS with h0 | h0
  · exact ⟨pe, h0, hpn, hpeg⟩
  · rcases List.mem_cons.mp h0 with h0 | h0
    · subst h0; omega
    · have := entryLe_length (hB pe h0).1
      omega

/-- **re-attaching in listing order reproduces every entry**: if the entries listed before `e` are in place, attaching
    `e.node` under `e.parent` appends exactly `e` (same key). -/
theorem reattach_sorted {g : List Entry} (h : TreeOk g) {S : List Entry} (hperm : S.Perm g)
    (hs : StrictSorted S) {A B : List Entry} {e : Entry} (hS : S = A ++ e :: B) :
    attach A e.parent e.node = A ++ [e] := by
  rw [attach_eq_baseKey]
  have heg : e ∈ g := hperm.mem_iff.mp (by rw [hS]; simp)
  obtain ⟨i, hi, _⟩ := h.key e heg
  have hcount := sib_count_sorted h hperm hs e.parent i A e B hS rfl hi
  have hbase : baseKey A e.parent = baseKey g e.parent := by
    cases hq : e.parent with
    | none => rfl
    | some q =>
      obtain ⟨pe, hpA, hpn, hpg⟩ := parent_before h hperm hs hS hq
      have hAnd : (A.map (·.node)).Nodup := hs.nodes_prefix hS
      rw [baseKey_of_mem hAnd hpA hpn, baseKey_of_mem h.nodup hpg hpn]
  rw [hcount, hbase, ← hi]

/-- everything listed before a root entry is a root entry with a smaller sibling index. -/
theorem root_before {g : List Entry} (h : TreeOk g) {S : List Entry} (hperm : S.Perm g)
    (hs : StrictSorted S) {A B : List Entry} {e : Entry} (hS : S = A ++ e :: B)
    (hroot : e.parent = none) :
    ∀ a ∈ A, a ∈ g ∧ a.parent = none ∧ ∃ i j, e.key = [i] ∧ a.key = [j] ∧ j < i := by
  intro a ha
  obtain ⟨hA, _⟩ := hs.split hS
  have heg : e ∈ g := hperm.mem_iff.mp (by rw [hS]; simp)
  have hag : a ∈ g := hperm.mem_iff.mp (by rw [hS]; simp [ha])
  obtain ⟨i, hi, _⟩ := h.key e heg
  rw [hroot] at hi
  simp only [baseKey, List.nil_append] at hi
  obtain ⟨j, hj, _⟩ := h.key a hag
  obtain ⟨hle, hne⟩ := hA a ha
  have hlen := entryLe_length hle
  rw [hi, hj] at hlen
  simp only [List.length_append, List.length_cons, List.length_nil] at hlen
  have hap : a.parent = none := by
    cases hq : a.parent with
    | none => rfl
    | some q =>
      obtain ⟨pe, hpeg, hpn⟩ := h.par a hag q hq
      obtain ⟨k, hk, _⟩ := h.key pe hpeg
      rw [hq, baseKey_of_mem h.nodup hpeg hpn, hk] at hlen
      simp at hlen
  rw [hap] at hj
  simp only [baseKey, List.nil_append] at hj
  refine ⟨hag, hap, i, j, hi, hj, ?_⟩
  unfold entryLe at hle
  rw [hi, hj] at hle
  have hji : j ≤ i := keyLe_sib (bk := []) hle
  by_cases hji' : j = i
  · subst hji'
    have := h.sibinj a hag e heg (hap.trans hroot.symm) (hj.trans hi.symm)
    exact absurd (by rw [this]) hne
  · omega

/-! ### Part 2: the heap -/

def chMatch (a b : List ChId) : Bool := a.any (fun x => b.any (fun y => x.matches y))

theorem leafAtAny_eq (w : World) (g : List Entry) (chs : List ChId) :
    w.leafAtAny g chs = (listing g).reverse.find? (fun n => chMatch chs (w.chansOf n)) := rfl

theorem leafAtAny_none_iff (w : World) (g : List Entry) (chs : List ChId) :
    w.leafAtAny g chs = none ↔ ∀ n ∈ listing g, chMatch chs (w.chansOf n) = false := by
  rw [leafAtAny_eq, List.find?_eq_none]
  simp

theorem leafAtAny_some_inGraph {w : World} {g : List Entry} {chs : List ChId} {lf : Nat}
    (h : w.leafAtAny g chs = some lf) : ∃ e ∈ g, e.node = lf := by
  rw [leafAtAny_eq] at h
  have := List.mem_of_find?_eq_some h
  rw [List.mem_reverse] at this
  exact mem_listing_iff.mp this

theorem chansOf_leaf (w : World) (o : Nat) (h : (w.op o).isComp = false) : w.chansOf o = (w.op o).leafChans := by
  simp [World.chansOf, World.depthFuel, World.chans, h]

theorem leafChans_noLink {a b : Op} (h : a.noLink = b.noLink) : a.leafChans = b.leafChans := by
  have h1 : a.cls = b.cls := show a.noLink.cls = b.noLink.cls from congrArg Op.cls h
  have h2 : a.qs = b.qs := show a.noLink.qs = b.noLink.qs from congrArg Op.qs h
  have h3 : a.chan = b.chan := show a.noLink.chan = b.noLink.chan from congrArg Op.chan h
  unfold Op.leafChans
  rw [h1, h2, h3]

theorem isComp_noLink {a b : Op} (h : a.noLink = b.noLink) : a.isComp = b.isComp := by
  have h1 : a.cls = b.cls := show a.noLink.cls = b.noLink.cls from congrArg Op.cls h
  unfold Op.isComp; rw [h1]

theorem hasRel_false_iff (w : World) (o : Nat) : w.hasRel o = false ↔ (w.lnk (w.op o).link).refs = [] := by
  simp [World.hasRel]

theorem hasRel_true_iff (w : World) (o : Nat) : w.hasRel o = true ↔ (w.lnk (w.op o).link).refs ≠ [] := by
  simp [World.hasRel]

theorem refOf_single (w : World) (l : Nat) (h : (w.lnk l).multi = false) : w.refOf l = some (w.lnk l).refs.head? := by
  simp [World.refOf, h]

theorem op_of_ops_eq {w1 w2 : World} (h : w1.ops = w2.ops) (j : Nat) : w1.op j = w2.op j := by
  unfold World.op; rw [h]

theorem lnk_of_links_eq {w1 w2 : World} (h : w1.links = w2.links) (l : Nat) : w1.lnk l = w2.lnk l := by
  unfold World.lnk; rw [h]

/-- what a step of the rebuild may change: the links of the operations in `ops`, and new links are appended. -/
structure Frame (w w' : World) (ops : List Nat) : Prop where
  size : w'.ops.size = w.ops.size
  other : ∀ j, j ∉ ops → w'.op j = w.op j
  shape : ∀ j, (w'.op j).noLink = (w.op j).noLink
  lnk : ∀ l, l < w.links.size → w'.lnk l = w.lnk l
  lsize : w.links.size ≤ w'.links.size

theorem Frame.refl (w : World) (ops : List Nat) : Frame w w ops :=
  ⟨rfl, fun _ _ => rfl, fun _ => rfl, fun _ _ => rfl, Nat.le_refl _⟩

theorem Frame.cons {w w' w'' : World} {o : Nat} {os : List Nat} (h1 : Frame w w' [o]) (h2 : Frame w' w'' os) :
    Frame w w'' (o :: os) := by
  refine ⟨h2.size.trans h1.size, ?_, fun j => (h2.shape j).trans (h1.shape j), ?_, Nat.le_trans h1.lsize h2.lsize⟩
  · intro j hj
    simp only [List.mem_cons, not_or] at hj
    rw [h2.other j hj.2, h1.other j (by simpa using hj.1)]
  · intro l hl
    rw [h2.lnk l (Nat.lt_of_lt_of_le hl h1.lsize), h1.lnk l hl]

theorem relink_world (w w0 : World) (L : Link) (o : Nat) (h1 : w0.ops = w.ops) (h2 : w0.links = w.links)
    (ho : o < w.ops.size) :
    Frame w ((w0.newLink L).1.setLink o w0.links.size) [o] ∧
    (((w0.newLink L).1.setLink o w0.links.size).op o).link = w.links.size ∧
    ((w0.newLink L).1.setLink o w0.links.size).lnk w.links.size = L ∧
    ((w0.newLink L).1.setLink o w0.links.size).links.size = w.links.size + 1 := by
  have hop : ∀ j, (w0.newLink L).1.op j = w.op j := fun j => op_of_ops_eq (w1 := (w0.newLink L).1) h1 j
  have hsz : (w0.newLink L).1.ops.size = w.ops.size := by show w0.ops.size = _; rw [h1]
  have hlinks : ((w0.newLink L).1.setLink o w0.links.size).links = w.links.push L := by
    rw [setLink_links]; show w0.links.push L = _; rw [h2]
  refine ⟨⟨?_, ?_, ?_, ?_, ?_⟩, ?_, ?_, ?_⟩
  · rw [setLink_size, hsz]
  · intro j hj
    have hj' : o ≠ j := fun h => hj (by simp [h])
    unfold World.setLink
    rw [op_setOp]
    simp only [hj', false_and, if_false]
    exact hop j
  · intro j
    rw [noLink_setLink, hop]
  · intro l hl
    unfold World.lnk
    rw [hlinks, Array.getD_eq_getD_getElem?, Array.getD_eq_getD_getElem?, Array.getElem?_push_lt hl]
    simp [hl]
  · rw [hlinks]; simp
  · unfold World.setLink
    rw [op_setOp]
    simp only [hsz, ho, and_self, if_true, h2]
  · unfold World.lnk
    rw [hlinks, Array.getD_eq_getD_getElem?]
    simp
  · rw [hlinks]; simp

/-- the two outcomes of the `relink` branch of `add_to_graph`. -/
def Relinked (w : World) (g : List Entry) (o : Nat) (leaf : Option Nat) (res : World × List Entry) : Prop :=
  ∃ w0 : World, w0.ops = w.ops ∧ w0.links = w.links ∧
    ((leaf = none ∧ res = ((w0.newLink {}).1.setLink o w0.links.size, attach g none o)) ∨
     (∃ lf, leaf = some lf ∧
        res = ((w0.newLink { refs := [lf] }).1.setLink o w0.links.size, attach g (some lf) o)))

theorem relinked_intro (w : World) (g : List Entry) (o : Nat) (leaf : Option Nat) (w0 : World)
    (h1 : w0.ops = w.ops) (h2 : w0.links = w.links) :
    Relinked w g o leaf (match leaf with
        | none => ((w0.newLink { }).fst.setLink o (w0.newLink { }).snd, attach g none o)
        | some lf => ((w0.newLink { refs := [lf] }).fst.setLink o (w0.newLink { refs := [lf] }).snd,
            attach g (some lf) o)) := by
  refine ⟨w0, h1, h2, ?_⟩
  cases leaf with
  | none => exact Or.inl ⟨rfl, rfl⟩
  | some lf => exact Or.inr ⟨lf, rfl, rfl⟩

theorem addToGraph_norel (w : World) (g : List Entry) (o : Nat) (hb : w.hasRel o = false) :
    (w.leafAtAny g (w.chansOf o) = none ∧ w.addToGraph g o = (w, attach g none o)) ∨
    Relinked w g o (w.leafAtAny g (w.chansOf o)) (w.addToGraph g o) := by
  unfold World.addToGraph
  simp only [hb, Bool.not_false, if_true]
  cases hleaf : w.leafAtAny g (w.chansOf o) with
  | none => exact Or.inl ⟨rfl, rfl⟩
  | some lf => exact Or.inr (relinked_intro w g o (some lf) w rfl rfl)

theorem addToGraph_rel (w : World) (g : List Entry) (o : Nat) (hb : w.hasRel o = true) :
    (∃ r, w.refOf (w.op o).link = some (some r) ∧ inGraph g r = true ∧
      w.addToGraph g o = (w, attach g (some r) o)) ∨
    Relinked w g o (w.leafAtAny g (w.chansOf o)) (w.addToGraph g o) := by
  unfold World.addToGraph
  simp only [hb, Bool.not_true, Bool.false_eq_true, if_false]
  split
  · rename_i r href
    split
    · rename_i hin
      exact Or.inl ⟨r, href, hin, rfl⟩
    · exact Or.inr (relinked_intro w g o _ { w with warnings := w.warnings + 1 } rfl rfl)
  · exact Or.inr (relinked_intro w g o _ { w with warnings := w.warnings + 1, undef := true } rfl rfl)

/-- what one `add_to_graph` step guarantees about the added operation `o` (an existing object whose link is an
    existing link that is not a group link unless it is empty). -/
structure StepOk (w : World) (g : List Entry) (o : Nat) (w' : World) (g' : List Entry) (p : Option Nat) : Prop where
  graph : g' = attach g p o
  frame : Frame w w' [o]
  inr : (w'.op o).link < w'.links.size
  root : p = none → w.leafAtAny g (w.chansOf o) = none ∧ (w'.lnk (w'.op o).link).refs = []
  child : ∀ q, p = some q → (∃ e ∈ g, e.node = q) ∧ (w'.lnk (w'.op o).link).multi = false ∧
    (w'.lnk (w'.op o).link).refs.head? = some q

theorem relinked_spec (w : World) (g : List Entry) (o : Nat) (ho : o < w.ops.size) (res : World × List Entry)
    (h : Relinked w g o (w.leafAtAny g (w.chansOf o)) res) : ∃ p, StepOk w g o res.1 res.2 p := by
  obtain ⟨w0, h1, h2, h | ⟨lf, hlf, h⟩⟩ := h
  · obtain ⟨hleaf, hres⟩ := h
    obtain ⟨f1, f2, f3, f4⟩ := relink_world w w0 {} o h1 h2 ho
    rw [hres]
    refine ⟨none, rfl, f1, by rw [f2, f4]; omega, fun _ => ⟨hleaf, by rw [f2, f3]⟩, fun q hq => by cases hq⟩
  · obtain ⟨f1, f2, f3, f4⟩ := relink_world w w0 { refs := [lf] } o h1 h2 ho
    rw [h]
    refine ⟨some lf, rfl, f1, by rw [f2, f4]; omega, (fun hq => by cases hq), ?_⟩
    intro q hq
    cases hq
    exact ⟨leafAtAny_some_inGraph hlf, by rw [f2, f3], by rw [f2, f3]; rfl⟩

theorem addToGraph_spec (w : World) (g : List Entry) (o : Nat) (ho : o < w.ops.size)
    (hl : (w.op o).link < w.links.size)
    (hm : (w.lnk (w.op o).link).refs = [] ∨ (w.lnk (w.op o).link).multi = false) :
    ∃ p, StepOk w g o (w.addToGraph g o).1 (w.addToGraph g o).2 p := by
  cases hb : w.hasRel o with
  | false =>
    rcases addToGraph_norel w g o hb with ⟨hleaf, hres⟩ | h
    · rw [hres]
      exact ⟨none, rfl, Frame.refl _ _, hl, fun _ => ⟨hleaf, (hasRel_false_iff w o).mp hb⟩, fun q hq => by cases hq⟩
    · exact relinked_spec w g o ho _ h
  | true =>
    rcases addToGraph_rel w g o hb with ⟨r, href, hin, hres⟩ | h
    · rw [hres]
      have hne := (hasRel_true_iff w o).mp hb
      have hmulti : (w.lnk (w.op o).link).multi = false := hm.resolve_left hne
      rw [refOf_single w _ hmulti] at href
      refine ⟨some r, rfl, Frame.refl _ _, hl, (fun hq => by cases hq), ?_⟩
      intro q hq
      cases hq
      exact ⟨inGraph_iff.mp hin, hmulti, by simpa using href⟩
    · exact relinked_spec w g o ho _ h

/-! ### the invariant of the rebuild loop -/

/-- invariant of the rebuild loop of `flatten` (graph `g` under construction in heap `w`): the graph is a tree built
    by `attach`, all its nodes are leaf operations, the link of a node under the root names no reference, the link of a
    node under `p` is a plain link whose reference is `p`, and a root node shares no channel with the root nodes
    inserted before it. -/
structure FlatOk (w : World) (g : List Entry) : Prop where
  tree : TreeOk g
  leaf : ∀ e ∈ g, (w.op e.node).isComp = false
  rootL : ∀ e ∈ g, e.parent = none → (w.lnk (w.op e.node).link).refs = []
  childL : ∀ e ∈ g, ∀ p, e.parent = some p →
    (w.lnk (w.op e.node).link).multi = false ∧ (w.lnk (w.op e.node).link).refs.head? = some p
  free : ∀ e ∈ g, ∀ e' ∈ g, e.parent = none → e'.parent = none → ∀ i j, e.key = [i] → e'.key = [j] → j < i →
    chMatch (w.op e.node).leafChans (w.op e'.node).leafChans = false

/-- the links of the nodes are existing links (so that appending links does not disturb them). -/
def RangeOk (w : World) (g : List Entry) : Prop := ∀ e ∈ g, (w.op e.node).link < w.links.size

theorem flatOk_nil (w : World) : FlatOk w [] :=
  ⟨treeOk_nil, (by intro e he; cases he), (by intro e he; cases he), (by intro e he; cases he),
   (by intro e he; cases he)⟩

theorem FlatOk.step {w w' : World} {g g' : List Entry} {o : Nat} {p : Option Nat} (h : FlatOk w g)
    (hr : RangeOk w g) (hs : StepOk w g o w' g' p) (hfresh : ∀ e ∈ g, e.node ≠ o)
    (hleaf : (w.op o).isComp = false) : FlatOk w' g' ∧ RangeOk w' g' := by
  have hg' := hs.graph
  rw [attach_eq_baseKey] at hg'
  generalize hx : ({ node := o, parent := p, key := baseKey g p ++ [sibCount g p] } : Entry) = x at hg'
  have hxn : x.node = o := by rw [← hx]
  have hxp : x.parent = p := by rw [← hx]
  have hxk : x.key = baseKey g p ++ [sibCount g p] := by rw [← hx]
  have hop : ∀ e ∈ g, w'.op e.node = w.op e.node := by
    intro e he
    exact hs.frame.other _ (by simpa using hfresh e he)
  have hlnk : ∀ e ∈ g, w'.lnk (w'.op e.node).link = w.lnk (w.op e.node).link := by
    intro e he
    rw [hop e he, hs.frame.lnk _ (hr e he)]
  have hopo : (w'.op o).leafChans = (w.op o).leafChans := leafChans_noLink (hs.frame.shape o)
  have hmem : ∀ e, e ∈ g' ↔ e ∈ g ∨ e = x := by
    intro e; rw [hg']; simp
  refine ⟨⟨?_, ?_, ?_, ?_, ?_⟩, ?_⟩
  · rw [hs.graph]
    exact h.tree.attach p o hfresh (fun q hq => (hs.child q hq).1)
  · intro e he
    rcases (hmem e).mp he with he | he
    · rw [hop e he]; exact h.leaf e he
    · rw [he, hxn, isComp_noLink (hs.frame.shape o)]; exact hleaf
  · intro e he hroot
    rcases (hmem e).mp he with he | he
    · rw [hlnk e he]; exact h.rootL e he hroot
    · rw [he, hxp] at hroot
      rw [he, hxn]
      exact (hs.root hroot).2
  · intro e he q hq
    rcases (hmem e).mp he with he | he
    · rw [hlnk e he]; exact h.childL e he q hq
    · rw [he, hxp] at hq
      rw [he, hxn]
      exact (hs.child q hq).2
  · intro e he e' he' hroot hroot' i j hi hj hji
    rcases (hmem e).mp he with he | he <;> rcases (hmem e').mp he' with he' | he'
    · rw [hop e he, hop e' he']
      exact h.free e he e' he' hroot hroot' i j hi hj hji
    · -- `e` old, `e'` new: the new root has the largest index
      exfalso
      obtain ⟨i', hi1, hi2⟩ := h.tree.key e he
      rw [hroot] at hi1 hi2
      rw [he', hxp] at hroot'
      rw [he', hxk, hroot'] at hj
      simp only [baseKey, List.nil_append] at hi1 hj
      rw [hi1] at hi
      simp only [List.cons.injEq, and_true] at hi hj
      omega
    · -- `e` new root, `e'` old: `leafAtAny` found nothing when `e` was added
      rw [he, hxp] at hroot
      rw [he, hxn, hopo, hop e' he']
      have hnone := (leafAtAny_none_iff w g (w.chansOf o)).mp (hs.root hroot).1 e'.node
        (mem_listing_iff.mpr ⟨e', he', rfl⟩)
      rw [chansOf_leaf w o hleaf, chansOf_leaf w e'.node (h.leaf e' he')] at hnone
      exact hnone
    · exfalso
      rw [he] at hi; rw [he'] at hj
      rw [hi] at hj
      simp only [List.cons.injEq, and_true] at hj
      omega
  · intro e he
    rcases (hmem e).mp he with he | he
    · rw [hop e he]
      exact Nat.lt_of_lt_of_le (hr e he) hs.frame.lsize
    · rw [he, hxn]; exact hs.inr

/-- what the rebuild loop needs of an operation it is going to add. -/
def OpOk (w : World) (o : Nat) : Prop :=
  o < w.ops.size ∧ (w.op o).isComp = false ∧ (w.op o).link < w.links.size ∧
    ((w.lnk (w.op o).link).refs = [] ∨ (w.lnk (w.op o).link).multi = false)

theorem OpOk.frame {w w' : World} {o o' : Nat} (hf : Frame w w' [o]) (hne : o' ≠ o) (h : OpOk w o') : OpOk w' o' := by
  obtain ⟨h1, h2, h3, h4⟩ := h
  have hop : w'.op o' = w.op o' := hf.other o' (by simpa using hne)
  refine ⟨by rw [hf.size]; exact h1, by rw [hop]; exact h2, ?_, ?_⟩
  · rw [hop]; exact Nat.lt_of_lt_of_le h3 hf.lsize
  · rw [hop, hf.lnk _ h3]; exact h4

/-- the rebuild loop of `flatten` (this is literally the fold `World.flatten` runs). -/
def rebuild (ops : List Nat) (w : World) (g : List Entry) : World × List Entry :=
  ops.foldl (fun (acc : World × List Entry) o => acc.1.addToGraph acc.2 o) (w, g)

theorem rebuild_ok : ∀ (ops : List Nat) (w : World) (g : List Entry), FlatOk w g → RangeOk w g → ops.Nodup →
    (∀ o ∈ ops, ∀ e ∈ g, e.node ≠ o) → (∀ o ∈ ops, OpOk w o) →
    FlatOk (rebuild ops w g).1 (rebuild ops w g).2 ∧ Frame w (rebuild ops w g).1 ops := by
  intro ops
  induction ops with
  | nil => intro w g h _ _ _ _; exact ⟨h, Frame.refl _ _⟩
  | cons o os ih =>
    intro w g h hr hnd hfresh hok
    obtain ⟨ho1, ho2, ho3, ho4⟩ := hok o List.mem_cons_self
    obtain ⟨p, hs⟩ := addToGraph_spec w g o ho1 ho3 ho4
    obtain ⟨h', hr'⟩ := h.step hr hs (hfresh o List.mem_cons_self) ho2
    rw [List.nodup_cons] at hnd
    have hfresh' : ∀ o' ∈ os, ∀ e ∈ (w.addToGraph g o).2, e.node ≠ o' := by
      intro o' ho' e he
      rw [hs.graph, attach_eq_baseKey] at he
      rcases List.mem_append.mp he with he | he
      · exact hfresh o' (List.mem_cons_of_mem _ ho') e he
      · simp only [List.mem_singleton] at he
        rw [he]
        intro heq
        exact hnd.1 (by rw [show o = o' from heq]; exact ho')
    have hok' : ∀ o' ∈ os, OpOk (w.addToGraph g o).1 o' := by
      intro o' ho'
      refine (hok o' (List.mem_cons_of_mem _ ho')).frame hs.frame ?_
      intro heq
      exact hnd.1 (heq ▸ ho')
    obtain ⟨i1, i2⟩ := ih (w.addToGraph g o).1 (w.addToGraph g o).2 h' hr' hnd.2 hfresh' hok'
    exact ⟨i1, hs.frame.cons i2⟩

/-! ### moving the invariant to a heap with the same leaf data and the same relations -/

/-- same class, qubits and channel field for every object. -/
def SameLeaf (w w' : World) : Prop :=
  ∀ j, (w'.op j).cls = (w.op j).cls ∧ (w'.op j).qs = (w.op j).qs ∧ (w'.op j).chan = (w.op j).chan

/-- same references for every object, and the same kind of link wherever there is a reference. -/
def SameRel (w w' : World) : Prop :=
  ∀ j, (w'.lnk (w'.op j).link).refs = (w.lnk (w.op j).link).refs ∧
    ((w.lnk (w.op j).link).refs ≠ [] → (w'.lnk (w'.op j).link).multi = (w.lnk (w.op j).link).multi)

theorem FlatOk.transfer {w w' : World} {g : List Entry} (h : FlatOk w g) (hl : SameLeaf w w') (hr : SameRel w w') :
    FlatOk w' g := by
  have hcomp : ∀ j, (w'.op j).isComp = (w.op j).isComp := by
    intro j; unfold Op.isComp; rw [(hl j).1]
  have hch : ∀ j, (w'.op j).leafChans = (w.op j).leafChans := by
    intro j; unfold Op.leafChans; rw [(hl j).1, (hl j).2.1, (hl j).2.2]
  refine ⟨h.tree, ?_, ?_, ?_, ?_⟩
  · intro e he; rw [hcomp]; exact h.leaf e he
  · intro e he hroot; rw [(hr e.node).1]; exact h.rootL e he hroot
  · intro e he p hp
    obtain ⟨h1, h2⟩ := h.childL e he p hp
    have hne : (w.lnk (w.op e.node).link).refs ≠ [] := by
      intro h0; rw [h0] at h2; cases h2
    rw [(hr e.node).1, (hr e.node).2 hne]
    exact ⟨h1, h2⟩
  · intro e he e' he' hroot hroot' i j hi hj hji
    rw [hch, hch]
    exact h.free e he e' he' hroot hroot' i j hi hj hji

theorem op_setGraph (w : World) (c : Nat) (g : List Entry) (j : Nat) :
    (w.setGraph c g).op j = if c = j ∧ c < w.ops.size then { w.op c with graph := g } else w.op j := by
  unfold World.setGraph; rw [op_setOp]

theorem setGraph_link (w : World) (c : Nat) (g : List Entry) (j : Nat) :
    ((w.setGraph c g).op j).link = (w.op j).link := by
  rw [op_setGraph]
  split
  · rename_i h; rw [← h.1]
  · rfl

theorem setGraph_links (w : World) (c : Nat) (g : List Entry) : (w.setGraph c g).links = w.links := rfl

theorem setGraph_ops_size (w : World) (c : Nat) (g : List Entry) : (w.setGraph c g).ops.size = w.ops.size := by
  simp [World.setGraph, World.setOp]

theorem setGraph_graph_self (w : World) (c : Nat) (g : List Entry) (h : c < w.ops.size) :
    ((w.setGraph c g).op c).graph = g := by
  rw [op_setGraph]; simp [h]

theorem setGraph_sameLeaf (w : World) (c : Nat) (g : List Entry) : SameLeaf w (w.setGraph c g) := by
  intro j
  rw [op_setGraph]
  split
  · rename_i h; rw [← h.1]; exact ⟨rfl, rfl, rfl⟩
  · exact ⟨rfl, rfl, rfl⟩

theorem setGraph_sameRel (w : World) (c : Nat) (g : List Entry) : SameRel w (w.setGraph c g) := by
  intro j
  rw [setGraph_link, lnk_of_links_eq (setGraph_links w c g)]
  exact ⟨rfl, fun _ => rfl⟩

/-! ### the listing of a flat circuit -/

/-- what `decomposed_operations` does to the heap when every node is a leaf operation: relation-less nodes get the
    link `cl` of the circuit. -/
def handDown (w : World) (cl : Nat) (L : List Nat) : World :=
  L.foldl (fun w n => if !w.hasRel n then w.setLink n cl else w) w

theorem handDown_cons (w : World) (cl n : Nat) (L : List Nat) :
    handDown w cl (n :: L) = handDown (if !w.hasRel n then w.setLink n cl else w) cl L := rfl

theorem isComp_setLink (w : World) (i l j : Nat) : ((w.setLink i l).op j).isComp = (w.op j).isComp :=
  isComp_noLink (noLink_setLink w i l j)

theorem decomposed_flat_aux (f cl : Nat) : ∀ (L : List Nat) (w : World) (out : List Nat),
    (∀ n ∈ L, (w.op n).isComp = false) →
    L.foldl (fun (acc : World × List Nat) n =>
      let (w, out) := acc
      let w := if !w.hasRel n then w.setLink n cl else w
      if (w.op n).isComp then
        let (w, sub) := w.decomposed f n
        (w, out ++ sub)
      else (w, out ++ [n])) (w, out) = (handDown w cl L, out ++ L) := by
  intro L
  induction L with
  | nil => intro w out _; simp [handDown]
  | cons n ns ih =>
    intro w out hflat
    rw [List.foldl_cons, handDown_cons]
    have hstep : ∀ m, ((if !w.hasRel n then w.setLink n cl else w).op m).isComp = (w.op m).isComp := by
      intro m; split
      · exact isComp_setLink w n cl m
      · rfl
    have hn : ((if !w.hasRel n then w.setLink n cl else w).op n).isComp = false := by
      rw [hstep]; exact hflat n List.mem_cons_self
    simp only [hn, Bool.false_eq_true, if_false]
    rw [ih _ _ (fun m hm => by rw [hstep]; exact hflat m (List.mem_cons_of_mem _ hm))]
    simp

theorem decomposed_flat (f c : Nat) (w : World) (hflat : ∀ n ∈ listing (w.op c).graph, (w.op n).isComp = false) :
    w.decomposed (f + 1) c =
      (handDown w (w.op c).link (listing (w.op c).graph), listing (w.op c).graph) := by
  rw [World.decomposed]
  have := decomposed_flat_aux f (w.op c).link (listing (w.op c).graph) w [] hflat
  simpa using this

/-- effect of `handDown` when the handed-down link names no reference. -/
structure HD (w w' : World) : Prop where
  links : w'.links = w.links
  size : w'.ops.size = w.ops.size
  shape : ∀ j, (w'.op j).noLink = (w.op j).noLink
  refs : ∀ j, (w'.lnk (w'.op j).link).refs = (w.lnk (w.op j).link).refs
  keep : ∀ j, w.hasRel j = true → (w'.op j).link = (w.op j).link
  leafDur : ∀ d, w'.leafDur d = w.leafDur d

theorem leafDur_setOp (w : World) (i : Nat) (o : Op) (d : Dur) : (w.setOp i o).leafDur d = w.leafDur d := by
  cases d with
  | fixed x => rfl
  | glob k => cases k <;> rfl
  | reg key => rfl
  | decoupling => rfl

theorem HD.refl (w : World) : HD w w := ⟨rfl, rfl, fun _ => rfl, fun _ => rfl, fun _ _ => rfl, fun _ => rfl⟩

theorem HD.trans {a b c : World} (h1 : HD a b) (h2 : HD b c) : HD a c := by
  refine ⟨h2.links.trans h1.links, h2.size.trans h1.size, fun j => (h2.shape j).trans (h1.shape j),
    fun j => (h2.refs j).trans (h1.refs j), ?_, fun d => (h2.leafDur d).trans (h1.leafDur d)⟩
  intro j hj
  have hb : b.hasRel j = true := by
    rw [hasRel_true_iff] at hj ⊢
    rw [h1.refs j]; exact hj
  rw [h2.keep j hb, h1.keep j hj]

theorem HD.step (w : World) (cl n : Nat) (hcl : (w.lnk cl).refs = []) :
    HD w (if !w.hasRel n then w.setLink n cl else w) := by
  cases hb : w.hasRel n with
  | true => simp only [Bool.not_true, Bool.false_eq_true, if_false]; exact HD.refl w
  | false =>
    simp only [Bool.not_false, if_true]
    have hop : ∀ j, (w.setLink n cl).op j = if n = j ∧ n < w.ops.size then { w.op n with link := cl } else w.op j := by
      intro j; unfold World.setLink; rw [op_setOp]
    refine ⟨setLink_links w n cl, setLink_size w n cl, fun j => noLink_setLink w n cl j, ?_, ?_,
      fun d => leafDur_setOp w n _ d⟩
    · intro j
      rw [lnk_of_links_eq (setLink_links w n cl), hop]
      split
      · rename_i h
        rw [← h.1, (hasRel_false_iff w n).mp hb]
        exact hcl
      · rfl
    · intro j hj
      rw [hop]
      split
      · rename_i h
        rw [← h.1, hb] at hj; cases hj
      · rfl

theorem handDown_spec (cl : Nat) : ∀ (L : List Nat) (w : World), (w.lnk cl).refs = [] → HD w (handDown w cl L) := by
  intro L
  induction L with
  | nil => intro w _; exact HD.refl w
  | cons n ns ih =>
    intro w hcl
    rw [handDown_cons]
    have h1 := HD.step w cl n hcl
    have hcl' : ((if !w.hasRel n then w.setLink n cl else w).lnk cl).refs = [] := by
      rw [lnk_of_links_eq h1.links]; exact hcl
    exact h1.trans (ih _ hcl')

theorem HD.sameLeaf {w w' : World} (h : HD w w') : SameLeaf w w' := by
  intro j
  have := h.shape j
  exact ⟨show (w'.op j).noLink.cls = (w.op j).noLink.cls from congrArg Op.cls this,
    show (w'.op j).noLink.qs = (w.op j).noLink.qs from congrArg Op.qs this,
    show (w'.op j).noLink.chan = (w.op j).noLink.chan from congrArg Op.chan this⟩

theorem HD.sameRel {w w' : World} (h : HD w w') : SameRel w w' := by
  intro j
  refine ⟨h.refs j, ?_⟩
  intro hne
  rw [h.keep j ((hasRel_true_iff w j).mpr hne), lnk_of_links_eq h.links]

/-! ### the second rebuild: every step is a "keep" step and reproduces the entry -/

theorem addToGraph_keep_root (w : World) (g : List Entry) (o : Nat) (hb : w.hasRel o = false)
    (hleaf : w.leafAtAny g (w.chansOf o) = none) : w.addToGraph g o = (w, attach g none o) := by
  unfold World.addToGraph
  simp only [hb, hleaf, Bool.not_false, if_true]

theorem addToGraph_keep_child (w : World) (g : List Entry) (o r : Nat) (hb : w.hasRel o = true)
    (href : w.refOf (w.op o).link = some (some r)) (hin : inGraph g r = true) :
    w.addToGraph g o = (w, attach g (some r) o) := by
  unfold World.addToGraph
  simp only [hb, href, hin, Bool.not_true, Bool.false_eq_true, if_false, if_true]

theorem addToGraph_fixed {w : World} {g : List Entry} (h : FlatOk w g) {S : List Entry} (hperm : S.Perm g)
    (hs : StrictSorted S) {A B : List Entry} {e : Entry} (hS : S = A ++ e :: B) :
    w.addToGraph A e.node = (w, A ++ [e]) := by
  have heg : e ∈ g := hperm.mem_iff.mp (by rw [hS]; simp)
  have hre := reattach_sorted h.tree hperm hs hS
  cases hq : e.parent with
  | none =>
    rw [hq] at hre
    rw [← hre]
    apply addToGraph_keep_root
    · exact (hasRel_false_iff w e.node).mpr (h.rootL e heg hq)
    · rw [leafAtAny_none_iff]
      intro n hn
      obtain ⟨a, haA, han⟩ := mem_listing_iff.mp hn
      obtain ⟨hag, hap, i, j, hi, hj, hji⟩ := root_before h.tree hperm hs hS hq a haA
      rw [← han, chansOf_leaf w e.node (h.leaf e heg), chansOf_leaf w a.node (h.leaf a hag)]
      exact h.free e heg a hag hq hap i j hi hj hji
  | some q =>
    rw [hq] at hre
    rw [← hre]
    obtain ⟨h1, h2⟩ := h.childL e heg q hq
    have hne : (w.lnk (w.op e.node).link).refs ≠ [] := by
      intro h0; rw [h0] at h2; cases h2
    apply addToGraph_keep_child
    · exact (hasRel_true_iff w e.node).mpr hne
    · rw [refOf_single w _ h1, h2]
    · obtain ⟨pe, hpA, hpn, _⟩ := parent_before h.tree hperm hs hS hq
      exact inGraph_iff.mpr ⟨pe, hpA, hpn⟩

theorem rebuild_cons (o : Nat) (os : List Nat) (w : World) (g : List Entry) :
    rebuild (o :: os) w g = rebuild os (w.addToGraph g o).1 (w.addToGraph g o).2 := rfl

/-- **the second rebuild reproduces the graph in listing order and leaves the heap alone.** -/
theorem rebuild_fixed {w : World} {g : List Entry} (h : FlatOk w g) {S : List Entry} (hperm : S.Perm g)
    (hs : StrictSorted S) : ∀ (B A : List Entry), S = A ++ B → rebuild (B.map (·.node)) w A = (w, S) := by
  intro B
  induction B with
  | nil => intro A hS; rw [hS]; simp [rebuild]
  | cons e B ih =>
    intro A hS
    rw [List.map_cons, rebuild_cons, addToGraph_fixed h hperm hs hS]
    exact ih (A ++ [e]) (by rw [hS]; simp)

/-! ### flatten twice -/

theorem flatten_eq_rebuild (w : World) (c : Nat) :
    w.flatten c = (rebuild (w.operations c).2 (w.operations c).1 []).1.setGraph c
      (rebuild (w.operations c).2 (w.operations c).1 []).2 := rfl

/-- well-formedness of the circuit `c` of heap `w` needed for "flattening again changes nothing"
    (all about identifiers being in range and the heap being tree shaped around `c`):
    with `(w₁, ops) = w.operations c` (the listing, which hands enclosing links down),
    * `link_in`   the link of `c` is an existing link,
    * `link_kept` listing `c` does not re-link `c` itself (`c` is not nested inside itself),
    * `not_self`  `c` is not one of its own operations (true when `c` is a sub-circuit object: the listing only contains
                  leaf operations),
    * `nodup`     no operation object is listed twice,
    * `ops_in`    every listed operation is an existing object whose link is an existing link. -/
structure FlattenWf (w : World) (c : Nat) : Prop where
  link_in : (w.op c).link < w.links.size
  link_kept : ((w.operations c).1.op c).link = (w.op c).link
  not_self : c ∉ (w.operations c).2
  nodup : (w.operations c).2.Nodup
  ops_in : ∀ o ∈ (w.operations c).2, o < w.ops.size ∧ ((w.operations c).1.op o).link < w.links.size

/-- the state after the first flatten: the invariant holds for the new graph in the flattened heap, and the link of
    `c` still names no reference. -/
theorem flatten_flatOk (w : World) (c : Nat) (hc : c < w.ops.size)
    (htop : (w.lnk (w.op c).link).refs = [])
    (hsingle : ∀ o ∈ (w.operations c).2,
      ((w.operations c).1.lnk (((w.operations c).1.op o).link)).refs = [] ∨
      ((w.operations c).1.lnk (((w.operations c).1.op o).link)).multi = false)
    (hleaf : ∀ o ∈ (w.operations c).2, (w.op o).isComp = false)
    (hwf : FlattenWf w c) :
    FlatOk (w.flatten c) ((w.flatten c).op c).graph ∧ c < (w.flatten c).ops.size ∧
    ((w.flatten c).lnk ((w.flatten c).op c).link).refs = [] := by
  have hsz1 := operations_ops_size w c
  have hlk1 := operations_links w c
  have hsh1 := operations_shape w c
  have hok : ∀ o ∈ (w.operations c).2, OpOk (w.operations c).1 o := by
    intro o ho
    obtain ⟨r1, r2⟩ := hwf.ops_in o ho
    refine ⟨by rw [hsz1]; exact r1, by rw [hsh1.isComp o]; exact hleaf o ho, by rw [hlk1]; exact r2, hsingle o ho⟩
  obtain ⟨hflat, hframe⟩ := rebuild_ok (w.operations c).2 (w.operations c).1 [] (flatOk_nil _)
    (by intro e he; cases he) hwf.nodup (by intro o _ e he; cases he) hok
  rw [flatten_eq_rebuild]
  generalize rebuild (w.operations c).2 (w.operations c).1 [] = r at hflat hframe
  have hcr : c < r.1.ops.size := by rw [hframe.size, hsz1]; exact hc
  refine ⟨?_, by rw [setGraph_ops_size]; exact hcr, ?_⟩
  · rw [setGraph_graph_self _ _ _ hcr]
    exact hflat.transfer (setGraph_sameLeaf _ _ _) (setGraph_sameRel _ _ _)
  · rw [setGraph_link, lnk_of_links_eq (setGraph_links _ _ _), hframe.other c hwf.not_self, hwf.link_kept,
      hframe.lnk _ (by rw [hlk1]; exact hwf.link_in), lnk_of_links_eq hlk1]
    exact htop

/-- flattening a heap in which the invariant holds for the graph of `c`, as an equation: relation-less nodes get the
    link of `c` (`handDown`), then the graph is replaced by the same entries in listing order. -/
theorem flatten_of_flatOk_eq (w : World) (c : Nat) (h : FlatOk w (w.op c).graph)
    (htop : (w.lnk (w.op c).link).refs = []) :
    w.flatten c = (handDown w (w.op c).link (listing (w.op c).graph)).setGraph c
      (sortedEntries (w.op c).graph) := by
  have hflat : ∀ n ∈ listing (w.op c).graph, (w.op n).isComp = false := by
    intro n hn
    obtain ⟨e, he, hen⟩ := mem_listing_iff.mp hn
    rw [← hen]; exact h.leaf e he
  have hops : w.operations c =
      (handDown w (w.op c).link (listing (w.op c).graph), listing (w.op c).graph) := by
    unfold World.operations
    rw [show w.depthFuel = (w.ops.size + 1) + 1 from rfl]
    exact decomposed_flat _ c w hflat
  have hd := handDown_spec (w.op c).link (listing (w.op c).graph) w htop
  have h3 : FlatOk (handDown w (w.op c).link (listing (w.op c).graph)) (w.op c).graph :=
    h.transfer hd.sameLeaf hd.sameRel
  have hfix := rebuild_fixed h3 (sortedEntries_perm (w.op c).graph)
    (strictSorted_sortedEntries _ h.tree.nodup) (sortedEntries (w.op c).graph) [] (by simp)
  rw [flatten_eq_rebuild, hops]
  show (rebuild ((sortedEntries (w.op c).graph).map (·.node)) _ []).1.setGraph c
    (rebuild ((sortedEntries (w.op c).graph).map (·.node)) _ []).2 = _
  rw [hfix]

/-- flattening a heap in which the invariant holds for the graph of `c`: the graph is replaced by the same entries in
    listing order, and the heap only changes by relation-less nodes getting the (reference-free) link of `c`. -/
theorem flatten_of_flatOk (w : World) (c : Nat) (hc : c < w.ops.size) (h : FlatOk w (w.op c).graph)
    (htop : (w.lnk (w.op c).link).refs = []) :
    ((w.flatten c).op c).graph = sortedEntries (w.op c).graph ∧
    (w.flatten c).links = w.links ∧
    ∀ o, ((w.flatten c).lnk ((w.flatten c).op o).link).refs = (w.lnk (w.op o).link).refs ∧
      (w.hasRel o = true → ((w.flatten c).op o).link = (w.op o).link) := by
  have hd := handDown_spec (w.op c).link (listing (w.op c).graph) w htop
  rw [flatten_of_flatOk_eq w c h htop]
  refine ⟨setGraph_graph_self _ _ _ (by rw [hd.size]; exact hc), hd.links, ?_⟩
  intro o
  rw [setGraph_link, lnk_of_links_eq (setGraph_links _ _ _)]
  exact ⟨hd.refs o, hd.keep o⟩

theorem listing_sortedEntries (g : List Entry) : listing (sortedEntries g) = listing g :=
  listing_of_sorted _ (sortedEntries_pairwise g)

/-! ### the well-formedness hypotheses from conditions on the heap before the listing -/

theorem foldl_inv_mem {α β} (P : α → Prop) (step : α → β → α) :
    ∀ (L : List β) (a : α), (∀ a b, b ∈ L → P a → P (step a b)) → P a → P (L.foldl step a) := by
  intro L
  induction L with
  | nil => intro a _ h; exact h
  | cons x xs ih =>
    intro a hstep h
    exact ih _ (fun a b hb => hstep a b (List.mem_cons_of_mem _ hb)) (hstep a x List.mem_cons_self h)

/-- what the listing (`decomposed_operations`) may do to links: every link identifier in use was in use before, and an
    object that is not a node of any graph keeps its link. -/
structure DInv (w0 w : World) : Prop where
  shape : Shape w w0
  used : ∀ j, ∃ k, (w.op j).link = (w0.op k).link
  kept : ∀ j, (∀ o, ∀ e ∈ (w0.op o).graph, e.node ≠ j) → (w.op j).link = (w0.op j).link

theorem DInv.refl (w : World) : DInv w w := ⟨Shape.refl w, fun j => ⟨j, rfl⟩, fun _ _ => rfl⟩

theorem DInv.setLink {w0 w : World} (h : DInv w0 w) (c n : Nat) (hn : n ∈ listing (w0.op c).graph) (k : Nat) :
    DInv w0 (w.setLink n (w0.op k).link) := by
  have hop : ∀ j, (w.setLink n (w0.op k).link).op j =
      if n = j ∧ n < w.ops.size then { w.op n with link := (w0.op k).link } else w.op j := by
    intro j; unfold World.setLink; rw [op_setOp]
  refine ⟨h.shape.setLink _ _, ?_, ?_⟩
  · intro j
    rw [hop]
    split
    · exact ⟨k, rfl⟩
    · exact h.used j
  · intro j hj
    rw [hop]
    split
    · rename_i hnj
      obtain ⟨e, he, hen⟩ := mem_listing_iff.mp hn
      exact absurd (hen.trans hnj.1) (hj c e he)
    · exact h.kept j hj

theorem decomposed_dinv (w0 : World) : ∀ (f c : Nat) (w : World), DInv w0 w → DInv w0 (w.decomposed f c).1 := by
  intro f
  induction f with
  | zero => intro c w h; exact h
  | succ f ih =>
    intro c w h
    unfold World.decomposed
    obtain ⟨k, hk⟩ := h.used c
    refine foldl_inv_mem (fun acc : World × List Nat => DInv w0 acc.1) _ _ (w, []) ?_ h
    intro acc n hn hacc
    obtain ⟨w1, out⟩ := acc
    simp only at hacc ⊢
    rw [h.shape.graph c] at hn
    have key : ∀ w2 : World, DInv w0 w2 →
        DInv w0 (if (w2.op n).isComp = true then ((w2.decomposed f n).fst, out ++ (w2.decomposed f n).snd)
          else (w2, out ++ [n])).fst := by
      intro w2 h2
      split
      · exact ih n _ h2
      · exact h2
    by_cases hr : w1.hasRel n = true
    · simp only [hr, Bool.not_true, Bool.false_eq_true, if_false]
      exact key w1 hacc
    · have hr' : w1.hasRel n = false := by simpa using hr
      simp only [hr', Bool.not_false, if_true]
      exact key _ (by rw [hk]; exact hacc.setLink c n hn k)

theorem operations_dinv (w : World) (c : Nat) : DInv w (w.operations c).1 :=
  decomposed_dinv w w.depthFuel c w (DInv.refl w)

/-- `FlattenWf` from conditions on the heap itself: every object's link is an existing link, `c` is not a node of any
    graph (a top-level circuit), and the pure leaf listing of `c` has no object twice, only existing objects, not `c`. -/
theorem flattenWf_of_tree (w : World) (c : Nat)
    (hlin : ∀ j, (w.op j).link < w.links.size)
    (hcnode : ∀ o, ∀ e ∈ (w.op o).graph, e.node ≠ c)
    (hnd : (w.leafListing w.depthFuel c).Nodup)
    (hin : ∀ o ∈ w.leafListing w.depthFuel c, o < w.ops.size)
    (hcnot : c ∉ w.leafListing w.depthFuel c) : FlattenWf w c := by
  have hd := operations_dinv w c
  have hl := operations_eq_leafListing w c
  refine ⟨hlin c, hd.kept c hcnode, by rw [hl]; exact hcnot, by rw [hl]; exact hnd, ?_⟩
  intro o ho
  rw [hl] at ho
  obtain ⟨k, hk⟩ := hd.used o
  exact ⟨hin o ho, by rw [hk]; exact hlin k⟩

theorem operations_lnk (w : World) (c l : Nat) : (w.operations c).1.lnk l = w.lnk l :=
  lnk_of_links_eq (operations_links w c) l

/-- a Boolean property of all stored objects (and of the default object) holds of `w.op j` for every `j`. -/
theorem forall_op (w : World) (p : Op → Bool) (h : w.ops.toList.all p = true) (hd : p default = true) :
    ∀ j, p (w.op j) = true := by
  intro j
  unfold World.op
  rw [Array.getD_eq_getD_getElem?]
  by_cases hj : j < w.ops.size
  · rw [List.all_eq_true] at h
    have hm : w.ops[j] ∈ w.ops.toList := by simp
    simpa [hj] using h _ hm
  · have : w.ops[j]? = none := by simp; omega
    rw [this]; exact hd

theorem forall_lnk (w : World) (p : Link → Bool) (h : w.links.toList.all p = true) (hd : p default = true) :
    ∀ l, p (w.lnk l) = true := by
  intro l
  unfold World.lnk
  rw [Array.getD_eq_getD_getElem?]
  by_cases hl : l < w.links.size
  · rw [List.all_eq_true] at h
    have hm : w.links[l] ∈ w.links.toList := by simp
    simpa [hl] using h _ hm
  · have : w.links[l]? = none := by simp; omega
    rw [this]; exact hd

/-! ### what the second flatten does to a relation-less node -/

theorem handDown_root (cl : Nat) : ∀ (L : List Nat) (w : World) (n : Nat), (w.lnk cl).refs = [] → n ∈ L →
    w.hasRel n = false → n < w.ops.size → ((handDown w cl L).op n).link = cl := by
  intro L
  induction L with
  | nil => intro w n _ hn; cases hn
  | cons m ms ih =>
    intro w n hcl hn hb hlt
    rw [handDown_cons]
    have h1 := HD.step w cl m hcl
    have hcl' : ((if !w.hasRel m then w.setLink m cl else w).lnk cl).refs = [] := by
      rw [lnk_of_links_eq h1.links]; exact hcl
    have hb' : (if !w.hasRel m then w.setLink m cl else w).hasRel n = false := by
      rw [hasRel_false_iff] at hb ⊢
      rw [h1.refs n]; exact hb
    have hlt' : n < (if !w.hasRel m then w.setLink m cl else w).ops.size := by rw [h1.size]; exact hlt
    by_cases hnm : n ∈ ms
    · exact ih _ n hcl' hnm hb' hlt'
    · have hmn : m = n := by
        rcases List.mem_cons.mp hn with h | h
        · exact h.symm
        · exact absurd h hnm
      subst hmn
      -- after this step the link is `cl`, and the remaining steps keep it (it stays relation-less but is not re-listed)
      have hlink : ((if !w.hasRel m then w.setLink m cl else w).op m).link = cl := by
        simp only [hb, Bool.not_false, if_true]
        unfold World.setLink
        rw [op_setOp]
        simp [hlt]
      have : ∀ (L : List Nat) (w : World), m ∉ L → ((handDown w cl L).op m).link = (w.op m).link := by
        intro L
        induction L with
        | nil => intro w _; rfl
        | cons x xs ih2 =>
          intro w hx
          rw [handDown_cons, ih2 _ (fun h => hx (List.mem_cons_of_mem _ h))]
          split
          · unfold World.setLink
            rw [op_setOp]
            have : ¬ (x = m ∧ x < w.ops.size) := fun h => hx (by rw [h.1]; exact List.mem_cons_self)
            simp only [this, if_false]
          · rfl
      rw [this ms _ hnm, hlink]

/-- … a listed relation-less node is handed the link of `c` by the listing of the second flatten. -/
theorem flatten_of_flatOk_root (w : World) (c : Nat) (h : FlatOk w (w.op c).graph)
    (htop : (w.lnk (w.op c).link).refs = []) (o : Nat) (ho : o ∈ listing (w.op c).graph)
    (hb : w.hasRel o = false) (hlt : o < w.ops.size) : ((w.flatten c).op o).link = (w.op c).link := by
  rw [flatten_of_flatOk_eq w c h htop, setGraph_link]
  exact handDown_root _ _ w o htop ho hb hlt

/-! ### the schedule is the same -/

/-- two heaps on which the evaluator gives the same answers: same links, same duration settings, every object has the
    same kind, duration strategy, listing and depth-1 nodes, and either the same link or a reference-free link in
    both heaps. -/
structure SchedSame (w w' : World) : Prop where
  lnk : ∀ i, w'.lnk i = w.lnk i
  leafDur : ∀ d, w'.leafDur d = w.leafDur d
  comp : ∀ j, (w'.op j).isComp = (w.op j).isComp
  dur : ∀ j, (w'.op j).dur = (w.op j).dur
  empty : ∀ j, (w'.op j).graph.isEmpty = (w.op j).graph.isEmpty
  heads : ∀ j, heads (w'.op j).graph = heads (w.op j).graph
  listing : ∀ j, listing (w'.op j).graph = listing (w.op j).graph
  link : ∀ j, (w'.op j).link = (w.op j).link ∨
    ((w'.lnk (w'.op j).link).refs = [] ∧ (w.lnk (w.op j).link).refs = [])

theorem evRef_noref (w : World) (f l : Nat) (h : (w.lnk l).refs = []) : evRef w (f + 1) l = some none := by
  rw [evRef.eq_2]
  simp only [h]
  split
  · rfl
  · rfl

theorem sched_congr {w w' : World} (h : SchedSame w w') : ∀ f,
    (∀ o, evLeadSpan w' f o = evLeadSpan w f o) ∧ (∀ o, evInterval w' f o = evInterval w f o) ∧
    (∀ o, evDur w' f o = evDur w f o) ∧ (∀ o, evStart w' f o = evStart w f o) ∧
    (∀ o, evEnd w' f o = evEnd w f o) ∧ (∀ l, evRef w' f l = evRef w f l) := by
  intro f
  induction f with
  | zero =>
    refine ⟨?_, ?_, ?_, ?_, ?_, ?_⟩ <;> intro o
    · rw [evLeadSpan.eq_1, evLeadSpan.eq_1]
    · rw [evInterval.eq_1, evInterval.eq_1]
    · rw [evDur.eq_1, evDur.eq_1]
    · rw [evStart.eq_1, evStart.eq_1]
    · rw [evEnd.eq_1, evEnd.eq_1]
    · rw [evRef.eq_1, evRef.eq_1]
  | succ f ih =>
    obtain ⟨i1, i2, i3, i4, i5, i6⟩ := ih
    have e4 : (fun n => evStart w' f n) = (fun n => evStart w f n) := funext i4
    have e2 : (fun n => evInterval w' f n) = (fun n => evInterval w f n) := funext i2
    have e5 : (fun r => (evEnd w' f r).map (fun e => (r, e))) = (fun r => (evEnd w f r).map (fun e => (r, e))) :=
      funext (fun r => by rw [i5 r])
    refine ⟨?_, ?_, ?_, ?_, ?_, ?_⟩ <;> intro o
    · rw [evLeadSpan.eq_2, evLeadSpan.eq_2]
      simp only [h.comp o, h.empty o, h.heads o, h.listing o, h.dur o, h.leafDur, e4, e2]
    · rw [evInterval.eq_2, evInterval.eq_2, i4 o, i1 o]
    · rw [evDur.eq_2, evDur.eq_2, i1 o]
    · rw [Qco.C10.evStart_succ, Qco.C10.evStart_succ, i3 o]
      rcases h.link o with hl | ⟨hl1, hl2⟩
      · rw [hl, i6, h.lnk]
        congr 1; funext d; congr 1; funext r
        cases r with
        | none => rfl
        | some r => simp only [i4 r, i5 r]
      · cases f with
        | zero => rw [evRef.eq_1, evRef.eq_1]; simp
        | succ f =>
          rw [evRef_noref w' f _ hl1, evRef_noref w f _ hl2]
          rfl
    · rw [evEnd.eq_2, evEnd.eq_2, i4 o, i3 o]
    · rw [evRef.eq_2, evRef.eq_2, h.lnk o, e5]
      split
      · rfl
      · split
        · rfl
        · rename_i r0 _ _
          simp only [i5 r0]

theorem sortedEntries_idem (g : List Entry) : sortedEntries (sortedEntries g) = sortedEntries g := by
  unfold sortedEntries
  exact List.mergeSort_of_pairwise (sortedEntries_pairwise g)

theorem heads_sortedEntries (g : List Entry) : heads (sortedEntries g) = heads g := by
  unfold heads; rw [sortedEntries_idem]

theorem isEmpty_sortedEntries (g : List Entry) : (sortedEntries g).isEmpty = g.isEmpty := by
  have := (sortedEntries_perm g).length_eq
  cases hs : sortedEntries g <;> cases hg : g <;> simp_all

/-- the second flatten leaves every answer of the evaluator unchanged. -/
theorem flatten_of_flatOk_sched (w : World) (c : Nat) (hc : c < w.ops.size) (h : FlatOk w (w.op c).graph)
    (htop : (w.lnk (w.op c).link).refs = []) : SchedSame w (w.flatten c) := by
  have hd := handDown_spec (w.op c).link (listing (w.op c).graph) w htop
  rw [flatten_of_flatOk_eq w c h htop]
  generalize handDown w (w.op c).link (listing (w.op c).graph) = w3 at hd
  have hc3 : c < w3.ops.size := by rw [hd.size]; exact hc
  have hgraph : ∀ j, ((w3.setGraph c (sortedEntries (w.op c).graph)).op j).graph =
      if c = j then sortedEntries (w.op c).graph else (w.op j).graph := by
    intro j
    rw [op_setGraph]
    by_cases hj : c = j
    · simp only [hj ▸ hc3, hj, and_self, if_true]
    · simp only [hj, false_and, if_false]
      exact show (w3.op j).noLink.graph = (w.op j).noLink.graph from congrArg Op.graph (hd.shape j)
  have hfield : ∀ j, ((w3.setGraph c (sortedEntries (w.op c).graph)).op j).cls = (w.op j).cls ∧
      ((w3.setGraph c (sortedEntries (w.op c).graph)).op j).dur = (w.op j).dur := by
    intro j
    have h1 : (w3.op j).cls = (w.op j).cls :=
      show (w3.op j).noLink.cls = (w.op j).noLink.cls from congrArg Op.cls (hd.shape j)
    have h2 : (w3.op j).dur = (w.op j).dur :=
      show (w3.op j).noLink.dur = (w.op j).noLink.dur from congrArg Op.dur (hd.shape j)
    rw [op_setGraph]
    split
    · rename_i hj; obtain ⟨hcj, _⟩ := hj; subst hcj; exact ⟨h1, h2⟩
    · exact ⟨h1, h2⟩
  refine ⟨?_, ?_, ?_, ?_, ?_, ?_, ?_, ?_⟩
  · intro i; rw [lnk_of_links_eq (setGraph_links _ _ _), lnk_of_links_eq hd.links]
  · intro d
    unfold World.setGraph
    rw [leafDur_setOp, hd.leafDur]
  · intro j; unfold Op.isComp; rw [(hfield j).1]
  · intro j; exact (hfield j).2
  · intro j; rw [hgraph]; split
    · rename_i hj; rw [← hj]; exact isEmpty_sortedEntries _
    · rfl
  · intro j; rw [hgraph]; split
    · rename_i hj; rw [← hj]; exact heads_sortedEntries _
    · rfl
  · intro j; rw [hgraph]; split
    · rename_i hj; rw [← hj]; exact listing_sortedEntries _
    · rfl
  · intro j
    rw [setGraph_link, lnk_of_links_eq (setGraph_links _ _ _)]
    cases hb : w.hasRel j with
    | true => exact Or.inl (hd.keep j hb)
    | false =>
      have := (hasRel_false_iff w j).mp hb
      exact Or.inr ⟨by rw [hd.refs j]; exact this, this⟩

end Qco.Flat
