import QcoVerif.Model.Kernel
/-
  Model of the per-qubit acquisition TAG SEQUENCE of `construct_repetition_code_multi_round_circuit`
  (library/repetition_code/circuit_constructors.py:129-150). Core Lean only.

  Read off the constructor code:
    for every entry `r` of the rounds list, one `construct_repetition_code_circuit(qec_cycles = r)` is added:
      * `get_circuit_initialize_with_heralded`: one `DispersiveMeasure(tag 'heralded')` on EVERY measured qubit;
      * `get_circuit_qec_with_detectors`: `r = 0` → one `DispersiveMeasure(tag 'final')` per ANCILLA;
        `r ≥ 1` → `r` rounds (min(2, r-1) + (r-3) + 1 of them, in three blocks), each with one
        `DispersiveMeasure(tag 'parity')` per ancilla;
      * `get_circuit_final_measurement`: one `DispersiveMeasure(tag 'final')` per DATA qubit;
    and ONCE after all entries `construct_calibration_circuit(QUTRIT)`: for state 0, 1, 2 one
    `DispersiveMeasure('heralded')` and one `DispersiveMeasure('final')` on every calibrated qubit.
  `acquisition_index` is the per-qubit running count, so the index of a measurement of one qubit is its position
  in that qubit's own sequence of measurements. The sequence below is that sequence, for an ancilla and for a
  data qubit. (The calibration block is NOT repeated per rounds entry.)
-/
namespace Qco.Kernel.Circuit

inductive Tag | heralded | parity | final
  deriving Repr, DecidableEq, Inhabited

/-- measurements of one ancilla inside `construct_repetition_code_circuit(qec_cycles = r)` -/
def ancillaBlock (r : Nat) : List Tag :=
  .heralded :: (if r = 0 then [.final] else List.replicate r .parity)

/-- measurements of one data qubit inside `construct_repetition_code_circuit(qec_cycles = r)` -/
def dataBlock (_r : Nat) : List Tag := [.heralded, .final]

/-- measurements of one qubit inside `construct_calibration_circuit` (qutrit: states 0, 1, 2) -/
def calibrationBlock : List Tag := [.heralded, .final, .heralded, .final, .heralded, .final]

def ancillaTags (rounds : List Nat) : List Tag :=
  (rounds.map ancillaBlock).flatten ++ calibrationBlock

def dataTags (rounds : List Nat) : List Tag :=
  (rounds.map dataBlock).flatten ++ calibrationBlock

/-- positions (0-based) of tag `t` in a sequence, counted from `off` -/
def positionsFrom (t : Tag) : Nat → List Tag → List Nat
  | _, [] => []
  | off, x :: xs => if x = t then off :: positionsFrom t (off + 1) xs else positionsFrom t (off + 1) xs

/-- `DeclarativeCircuit.get_acquisition_indices(AcquisitionTag(qubit, t))` on a qubit whose sequence is `s` -/
def positions (t : Tag) (s : List Tag) : List Nat := positionsFrom t 0 s

end Qco.Kernel.Circuit
