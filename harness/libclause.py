"""Library clauses of C06 and C11, evaluated on the implementation (the generic clauses are decided over build programs).

C06: "for library-built circuits the unrolled listing is exactly the n-fold concatenation of the block's listing".
C11: "for modifier-applied library circuits the listing order, the schedule, the acquisition indices and the exported Stim
      program are identical before and after flattening" — and the multi-round constructor (which applies modifiers and
      flattens every round itself) must contain, per round, exactly the program of the modifier-applied round.

Both are FALSE of the pinned code for >= 2 detector ancillas and a repeated block (finding R5: only the coordinate shift is
listed elsewhere).  Attribution to R5 needs the input class (distance >= 3, cycles >= 3) AND the signature (everything equal
once the CoordinateShiftOperation / SHIFT_COORDS entries are removed); anything else is a violation."""
from __future__ import annotations
import contextlib
import io
import warnings

from . import common, progs, exportrun

SHIFT = 'CoordinateShiftOperation'


def _api():
    progs.api()
    with contextlib.redirect_stderr(io.StringIO()):
        from qce_circuit.library.repetition_code import circuit_constructors as cc
        from qce_circuit.language import InitialStateContainer, InitialStateEnum
        from qce_circuit.library.repetition_code.circuit_components import RepetitionCodeDescription
    return cc, InitialStateContainer, InitialStateEnum, RepetitionCodeDescription


def r5_open(prop):
    for f in common.load_findings():
        if f.get('id') == 'R5' and f.get('status') == 'open' and prop in f.get('properties', []):
            return f
    return None


def sizes(tier):
    if tier == 'quick':
        return [(d, c) for d in (1, 2, 3) for c in range(0, 5)] + [(4, 3)]
    return [(d, c) for d in (1, 2, 3, 4, 5) for c in range(0, 7)]


def init_state(d, k):
    _, ISC, ISE, _ = _api()
    st = [ISE.ZERO, ISE.ONE]
    return ISC.from_ordered_list([st[(i + k) % 2] for i in range(d)])


def expected_tree(struct):
    """signatures of the listing with every sub-circuit repeated its count in place (no unrolling performed)."""
    a = progs.api()
    out = []
    for o in progs.graph_nodes(struct):
        if isinstance(o, a.CircuitCompositeOperation):
            out += expected_tree(o) * max(1, o.nr_of_repetitions)
        else:
            out.append(progs.sig(o))
    return out


def observe(circ):
    ops = circ.operations
    rows = [(progs.sig(o), o.start_time, o.duration) for o in ops]
    acq = [(o.acquisition_index, o.circuit_level_acquisition_index) for o in ops if type(o).__name__ == 'DispersiveMeasure']
    flat, n = exportrun.export_stim(circ)
    stim = [exportrun.show_instr(i) for i in flat]
    return rows, acq, stim


def no_shift_rows(rows):
    return [r for r in rows if r[0][0] != SHIFT]


def no_shift_stim(stim):
    return [s for s in stim if not s.startswith('SHIFT_COORDS')]


def constructors(tier):
    """(label, input dict, thunk building a fresh circuit, in R5 input class?)"""
    cc, ISC, ISE, RCD = _api()
    out = []
    for d, cyc in sizes(tier):
        out.append(('construct_repetition_code_circuit', {'data_qubits': d, 'qec_cycles': cyc},
                    (lambda d=d, cyc=cyc: cc.construct_repetition_code_circuit(qec_cycles=cyc, initial_state=init_state(d, cyc))),
                    d >= 3 and cyc >= 3))
    for d, cyc in ([(2, 2), (3, 1), (3, 3)] if tier == 'quick' else [(d, c) for d in (2, 3, 4) for c in (1, 2, 3, 4)]):
        desc = RCD.from_initial_state(init_state(d, 0))
        out.append(('construct_repetition_code_circuit_simplified', {'data_qubits': d, 'qec_cycles': cyc},
                    (lambda desc=desc, cyc=cyc, d=d: cc.construct_repetition_code_circuit_simplified(
                        qec_cycles=cyc, description=desc, initial_state=init_state(d, 0))), False))
    return out


def c11_zero_duration_pass(report, tier):
    """The exported Stim program of a modifier-applied library circuit is the same before and after flatten() ALSO when one of the
    global durations is exactly 0 (seeded change C11-m8: the exporter takes 'duration 0' for 'empty' and drops a nested block of
    zero-length operations — the flat export keeps them).  Small inputs only (qec_cycles <= 2, full constructor: outside the input
    classes of the open findings R5 / R25); SHIFT_COORDS lines are left out of the comparison as in the main pass."""
    a = progs.api()
    n = 0
    for label, inp, build, in_class in constructors(tier):
        if inp['qec_cycles'] > 2 or label.endswith('_simplified'):
            continue
        for key in 'RMF':
            vals = {a.GK[k]: (0.0 if k == key else v) for k, v in zip('RMFS', (2.0, 1.0, 1.0, 2.0))}
            with a.rd.temporary_override_get_registry_at(vals):
                c = build().apply_modifiers()
                before = no_shift_stim(observe(c)[2])
                after = no_shift_stim(observe(c.flatten())[2])
            n += 1
            if before != after:
                report('library circuit: exported Stim program differs before/after flatten under a zero global duration',
                       {'constructor': label, 'input': inp, 'zero': key, 'instructions_before': len(before), 'instructions_after': len(after)})
    return n


def c06_library(oc, tier, seed):
    """unrolled listing == n-fold concatenation (by signature)."""
    prop = 'C06'
    rows = []
    ent = r5_open(prop)
    reported = False
    with contextlib.redirect_stderr(io.StringIO()), warnings.catch_warnings():
        warnings.simplefilter('ignore')
        for label, inp, build, in_class in constructors(tier):
            circ = build()
            exp = expected_tree(circ.circuit_structure) * max(1, circ.circuit_structure.nr_of_repetitions)
            un = circ.apply_modifiers()
            got = [progs.sig(o) for o in un.operations]
            counts_one = all(x.nr_of_repetitions == 1 for x in un.composite_operations)
            row = {'constructor': label, **inp, 'entries': len(got), 'concatenation': got == exp, 'counts_reset': counts_one}
            rows.append(row)
            if not counts_one and not reported:
                reported = True
                oc.violation({'property': prop, 'kind': 'library circuit: a repetition count survives apply_modifiers',
                              'constructor': label, 'input': inp})
            if got == exp:
                continue
            only_shift = [s for s in got if s[0] != SHIFT] == [s for s in exp if s[0] != SHIFT]
            row['signature'] = 'only-coordinate-shift-displaced' if only_shift else 'other'
            if only_shift and in_class and ent is not None:
                oc.known_finding(f"R5: {ent['what_fails']}")
            elif not reported:
                reported = True
                first = next((i for i, (x, y) in enumerate(zip(got, exp)) if x != y), min(len(got), len(exp)))
                oc.violation({'property': prop, 'kind': 'library circuit: unrolled listing is not the n-fold concatenation',
                              'constructor': label, 'input': inp, 'first_difference_at': first,
                              'got': [list(map(str, s)) for s in got[first:first + 3]],
                              'expected': [list(map(str, s)) for s in exp[first:first + 3]],
                              'lengths': [len(got), len(exp)],
                              'input_class_R5': in_class, 'signature': row['signature']})
    return {'library_cases': rows}


def c11_library(oc, tier, seed):
    """flatten of modifier-applied library circuits; the multi-round constructor against its rounds."""
    prop = 'C11'
    cc, ISC, ISE, RCD = _api()
    rows = []
    ent = r5_open(prop)
    reported = set()

    def report(kind, payload):
        if kind in reported:
            return
        reported.add(kind)
        oc.violation({'property': prop, 'kind': kind, **payload})

    with contextlib.redirect_stderr(io.StringIO()), warnings.catch_warnings():
        warnings.simplefilter('ignore')
        for label, inp, build, in_class in constructors(tier):
            c = build().apply_modifiers()
            b_rows, b_acq, b_stim = observe(c)
            f = c.flatten()
            a_rows, a_acq, a_stim = observe(f)
            nested_left = len(f.composite_operations)
            again = observe(f.flatten())
            same = (a_rows == b_rows and a_acq == b_acq and a_stim == b_stim)
            row = {'constructor': label, **inp, 'entries': len(b_rows), 'identical': same}
            rows.append(row)
            if nested_left:
                report('library circuit: a sub-circuit remains after flatten', {'constructor': label, 'input': inp})
            if sorted(map(str, (r[0] for r in a_rows))) != sorted(map(str, (r[0] for r in b_rows))):
                report('library circuit: flatten changes the multiset of leaf operations', {'constructor': label, 'input': inp})
            if again != (a_rows, a_acq, a_stim):
                report('library circuit: flattening twice differs from flattening once', {'constructor': label, 'input': inp})
            if same:
                continue
            only_shift = (no_shift_rows(a_rows) == no_shift_rows(b_rows) and a_acq == b_acq
                          and no_shift_stim(a_stim) == no_shift_stim(b_stim))
            row['signature'] = 'only-coordinate-shift-displaced' if only_shift else 'other'
            # finding R25: the simplified constructor has no barrier between the iterations of its repeated round; flatten
            # re-links every operation behind the last one on its own channels, so the block-level "copy k+1 starts when
            # copy k has ended" is lost: same operations, same indices, same measurement order, different schedule
            compaction = (label.endswith('_simplified') and inp['qec_cycles'] >= 2
                          and sorted(map(str, (r[0] for r in a_rows))) == sorted(map(str, (r[0] for r in b_rows)))
                          and a_acq == b_acq
                          and [x for x in a_stim if x.startswith('M:')] == [x for x in b_stim if x.startswith('M:')])
            ent25 = next((f for f in common.load_findings() if f.get('id') == 'R25' and f.get('status') == 'open'
                          and prop in f.get('properties', [])), None)
            if only_shift and in_class and ent is not None:
                oc.known_finding(f"R5: {ent['what_fails']}")
            elif compaction and ent25 is not None:
                row['signature'] = 'schedule-compacted-by-relinking'
                oc.known_finding(f"R25: {ent25['what_fails']}")
            else:
                first = next((i for i, (x, y) in enumerate(zip(b_rows, a_rows)) if x != y), None)
                report('library circuit: listing / schedule / indices / Stim program differ after flatten',
                       {'constructor': label, 'input': inp, 'first_difference_at': first,
                        'listing_equal': [r[0] for r in a_rows] == [r[0] for r in b_rows],
                        'schedule_equal': a_rows == b_rows, 'indices_equal': a_acq == b_acq, 'stim_equal': a_stim == b_stim,
                        'input_class_R5': in_class, 'signature': row['signature']})
        # the multi-round constructor: per round exactly the modifier-applied (and flattened) round, then a barrier;
        # finally the calibration circuit
        cases = [(2, [1, 3]), (2, [0, 2]), (3, [2, 1]), (2, [4])] if tier == 'quick' else \
                [(d, r) for d in (2, 3) for r in ([0], [1], [2], [3], [4], [5], [1, 3], [0, 2], [3, 0, 1], [4, 2], [5, 3])]
        for d, rounds in cases:
            desc = RCD.from_initial_state(init_state(d, 0))
            multi = cc.construct_repetition_code_multi_round_circuit(qec_cycles=rounds, description=desc,
                                                                     initial_state=init_state(d, 0))
            got = [progs.sig(o) for o in multi.operations]
            exp = []
            exp_unflat = []
            for r in rounds:
                one = cc.construct_repetition_code_circuit(qec_cycles=r, description=desc, initial_state=init_state(d, 0))
                one = one.apply_modifiers()
                exp_unflat += sorted(map(str, (progs.sig(o) for o in one.operations)))
                one = one.flatten()
                seg = [progs.sig(o) for o in one.operations]
                exp += seg
            head = [s for s in got if True]
            # compare the round part: the listing of the multi-round circuit must contain the rounds' operations as a
            # multiset (barriers between rounds and the calibration block come on top)
            from collections import Counter
            cg, ce = Counter(map(str, got)), Counter(map(str, exp))
            missing = ce - cg
            n_meas_got = sum(1 for s in got if s[0] == 'DispersiveMeasure')
            row = {'constructor': 'construct_repetition_code_multi_round_circuit', 'data_qubits': d, 'rounds': rounds,
                   'entries': len(got), 'round_operations_contained': not missing}
            rows.append(row)
            if missing:
                report('multi-round constructor: a round does not contain the operations of the modifier-applied round',
                       {'input': {'data_qubits': d, 'rounds': rounds},
                        'missing_operations': dict(list(missing.items())[:6]), 'measurements_listed': n_meas_got})
            # and no nesting with a count survives (each round was unrolled before it was flattened)
            if any(x.nr_of_repetitions != 1 for x in multi.composite_operations):
                report('multi-round constructor: a repetition count survives', {'input': {'data_qubits': d, 'rounds': rounds}})
        nz = c11_zero_duration_pass(report, tier)
    return {'library_cases': rows, 'library_zero_duration_cases': nz}
