import QcoVerif.Properties.C01
import QcoVerif.Lemmas.Unroll
import QcoVerif.Lemmas.TreeDepth
/-
  C06 — applying repetition modifiers unrolls n back-to-back copies, once.

  Proved here (about definitions the driver executes):
   * the group link created by `extend` refers to the member that ends latest, first one on ties
     (`copy_follows_latest_leaf`, = `pickLatest`);
   * n copies of a block of duration T chained back to back occupy exactly n·T (`chain_span`) — with the previous
     item: if the last-ending operation of the block is the leaf the next copy is hung under, copy k starts at
     start + k·T;
   * counts are read when modifiers are applied (fixed or registry-provided, default 1), a count of 1 adds
     nothing, operations that are not sub-circuits are left alone.
   * **heap level, flat blocks** (`unroll_flat_partial`, `unroll_flat_twice_partial`, `copy_of_flat_block`): for a sub-circuit
     whose nodes are leaf operations, `applyModifiers` leaves count 1 and exactly `max 1 n` times as many leaf nodes, a
     second application adds nothing, and the copy it starts from is a fresh flat block that changes nothing existing
     (Lemmas/Unroll.lean: `add_spec`, `extend_spec`, `copy_flat`, loop invariant `RepInv`).
   * **heap level, NESTED blocks** (second half of this file; Lemmas/TreeHeap, TreeCopy, UnrollNested, TreeBuild): on a
     TREE-shaped heap below `c` (`TreeBelow`: no sharing, ids in range — what the API builds, `fresh_circuit_is_tree`,
     `add_leaf_keeps_tree`, `add_sub_circuit_keeps_tree`) `applyModifiers` keeps the count-expanded multiset of leaf
     signatures (`World.expand`: every leaf × product of the enclosing `max 1 count`), leaves every count `fixed 1`, keeps
     the heap a tree, writes no object outside the tree and not the count registry (`unroll_counts`,
     `unroll_counts_driver` — no fuel hypothesis: a tree has at most as many levels as the heap has objects,
     `tree_depth_le_objects`); the unrolled operation listing is that multiset (`unroll_listing`); a second application
     writes NO existing object at all (`unroll_twice`); the copy it is built on returns a fresh separated tree with the
     same expansion (`copy_of_tree`) and `extend` keeps separation (`extend_keeps_tree`).
  NOT proved: the ORDER of the unrolled listing (only the multiset); the library "n-fold concatenation" clause is false
  of model and code (finding R5).
-/
namespace Qco.C06

open Qco Qco.C10

/-- the copy appended by `extend` follows the latest-ending leaf of what precedes it (first wins ties). -/
theorem copy_follows_latest_leaf (best : Nat × Int) (xs : List (Nat × Int)) :
    (pickLatest best xs = best ∨ pickLatest best xs ∈ xs) ∧
    best.2 ≤ (pickLatest best xs).2 ∧ ∀ x ∈ xs, x.2 ≤ (pickLatest best xs).2 :=
  Qco.C01.group_reference_is_latest best xs

/-- intervals of `n` back-to-back copies of a block of duration `T` starting at `s`. -/
def chain (s T : Int) (n : Nat) : List (Int × Int) :=
  (List.range n).map (fun (k : Nat) => (s + (k : Int) * T, s + ((k : Int) + 1) * T))

theorem minOf_chain (s T : Int) (hT : 0 ≤ T) (n : Nat) : minOf ((chain s T (n + 1)).map (·.1)) = s := by
  apply minOf_eq
  · simp only [chain, List.map_map, List.mem_map, List.mem_range, Function.comp]
    exact ⟨0, by omega, by simp⟩
  · intro x hx
    simp only [chain, List.map_map, List.mem_map, List.mem_range, Function.comp] at hx
    obtain ⟨k, _, rfl⟩ := hx
    have : 0 ≤ (k : Int) * T := Int.mul_nonneg (Int.natCast_nonneg k) hT
    omega

theorem maxOf_chain (s T : Int) (hT : 0 ≤ T) (n : Nat) :
    maxOf ((chain s T (n + 1)).map (·.2)) = s + ((n : Int) + 1) * T := by
  apply maxOf_eq
  · simp only [chain, List.map_map, List.mem_map, List.mem_range, Function.comp]
    exact ⟨n, by omega, rfl⟩
  · intro x hx
    simp only [chain, List.map_map, List.mem_map, List.mem_range, Function.comp] at hx
    obtain ⟨k, hk, rfl⟩ := hx
    have h1 : (k : Int) + 1 ≤ (n : Int) + 1 := by omega
    have := Int.mul_le_mul_of_nonneg_right h1 hT
    omega

/-- **n·T**: a block consisting of n ≥ 1 copies of duration T ≥ 0 chained one after another has lead 0 and
    duration n·T. -/
theorem chain_span (s T : Int) (hT : 0 ≤ T) (n : Nat) :
    leadSpan [s] (chain s T (n + 1)) = (0, ((n : Int) + 1) * T) := by
  unfold leadSpan
  rw [minOf_chain s T hT n, maxOf_chain s T hT n]
  simp only [minOf, List.foldl_nil, Int.sub_self, Prod.mk.injEq, true_and]
  omega

/-- counts are read when modifiers are applied: a fixed count is itself, a registry-provided one is the value
    registered under its key at that time, 1 if none. -/
theorem count_fixed (w : World) (n : Nat) : w.repCount (.fixed n) = n := rfl

theorem count_registry_default (w : World) (k : Nat) (h : ∀ p ∈ w.rreg, p.1 ≠ k) : w.repCount (.reg k) = 1 := by
  unfold World.repCount
  have : w.rreg.find? (fun x => x.1 == k) = none := by
    rw [List.find?_eq_none]; intro x hx; simpa using h x hx
  simp [this]

/-- operations that are not sub-circuits are untouched by `apply_modifiers_to_self`. -/
theorem apply_leaf (w : World) (f o : Nat) (h : (w.op o).isComp = false) : w.applyModifiers f o = w := by
  cases f with
  | zero => rfl
  | succ f => simp [World.applyModifiers, h]

/-! ### the heap-level statement for a flat block

`applyModifiers` (= `apply_modifiers_to_self`) on a block all of whose nodes are leaf operations.  The general statement
(arbitrary nesting: occurrences multiply with the product of the enclosing counts) needs the same argument for every
level plus a separation argument between sibling sub-circuits and is NOT proved; the harness evaluates it on the
implementation at every `apply_modifiers`. -/

theorem foldl_id_of {α β} (f : α → β → α) (L : List β) (a : α) (h : ∀ b ∈ L, f a b = a) : L.foldl f a = a := by
  induction L with
  | nil => rfl
  | cons x xs ih =>
    rw [List.foldl_cons, h x List.mem_cons_self]
    exact ih (fun b hb => h b (List.mem_cons_of_mem _ hb))

/-- **unrolling a flat block** (`_partial`: flat blocks only).  For a sub-circuit `c` whose nodes are leaf operations,
    with repetition count `n` (fixed or registry-provided, read now): after `apply_modifiers_to_self`
    * its count is `1`,
    * its graph holds exactly `max 1 n` times as many nodes as before, all of them leaf operations
      (`n - 1 + 1` in truncated subtraction: a count of `0` is unrolled as one copy — as the code does),
    * the count registry is untouched. -/
theorem unroll_flat_partial (w : World) (f c : Nat) (hc : c < w.ops.size) (hcomp : (w.op c).isComp = true)
    (hflat : FlatIn w c) :
    ((w.applyModifiers (f + 1) c).op c).rep = .fixed 1 ∧
    ((w.applyModifiers (f + 1) c).op c).graph.length =
      (w.op c).graph.length * (w.repCount (w.op c).rep - 1 + 1) ∧
    FlatIn (w.applyModifiers (f + 1) c) c ∧
    (w.applyModifiers (f + 1) c).rreg = w.rreg ∧
    c < (w.applyModifiers (f + 1) c).ops.size ∧ ((w.applyModifiers (f + 1) c).op c).isComp = true := by
  -- phase 1: the pristine copy
  obtain ⟨hid, hf⟩ := copy_flat w c hcomp hflat
  have hccls : (w.op c).cls = .comp := by
    unfold Op.isComp at hcomp; exact eq_of_beq hcomp
  have base : RepInv w c w.ops.size (w.op c).graph.length (w.copy c).1 0 := by
    have hcold := hf.old c hc
    refine ⟨by rw [hf.size]; omega, hf.rreg, noLink_rep hcold, (noLink_cls hcold).trans hccls, ?_, ?_,
      by rw [hf.size]; omega, by omega, ?_, hf.len, ?_⟩
    · rw [noLink_graph hcold]; simp
    · intro n hn
      rw [noLink_graph hcold] at hn
      have := hflat n hn
      refine ⟨by rw [hf.size]; omega, ?_⟩
      rw [noLink_isComp (hf.old n this.1)]; exact this.2
    · unfold Op.isComp; rw [hf.cls]; rfl
    · intro n hn
      rw [mem_listing_iff] at hn
      obtain ⟨e, he, hen⟩ := hn
      have hb := hf.nodes e he
      rw [hen] at hb
      exact ⟨hb.2, hf.fresh n hb.1 hb.2⟩
  -- phase 2: the loop
  have loop := repLoop_inv w c w.ops.size (w.op c).graph.length
    (List.range (w.repCount (w.op c).rep - 1)) (w.copy c).1 0 base
  rw [List.length_range, Nat.zero_add] at loop
  -- unfold the definition
  rw [World.applyModifiers]
  simp only [hcomp, Bool.not_true, Bool.false_eq_true, if_false]
  rw [hid] at *
  generalize hw2 : (List.range (w.repCount (w.op c).rep - 1)).foldl
      (fun w_1 _ => (w_1.copy w.ops.size).1.extend c (w_1.copy w.ops.size).2) (w.copy c).1 = w2 at loop
  have hw2' : (List.range (w.repCount (w.op c).rep - 1)).foldl
      (fun w_1 _ => match w_1.copy w.ops.size with | (w_2, cp) => w_2.extend c cp) (w.copy c).1 = w2 := hw2
  -- phase 3: reset the count; phase 4: the nodes are leaves, nothing more happens
  have hc2 : c < w2.ops.size := loop.hc
  have hop3 : ∀ j, (w2.setOp c { w2.op c with rep := .fixed 1 }).op j =
      if c = j then { w2.op c with rep := .fixed 1 } else w2.op j := by
    intro j; rw [op_setOp]
    by_cases hj : c = j
    · subst hj; simp only [hc2, and_self, if_true]
    · simp only [hj, false_and, if_false]
  have hleafs : ∀ n ∈ listing ((w2.setOp c { w2.op c with rep := .fixed 1 }).op c).graph,
      (w2.setOp c { w2.op c with rep := .fixed 1 }).applyModifiers f n =
        w2.setOp c { w2.op c with rep := .fixed 1 } := by
    intro n hn
    rw [hop3 c, if_pos rfl] at hn
    have := loop.cflat n hn
    apply apply_leaf
    rw [hop3 n]
    by_cases hcn : c = n
    · subst hcn
      have hcc : (w2.op c).isComp = true := by unfold Op.isComp; rw [loop.ccls]; rfl
      rw [hcc] at this; cases this.2
    · rw [if_neg hcn]; exact this.2
  have hfold := foldl_id_of (fun (w : World) (n : Nat) => w.applyModifiers f n)
    (listing ((w2.setOp c { w2.op c with rep := .fixed 1 }).op c).graph)
    (w2.setOp c { w2.op c with rep := .fixed 1 }) hleafs
  rw [hfold]
  have hc3 : (w2.setOp c { w2.op c with rep := .fixed 1 }).op c = { w2.op c with rep := .fixed 1 } := by
    rw [hop3 c, if_pos rfl]
  refine ⟨?_, ?_, ?_, ?_, by rw [setOp_size]; exact hc2, ?_⟩
  · rw [hc3]
  · rw [hc3]
    show (w2.op c).graph.length = _
    rw [loop.clen]
  · intro n hn
    rw [hc3] at hn
    have := loop.cflat n hn
    refine ⟨by rw [setOp_size]; exact this.1, ?_⟩
    rw [hop3 n]
    by_cases hcn : c = n
    · subst hcn
      have hcc : (w2.op c).isComp = true := by unfold Op.isComp; rw [loop.ccls]; rfl
      rw [hcc] at this; cases this.2
    · rw [if_neg hcn]; exact this.2
  · show w2.rreg = w.rreg
    exact loop.rreg
  · rw [hc3]
    show (w2.op c).isComp = true
    unfold Op.isComp; rw [loop.ccls]; rfl

/-- the pristine copy `applyModifiers` starts from: a fresh composite (identity = old heap size) with the same count and
    one fresh leaf node per node of the block; every object that existed keeps kind, qubits, count and graph. -/
theorem copy_of_flat_block (w : World) (o : Nat) (ho : (w.op o).isComp = true) (hflat : FlatIn w o) :
    (w.copy o).2 = w.ops.size ∧ ((w.copy o).1.op (w.copy o).2).rep = (w.op o).rep ∧
    ((w.copy o).1.op (w.copy o).2).graph.length = (w.op o).graph.length ∧
    FlatIn (w.copy o).1 (w.copy o).2 ∧
    ∀ j, j < w.ops.size → ((w.copy o).1.op j).noLink = (w.op j).noLink := by
  obtain ⟨hid, hf⟩ := copy_flat w o ho hflat
  rw [hid]
  refine ⟨rfl, hf.rep, hf.len, ?_, hf.old⟩
  intro n hn
  rw [mem_listing_iff] at hn
  obtain ⟨e, he, hen⟩ := hn
  have hb := hf.nodes e he
  rw [hen] at hb
  exact ⟨hb.2, hf.fresh n hb.1 hb.2⟩

/-- **applying the modifiers a second time adds nothing** (flat block): the count stays `1`, the number of nodes is
    unchanged, the nodes are still leaf operations. -/
theorem unroll_flat_twice_partial (w : World) (f g c : Nat) (hc : c < w.ops.size) (hcomp : (w.op c).isComp = true)
    (hflat : FlatIn w c) :
    (((w.applyModifiers (f + 1) c).applyModifiers (g + 1) c).op c).rep = .fixed 1 ∧
    (((w.applyModifiers (f + 1) c).applyModifiers (g + 1) c).op c).graph.length =
      ((w.applyModifiers (f + 1) c).op c).graph.length := by
  obtain ⟨h1, _, h3, _, h5, h6⟩ := unroll_flat_partial w f c hc hcomp hflat
  obtain ⟨k1, k2, _, _, _, _⟩ := unroll_flat_partial (w.applyModifiers (f + 1) c) g c h5 h6 h3
  refine ⟨k1, ?_⟩
  rw [k2, h1]
  show _ * (1 - 1 + 1) = _
  simp

/-- non-vacuity: a block with one `Rx180` and a fixed count of 3 is a flat block of an existing composite. -/
def exFlat : World :=
  { ops := #[{ cls := .comp, rep := .fixed 3, graph := [{ node := 1, parent := none, key := [0] }] },
             { cls := .rx180, qs := [0], dur := .glob .mw }] }

example : 0 < exFlat.ops.size ∧ (exFlat.op 0).isComp = true ∧ FlatIn exFlat 0 := by
  refine ⟨by decide, by decide, ?_⟩
  intro n hn
  have : listing (exFlat.op 0).graph = [1] := by
    simp [exFlat, World.op, listing, sortedEntries]
  rw [this] at hn
  simp only [List.mem_singleton] at hn
  subst hn
  exact ⟨by decide, by decide⟩

/-- non-vacuity of `chain_span`: three copies of a block of duration 2 (16 units) starting at 1. -/
example : leadSpan [8] (chain 8 16 3) = (0, 48) := by decide

/-! ### the heap-level statement for NESTED blocks

Hypothesis `TreeBelow w f c`: the heap below `c` is a tree of depth ≤ `f` (every node of every composite is an object
of the heap, the nodes of a composite are pairwise distinct, their sub-trees pairwise disjoint and do not contain the
composite; every leaf's per-class `copy()` keeps its signature — true of every well-formed operation,
`leaf_copy_keeps_signature`).  `World.expand w f c` is the multiset (as a list, insertion order) of the leaf signatures
below `c`, each composite's content repeated `max 1 count` times — i.e. every leaf × the product of the enclosing
counts.  `AllOnes w f c`: every composite at or below `c` has the count `fixed 1`. -/

/-- every operation the constructors can produce (`C05.Op.WellFormed`) satisfies the leaf hypothesis of `TreeBelow`. -/
theorem leaf_copy_keeps_signature (o : Op) (h : C05.Op.WellFormed o) : o.CopyStable :=
  copyStable_of_wellFormed o h

/-- **the general copy lemma.**  On a tree `o` of depth ≤ `f`, `copyObj` (any transfer lookup, any fuel ≥ `f`) returns
    a FRESH tree: its root is the first new object, every object below it is new, it is a tree in the new heap, it has
    the kind and repetition strategy of `o` and — up to order — the same count-expanded leaf signatures; it has the same
    repetition STRATEGY at every level: the expansions agree for EVERY assignment `cnt` of multiplicities to strategies
    (`World.expandWith`; `World.expand` is the instance `cnt r = max 1 (count of r)`, `expand_is_expandWith`); no object
    that existed is written (not even a link) and the count registry is kept. -/
theorem copy_of_tree (w : World) (f o : Nat) (lk : Lookup) (g : Nat) (ht : TreeBelow w f o) (hg : f ≤ g) :
    (w.copyObj g o lk).2.1 = w.ops.size ∧ w.ops.size < (w.copyObj g o lk).1.ops.size ∧
    (∀ j, j < w.ops.size → (w.copyObj g o lk).1.op j = w.op j) ∧ (w.copyObj g o lk).1.rreg = w.rreg ∧
    TreeBelow (w.copyObj g o lk).1 f (w.copyObj g o lk).2.1 ∧
    (∀ j ∈ (w.copyObj g o lk).1.below f (w.copyObj g o lk).2.1, w.ops.size ≤ j) ∧
    ((w.copyObj g o lk).1.op (w.copyObj g o lk).2.1).isComp = (w.op o).isComp ∧
    ((w.op o).isComp = true → ((w.copyObj g o lk).1.op (w.copyObj g o lk).2.1).rep = (w.op o).rep) ∧
    ((w.copyObj g o lk).1.expand f (w.copyObj g o lk).2.1).Perm (w.expand f o) ∧
    (∀ cnt : Rep → Nat,
      ((w.copyObj g o lk).1.expandWith cnt f (w.copyObj g o lk).2.1).Perm (w.expandWith cnt f o)) := by
  have h := copyObj_tree f w o lk g ht hg
  exact ⟨h.id, h.size, h.old, h.rreg, h.tree, h.fresh, h.kind, h.rep, h.expand, h.shape⟩

/-- the count-expanded multiset is `expandWith` at the counts currently in force. -/
theorem expand_is_expandWith (w : World) (f o : Nat) :
    w.expand f o = w.expandWith (fun r => max 1 (w.repCount r)) f o := expand_eq_expandWith w f o

/-- **`extend` keeps separation.**  Extending a tree `c` with the nodes of a separate tree `other` (as `repeat` does with a
    fresh copy) leaves `c` a tree whose content is the two contents; only `c` (its graph) and the appended nodes (their
    links) are written. -/
theorem extend_keeps_tree (w : World) (f c other : Nat) (hc : TreeBelow w (f + 1) c) (hcc : (w.op c).isComp = true)
    (ho : TreeBelow w (f + 1) other) (hoc : (w.op other).isComp = true)
    (hd : ∀ j, j ∈ w.below (f + 1) c → j ∉ w.below (f + 1) other) :
    TreeBelow (w.extend c other) (f + 1) c ∧
    ((w.extend c other).content f c).Perm (w.content f c ++ w.content f other) ∧
    (w.extend c other).ops.size = w.ops.size ∧ (w.extend c other).rreg = w.rreg ∧
    (∀ j, j ≠ c → j ∉ w.kids other → (w.extend c other).op j = w.op j) ∧
    (∀ j, j ≠ c → ((w.extend c other).op j).noLink = (w.op j).noLink) :=
  extend_tree w f c other hc hcc ho hoc hd

/-- **nested counts multiply; all counts are reset to 1; outside operations are untouched.**  For a tree `c` of depth
    ≤ `f` and recursion fuel `g ≥ f` (the fuel of the copies, `depthFuel`, always suffices: a tree has at most as many
    levels as the heap has objects, `tree_depth_le_objects`), after `apply_modifiers_to_self`:
    (a) the count-expanded multiset of leaf signatures below `c` is the one before — every leaf of the original occurs
        product-of-the-enclosing-counts times, now with all counts 1;
    (b) every composite at or below `c` has the count `fixed 1`;
    (c) the heap below `c` is still a tree, made of old objects below `c` and fresh objects;
    (d) every object that existed and is not below `c` is exactly as it was (link included), the count registry is
        untouched, no object disappears. -/
theorem unroll_counts (w : World) (f c g : Nat) (h : TreeBelow w f c) (hg : f ≤ g) :
    ((w.applyModifiers g c).expand f c).Perm (w.expand f c) ∧
    AllOnes (w.applyModifiers g c) f c ∧
    TreeBelow (w.applyModifiers g c) f c ∧
    (∀ j ∈ (w.applyModifiers g c).below f c, j ∈ w.below f c ∨ w.ops.size ≤ j) ∧
    (∀ j, j < w.ops.size → j ∉ w.below f c → (w.applyModifiers g c).op j = w.op j) ∧
    (w.applyModifiers g c).rreg = w.rreg ∧ w.ops.size ≤ (w.applyModifiers g c).ops.size := by
  have s := applyModifiers_tree_any w f c g h hg
  exact ⟨s.expand, s.ones, s.tree, s.sub, s.frame, s.rreg, s.size⟩

/-- the same for the call the driver makes (`World.applyModifiers w w.depthFuel c`): no fuel hypothesis at all, any depth
    bound `f`. -/
theorem unroll_counts_driver (w : World) (f c : Nat) (h : TreeBelow w f c) :
    ((w.applyModifiers w.depthFuel c).expand f c).Perm (w.expand f c) ∧
    AllOnes (w.applyModifiers w.depthFuel c) f c ∧ TreeBelow (w.applyModifiers w.depthFuel c) f c ∧
    (∀ j ∈ (w.applyModifiers w.depthFuel c).below f c, j ∈ w.below f c ∨ w.ops.size ≤ j) ∧
    (∀ j, j < w.ops.size → j ∉ w.below f c → (w.applyModifiers w.depthFuel c).op j = w.op j) ∧
    (w.applyModifiers w.depthFuel c).rreg = w.rreg ∧ w.ops.size ≤ (w.applyModifiers w.depthFuel c).ops.size := by
  have s := applyModifiers_tree_driver w f c h
  exact ⟨s.expand, s.ones, s.tree, s.sub, s.frame, s.rreg, s.size⟩

/-- a tree has at most as many levels as the heap has objects: every tree has a depth bound `≤ ops.size`
    (`< depthFuel`). -/
theorem tree_depth_le_objects (w : World) (f o : Nat) (h : TreeBelow w f o) :
    ∃ f0, f0 ≤ f ∧ f0 ≤ w.ops.size ∧ TreeBelow w f0 o := tree_depth_le_size w f o h

/-- **the unrolled operation listing**: after `apply_modifiers_to_self` the operation listing of `c`
    (`decomposed_operations`, what the exporters and the schedule walk) has, as a multiset of signatures, each leaf of the
    original repeated product-of-the-enclosing-counts times. -/
theorem unroll_listing (w : World) (f c g : Nat) (h : TreeBelow w f c) (hc : (w.op c).isComp = true) (hg : f ≤ g) :
    ((((w.applyModifiers g c).operations c).2).map (fun n => ((w.applyModifiers g c).op n).sig)).Perm
      (w.expand f c) := by
  have s := applyModifiers_tree_any w f c g h hg
  rw [operations_eq_leafListing]
  exact (expand_ones_leafListing_driver _ f c s.tree s.ones (by rw [s.kind]; exact hc)).symm.trans s.expand

/-- **each kind of operation occurs (content × product of the enclosing counts) times**: the number of occurrences of a
    signature `s` in the unrolled operation listing is its number of occurrences in the expansion of the original, and
    that number obeys the multiplication law `counts_multiply` level by level. -/
theorem unroll_occurrences (w : World) (f c g : Nat) (h : TreeBelow w f c) (hc : (w.op c).isComp = true) (hg : f ≤ g)
    (s : Sig) :
    ((((w.applyModifiers g c).operations c).2).map (fun n => ((w.applyModifiers g c).op n).sig)).count s =
      (w.expand f c).count s :=
  (unroll_listing w f c g h hc hg).count_eq s

/-- occurrences in the expansion of a composite = `max 1 count` × the occurrences in the expansions of its nodes. -/
theorem counts_multiply (w : World) (f c : Nat) (s : Sig) (hc : (w.op c).isComp = true) :
    (w.expand (f + 1) c).count s =
      max 1 (w.repCount (w.op c).rep) * ((w.kids c).map (fun n => (w.expand f n).count s)).sum :=
  expand_count w f c s hc

/-- the same for the driver's call. -/
theorem unroll_listing_driver (w : World) (f c : Nat) (h : TreeBelow w f c) (hc : (w.op c).isComp = true) :
    ((((w.applyModifiers w.depthFuel c).operations c).2).map
      (fun n => ((w.applyModifiers w.depthFuel c).op n).sig)).Perm (w.expand f c) := by
  have s := applyModifiers_tree_driver w f c h
  rw [operations_eq_leafListing]
  exact (expand_ones_leafListing_driver _ f c s.tree s.ones (by rw [s.kind]; exact hc)).symm.trans s.expand

/-- **idempotence.**  Applying the modifiers a second time writes NO object that exists (it only allocates the
    abandoned pristine copies): every object — in particular every graph and every count below `c` — is exactly as the
    first application left it, so `c` is the same tree with the same objects, the same expansion, all counts `fixed 1`. -/
theorem unroll_twice (w : World) (f c g g' : Nat) (h : TreeBelow w f c) (hg : f ≤ g) (hg' : f ≤ g') :
    (∀ j, j < (w.applyModifiers g c).ops.size →
      ((w.applyModifiers g c).applyModifiers g' c).op j = (w.applyModifiers g c).op j) ∧
    ((w.applyModifiers g c).applyModifiers g' c).rreg = (w.applyModifiers g c).rreg ∧
    ((w.applyModifiers g c).applyModifiers g' c).below f c = (w.applyModifiers g c).below f c ∧
    ((w.applyModifiers g c).applyModifiers g' c).expand f c = (w.applyModifiers g c).expand f c ∧
    TreeBelow ((w.applyModifiers g c).applyModifiers g' c) f c ∧
    AllOnes ((w.applyModifiers g c).applyModifiers g' c) f c := by
  have s := applyModifiers_tree_any w f c g h hg
  have n := applyModifiers_ones_any (w.applyModifiers g c) f c g' s.tree s.ones (Or.inl hg')
  obtain ⟨k1, k2, k3, k4⟩ := n.keeps s.tree
  exact ⟨n.old, n.rreg, k2, k3, k1, k4 s.ones⟩

/-- idempotence for the two calls the driver makes (each with the `depthFuel` of its own heap). -/
theorem unroll_twice_driver (w : World) (f c : Nat) (h : TreeBelow w f c) :
    (∀ j, j < (w.applyModifiers w.depthFuel c).ops.size →
      ((w.applyModifiers w.depthFuel c).applyModifiers (w.applyModifiers w.depthFuel c).depthFuel c).op j =
        (w.applyModifiers w.depthFuel c).op j) ∧
    ((w.applyModifiers w.depthFuel c).applyModifiers (w.applyModifiers w.depthFuel c).depthFuel c).expand f c =
      (w.applyModifiers w.depthFuel c).expand f c ∧
    AllOnes ((w.applyModifiers w.depthFuel c).applyModifiers (w.applyModifiers w.depthFuel c).depthFuel c) f c := by
  have s := applyModifiers_tree_driver w f c h
  have n := applyModifiers_ones_any (w.applyModifiers w.depthFuel c) f c
    (w.applyModifiers w.depthFuel c).depthFuel s.tree s.ones (Or.inr (by unfold World.depthFuel; omega))
  obtain ⟨_, _, k3, k4⟩ := n.keeps s.tree
  exact ⟨n.old, k3, k4 s.ones⟩

/-! #### API-built heaps are trees -/

/-- a fresh circuit (`DeclarativeCircuit()`) is a tree, and creating it writes nothing that exists. -/
theorem fresh_circuit_is_tree (w : World) (rep : Rep) (f : Nat) :
    (w.newCircuit rep).2 = w.ops.size ∧ TreeBelow (w.newCircuit rep).1 (f + 1) (w.newCircuit rep).2 ∧
    (∀ j, j < w.ops.size → (w.newCircuit rep).1.op j = w.op j) := by
  obtain ⟨h1, h2, _, h4, _⟩ := newCircuit_tree w rep f
  exact ⟨h1, h4, h2.old⟩

/-- `add` of a freshly created leaf operation keeps the tree and appends the operation's signature to the content. -/
theorem add_leaf_keeps_tree (w : World) (f c : Nat) (op : Op) (ht : TreeBelow w (f + 2) c)
    (hcomp : (w.op c).isComp = true) (hl : op.isComp = false) (hs : op.CopyStable) :
    TreeBelow ((w.newOp op).1.add c (w.newOp op).2) (f + 2) c ∧
    ((w.newOp op).1.add c (w.newOp op).2).content (f + 1) c = w.content (f + 1) c ++ [op.sig] ∧
    (∀ j, j < w.ops.size → j ≠ c → ((w.newOp op).1.add c (w.newOp op).2).op j = w.op j) := by
  obtain ⟨h1, _, _, h4, h5, _⟩ := addLeaf_tree w f c op ht hcomp hl hs
  exact ⟨h1, h4, h5⟩

/-- `add_sub_circuit` (which copies the sub-circuit) keeps the tree and appends the sub-circuit's expansion. -/
theorem add_sub_circuit_keeps_tree (w : World) (f c sub : Nat) (ht : TreeBelow w (f + 1) c)
    (hcomp : (w.op c).isComp = true) (hs : TreeBelow w f sub) (hf : f ≤ w.depthFuel) :
    TreeBelow (w.addSub c sub).1 (f + 1) c ∧
    ((w.addSub c sub).1.content f c).Perm (w.content f c ++ w.expand f sub) ∧
    (∀ j, j < w.ops.size → j ≠ c → (w.addSub c sub).1.op j = w.op j) := by
  obtain ⟨h1, _, _, h4, h5, _⟩ := addSub_tree w f c sub ht hcomp hs hf
  exact ⟨h1, h4, h5⟩

/-- the depth bound of `TreeBelow` may be increased without changing the objects below or the expansion. -/
theorem tree_depth_mono (w : World) (f o d : Nat) (h : TreeBelow w f o) :
    TreeBelow w (f + d) o ∧ w.below (f + d) o = w.below f o ∧ w.expand (f + d) o = w.expand f o := h.mono d

/-! #### non-vacuity: a heap built with the model's builder, nesting depth 2 below `top`, counts 2 and 3

`exG` (Lemmas/TreeBuild.lean) is  top = Circuit(); mid = Circuit(repetitions 2); inner = Circuit(repetitions 3);
inner.add(Rx180(0)); mid.add(DispersiveMeasure(0)); mid.add_sub_circuit(inner); top.add_sub_circuit(mid), built with
`newCircuit / newOp / add / addSub`; `TreeBelow` is derived from the constructor lemmas above. -/

/-- hypotheses of `unroll_counts(_driver)`, `unroll_listing(_driver)`, `unroll_twice(_driver)`, `copy_of_tree`,
    `tree_depth_mono`, `tree_depth_le_objects` (tree of depth bound 4 below `top = exF.2`, inside the fuel, `top` is a
    composite). -/
example : TreeBelow exG.1 4 exF.2 ∧ 4 ≤ exG.1.depthFuel ∧ (exG.1.op exF.2).isComp = true :=
  ⟨exG_tree.1, exG_tree.2.1, exG_tree.2.2.1⟩

/-- … and it is not trivial: its expansion is 2 × (measure, 3 × Rx180), so by `unroll_listing` the unrolled operation
    listing of `top` consists of exactly 2 measurements and 6 Rx180 gates. -/
example : ((((exG.1.applyModifiers exG.1.depthFuel exF.2).operations exF.2).2).map
      (fun n => ((exG.1.applyModifiers exG.1.depthFuel exF.2).op n).sig)).Perm
    [exM.sig, exX.sig, exX.sig, exX.sig, exM.sig, exX.sig, exX.sig, exX.sig] :=
  (unroll_listing_driver exG.1 4 exF.2 exG_tree.1 exG_tree.2.2.1).trans exG_tree.2.2.2

/-- hypotheses of `extend_keeps_tree`: in `exD`, `mid` (content [measure]) and `inner` (content [Rx180]) are separate
    trees. -/
example : TreeBelow exD 3 exC.2 ∧ (exD.op exC.2).isComp = true ∧ TreeBelow exD 3 exA.2 ∧
    (exD.op exA.2).isComp = true ∧ (∀ j, j ∈ exD.below 3 exC.2 → j ∉ exD.below 3 exA.2) := exD_separate

/-- hypotheses of `add_leaf_keeps_tree` (`inner`, still empty, and an `Rx180`) and of `add_sub_circuit_keeps_tree`
    (`mid` and `inner` in `exD`). -/
example : TreeBelow exA.1 2 exA.2 ∧ (exA.1.op exA.2).isComp = true ∧ exX.isComp = false ∧ exX.CopyStable :=
  ⟨(newCircuit_tree ({} : World) (.fixed 3) 1).2.2.2.1, (newCircuit_tree ({} : World) (.fixed 3) 1).2.2.2.2.1,
    by decide, exX_stable⟩

example : TreeBelow exD 3 exC.2 ∧ (exD.op exC.2).isComp = true ∧ TreeBelow exD 2 exA.2 ∧ 2 ≤ exD.depthFuel :=
  ⟨exD_facts.2.2.2.2.1, exD_facts.2.2.2.2.2.1, exD_facts.2.2.1, by unfold World.depthFuel; omega⟩

/-- hypothesis of `leaf_copy_keeps_signature`: see the examples of `C05.Op.WellFormed` in Properties/C05.lean; e.g. -/
example : C05.Op.WellFormed exM := by simp [C05.Op.WellFormed, exM, Cls.defaultDur]


end Qco.C06
