import QcoVerif.Model.Builder
namespace Qco.C11
end Qco.C11
