import QcoVerif.Properties.C16
import QcoVerif.Lemmas.ConnSrc
/-
  C16 — tie to the SOURCE TEXT (DESIGN.md §2.3b).  Kept in a file of its own that nothing imports.
-/
namespace Qco.C16
open Qco Qco.Py Qco.Gen.PySrc Qco.ConnSrc

/-- **`get_mutually_allowed`: the source text accepts a step iff every operation of the step is among the operations allowed by
    EVERY operation of the step** (all ordered pairs, the operation itself included) — the shape of the model's
    `Conn.mutuallyAllowed = ops.all (fun t => ops.all (fun s => okPair t s))`; `allowed t` stands for what
    `construct_operation_constraints(t).get_allowed_operations()` answers (operations compare by value: identifiers). -/
theorem mutually_allowed_matches_source (allowed : Nat → List Nat) (ops : List Nat) (conn : Val) (hc : conn = .obj "Layer" 0 []) :
    callFn (connEnv allowed) Gen_get_mutually_allowed [nats ops, conn] =
      .bool (ops.all (fun t => ops.all (fun s => decide (s ∈ allowed t)))) :=
  ConnSrc.mutually_allowed_matches_source allowed ops conn hc

theorem mutually_allowed_is_static : Gen_get_mutually_allowed.decorators = ["staticmethod"] := by decide

end Qco.C16
