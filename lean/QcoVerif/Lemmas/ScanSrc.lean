import QcoVerif.Lemmas.TimingSrc
import QcoVerif.Model.Builder
/-
  The loop of `AcquisitionRegistry.get_registry_at` (translated source, Generated/PySrc.lean) follows the model's two-counter
  scan `acqScan.go`.  Core Lean only.
-/
namespace Qco.ScanSrc
open Qco Qco.Py Qco.Gen.PySrc Qco.TimingSrc

/-- an acquisition identifier: identity = the measurement it belongs to, field `qubit_index`. -/
def identVal (m : Nat) (q : Int) : Val := .obj "AcquisitionIdentifier" m [("qubit_index", .int q)]

/-- a listed operation: `some (m, q)` = a measurement (an `IAcquisitionOperation`), `none` = any other operation. -/
def opVal : Option (Nat × Int) → Val
  | some (m, q) => .obj "DispersiveMeasure" (1000 + m) [("acquisition_identifier", identVal m q)]
  | none => .obj "Rx180" 999 []

def infoVal (p : Int × Int) : Val :=
  .tuple [.str "AcquisitionIndexInfo", .tuple [.str "qubit_level_index", .int p.1], .tuple [.str "circuit_level_index", .int p.2]]

/-- `isinstance(op, IAcquisitionOperation)` by class; `decomposed_operations()` from the pseudo-field; the constructor of the
    result is uninterpreted. -/
def scanEnv : Env :=
  { func := fun f args => match f, args with
      | "isinstance", [.obj c _ _, .str "IAcquisitionOperation"] => some (.bool (c == "DispersiveMeasure"))
      | "AcquisitionIndexInfo", args => some (.tuple (.str "AcquisitionIndexInfo" :: args))
      | _, _ => Option.none
    method := fun recv m _ => match recv with | .obj _ _ fs => lookupField fs (m ++ "()") | _ => Option.none }

def regSelf (ops : List (Option (Nat × Int))) : Val :=
  .obj "AcquisitionRegistry" 0
    [("reference_circuit", .obj "Circuit" 1 [("decomposed_operations()", .list (ops.map opVal))]),
     ("_default", infoVal (-1, -1))]

def loopBody : List Stmt :=
  [.ifs (.call "isinstance" [.name "operation", .str "IAcquisitionOperation"])
    [.assign "qubit_id_match" (.cmp .eq (.attr (.attr (.name "operation") "acquisition_identifier") "qubit_index") (.attr (.name "key") "qubit_index")),
     .assign "key_match" (.cmp .eq (.attr (.name "operation") "acquisition_identifier") (.name "key")),
     .ifs (.name "key_match") [.ret (.call "AcquisitionIndexInfo" [.tuple [.str "qubit_level_index", .name "qubit_level_acquisition_index"], .tuple [.str "circuit_level_index", .name "circuit_level_acquisition_index"]])] [],
     .ifs (.name "qubit_id_match") [.aug "qubit_level_acquisition_index" .add (.int 1)] [],
     .aug "circuit_level_acquisition_index" .add (.int 1)] []]

/-- what the loop needs to know about the variables. -/
structure ScanVars (vs : Vars) (m : Nat) (q ql cl : Int) : Prop where
  key : vs.get "key" = identVal m q
  ql : vs.get "qubit_level_acquisition_index" = .int ql
  cl : vs.get "circuit_level_acquisition_index" = .int cl

theorem get_set_ne (vs : Vars) (x y : String) (v : Val) (h : x ≠ y) : (vs.set x v).get y = vs.get y :=
  vars_get_set_other vs x y v (by simpa using h)

theorem scan_loop (m : Nat) (q : Int) : ∀ (ops : List (Option (Nat × Int))) (vs : Vars) (ql cl : Int),
    ScanVars vs m q ql cl →
    (if (ops.filterMap id).any (fun p => p.1 == m) then
       forLoop (fun vs' v => execBlock scanEnv (vs'.set "operation" v) loopBody) (ops.map opVal) vs =
         .ret (infoVal (acqScan.go m q (ops.filterMap id) ql cl))
     else
       (∃ vs', forLoop (fun vs' v => execBlock scanEnv (vs'.set "operation" v) loopBody) (ops.map opVal) vs = .cont vs' ∧
          vs'.get "self" = vs.get "self") ∧
       acqScan.go m q (ops.filterMap id) ql cl = (-1, -1)) := by
  intro ops
  induction ops with
  | nil => intro vs ql cl _; simp [forLoop, acqScan.go]
  | cons o rest ih =>
    intro vs ql cl hv
    cases o with
    | none =>
      have hstep : execBlock scanEnv (vs.set "operation" (opVal none)) loopBody = .cont (vs.set "operation" (opVal none)) := by
        simp [loopBody, execBlock, exec, eval, evalList, vars_get_set_same, opVal, scanEnv, builtin, Val.truthy]
      have hv' : ScanVars (vs.set "operation" (opVal none)) m q ql cl :=
        ⟨by rw [get_set_ne _ _ _ _ (by decide)]; exact hv.key, by rw [get_set_ne _ _ _ _ (by decide)]; exact hv.ql,
         by rw [get_set_ne _ _ _ _ (by decide)]; exact hv.cl⟩
      have := ih (vs.set "operation" (opVal none)) ql cl hv'
      simp only [List.map_cons, forLoop, hstep, List.filterMap_cons, id]
      split at this
      · rename_i hany; simp only [hany, if_true]; exact this
      · rename_i hany
        simp only [hany, Bool.false_eq_true, if_false]
        obtain ⟨⟨vs', h1, h2⟩, h3⟩ := this
        exact ⟨⟨vs', h1, by rw [h2, get_set_ne _ _ _ _ (by decide)]⟩, h3⟩
    | some p =>
      obtain ⟨m', q'⟩ := p
      have hk := hv.key; have hql := hv.ql; have hcl := hv.cl
      let ov := opVal (some (m', q'))
      cases hm : (m' == m)
      · -- another measurement: counters advance
        have hmi : ((m' : Int) == (m : Int)) = false := by rw [natCast_beq]; exact hm
        have hgo : acqScan.go m q ((m', q') :: rest.filterMap id) ql cl =
            acqScan.go m q (rest.filterMap id) (if q' == q then ql + 1 else ql) (cl + 1) := by
          simp [acqScan.go, hm]
        cases hq : (q' == q)
        · let vs1 := (((vs.set "operation" ov).set "qubit_id_match" (.bool false)).set "key_match" (.bool false)).set
              "circuit_level_acquisition_index" (.int (cl + 1))
          have hstep : execBlock scanEnv (vs.set "operation" ov) loopBody = .cont vs1 := by
            simp [vs1, ov, loopBody, execBlock, exec, eval, evalList, vars_get_set_same, get_set_ne, hk, hql, hcl, opVal, identVal,
              scanEnv, builtin, Val.truthy, getAttr, lookupField, evalCmp, Val.beq, Val.isErr, evalBin, Val.asInt?, intBin, hmi, hm, hq]
          have hv1 : ScanVars vs1 m q ql (cl + 1) :=
            ⟨by simp [vs1, vars_get_set_same, get_set_ne, hk], by simp [vs1, vars_get_set_same, get_set_ne, hql],
              by simp [vs1, vars_get_set_same, get_set_ne]⟩
          have hself : vs1.get "self" = vs.get "self" := by simp [vs1, vars_get_set_same, get_set_ne]
          have := ih vs1 ql (cl + 1) hv1
          simp only [List.map_cons, forLoop, List.filterMap_cons, id, List.any_cons, hm, Bool.false_or, hgo, hq,
            Bool.false_eq_true, if_false]
          rw [show opVal (some (m', q')) = ov from rfl, hstep]
          split at this
          · rename_i hany; simp only [hany, if_true]; exact this
          · rename_i hany
            simp only [hany, Bool.false_eq_true, if_false]
            obtain ⟨⟨vs', h1, h2⟩, h3⟩ := this
            exact ⟨⟨vs', h1, by rw [h2, hself]⟩, h3⟩
        · let vs1 := ((((vs.set "operation" ov).set "qubit_id_match" (.bool true)).set "key_match" (.bool false)).set
              "qubit_level_acquisition_index" (.int (ql + 1))).set "circuit_level_acquisition_index" (.int (cl + 1))
          have hstep : execBlock scanEnv (vs.set "operation" ov) loopBody = .cont vs1 := by
            simp [vs1, ov, loopBody, execBlock, exec, eval, evalList, vars_get_set_same, get_set_ne, hk, hql, hcl, opVal, identVal,
              scanEnv, builtin, Val.truthy, getAttr, lookupField, evalCmp, Val.beq, Val.isErr, evalBin, Val.asInt?, intBin, hmi, hm, hq]
          have hv1 : ScanVars vs1 m q (ql + 1) (cl + 1) :=
            ⟨by simp [vs1, vars_get_set_same, get_set_ne, hk], by simp [vs1, vars_get_set_same, get_set_ne],
              by simp [vs1, vars_get_set_same, get_set_ne]⟩
          have hself : vs1.get "self" = vs.get "self" := by simp [vs1, vars_get_set_same, get_set_ne]
          have := ih vs1 (ql + 1) (cl + 1) hv1
          simp only [List.map_cons, forLoop, List.filterMap_cons, id, List.any_cons, hm, Bool.false_or, hgo, hq, if_true]
          rw [show opVal (some (m', q')) = ov from rfl, hstep]
          split at this
          · rename_i hany; simp only [hany, if_true]; exact this
          · rename_i hany
            simp only [hany, Bool.false_eq_true, if_false]
            obtain ⟨⟨vs', h1, h2⟩, h3⟩ := this
            exact ⟨⟨vs', h1, by rw [h2, hself]⟩, h3⟩
      · -- the measurement asked for: the counters are the answer
        have hmi : ((m' : Int) == (m : Int)) = true := by rw [natCast_beq]; exact hm
        have hgo : acqScan.go m q ((m', q') :: rest.filterMap id) ql cl = (ql, cl) := by
          simp [acqScan.go, hm]
        have hstep : execBlock scanEnv (vs.set "operation" ov) loopBody = .ret (infoVal (ql, cl)) := by
          simp [ov, loopBody, execBlock, exec, eval, evalList, vars_get_set_same, get_set_ne, hk, hql, hcl, opVal, identVal,
            scanEnv, builtin, Val.truthy, getAttr, lookupField, evalCmp, Val.beq, Val.isErr, hmi, hm, infoVal]
        simp only [List.map_cons, forLoop, List.filterMap_cons, id, List.any_cons, hm, Bool.true_or, if_true, hgo]
        rw [show opVal (some (m', q')) = ov from rfl, hstep]

end Qco.ScanSrc
