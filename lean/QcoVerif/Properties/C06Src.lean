import QcoVerif.Properties.C06
import QcoVerif.Lemmas.BuilderSrc
import QcoVerif.Lemmas.FacadeSrc
/-
  C06 — tie to the SOURCE TEXT (DESIGN.md §2.3b).  Kept in a file of its own that nothing imports: a change of the translated
  source functions breaks THESE obligations only, not the build of the property files that import Properties/C06.lean.
-/
namespace Qco.C06
open Qco Qco.C10

/-! ### tie to the SOURCE TEXT of the builder (DESIGN.md §2.3b; proofs in Lemmas/BuilderSrc.lean)

`extend`, `repeat`, `apply_modifiers_to_self`.  The functions act on objects: the fragment records such effects (`Py.callEffects`) instead of executing them. -/

section BuilderSourceTie
open Qco.Py Qco.Gen.PySrc Qco.BuilderSrc

/-- **`extend`**: the appended nodes get — iff they have no relation — the group link to the leaves of `self` (none for an empty graph), then each is `add`ed, in listing order — `World.extend`. -/
theorem extend_matches_source (lv : List Nat) (nodes : List (Nat × Bool)) :
    callEffects builderEnv Composite_extend [extSelf lv, extOther nodes] = extEffects lv nodes :=
  BuilderSrc.extend_matches_source lv nodes

/-- **`repeat(times)`**: one pristine copy, then `times − 1` times `extend(copy of the pristine copy)`. -/
theorem repeat_matches_source (times : Nat) :
    callEffects builderEnv Composite_repeat
        [.obj "CircuitCompositeOperation" 1 [("copy()", .obj "CircuitCompositeOperation" 9 [("copy()", origCopy)])], .int times] =
      List.replicate (times - 1)
        (Val.tuple [.str "call", .obj "CircuitCompositeOperation" 1 [("copy()", .obj "CircuitCompositeOperation" 9 [("copy()", origCopy)])],
                    .str "extend", origCopy]) :=
  BuilderSrc.repeat_matches_source times

/-- **`apply_modifiers_to_self`**: `repeat(count)`, the count becomes `FixedRepetitionStrategy(1)`, every node applies its own modifiers — `World.applyModifiers`. -/
theorem apply_modifiers_matches_source (count : Int) (nodes : List Nat) :
    callEffects builderEnv Composite_apply_modifiers [amSelf count nodes] =
      [Val.tuple [.str "call", amSelf count nodes, .str "repeat", .int count],
       Val.tuple [.str "setattr", amSelf count nodes, .str "repetition_strategy",
                  .tuple [.str "FixedRepetitionStrategy", .tuple [.str "repetitions", .int 1]]]] ++
      nodes.map (fun n => Val.tuple [.str "call", plainOp n, .str "apply_modifiers_to_self"]) :=
  BuilderSrc.apply_modifiers_matches_source count nodes

end BuilderSourceTie



/-! ### the facade `DeclarativeCircuit` as written (Lemmas/FacadeSrc.lean; DESIGN.md §2.3b) -/

section Facade
open Qco.Py Qco.Gen.PySrc Qco.BuilderSrc Qco.FacadeSrc

/-- **`apply_modifiers`**: the structure is modified IN PLACE (`apply_modifiers_to_self` is called on it and answers with the same
    object), and a fresh wrapper receives that structure, the SAME list of added operations and the SAME acquisition registry. -/
theorem facade_apply_modifiers_matches_source :
    let st := stObj 2 [("apply_modifiers_to_self()", stObj 2 [])]
    let fresh := Val.tuple [.str "DeclarativeCircuit", .tuple [.str "nr_qubits", .int 0]]
    callEffects builderEnv Decl_apply_modifiers [declObj 1 st addedObj regObj] =
      [Val.tuple [.str "setattr", fresh, .str "_structure", stObj 2 []],
       Val.tuple [.str "setattr", fresh, .str "_added_operations", addedObj],
       Val.tuple [.str "setattr", fresh, .str "_acquisition_registry", regObj]] :=
  FacadeSrc.apply_modifiers_matches_source 

end Facade

end Qco.C06
