import QcoVerif.Properties.C01
import QcoVerif.Lemmas.Unroll
/-
  C06 — applying repetition modifiers unrolls n back-to-back copies, once.

  Proved here (about definitions the driver executes):
   * the group link created by `extend` refers to the member that ends latest, first one on ties
     (`copy_follows_latest_leaf`, = `pickLatest`);
   * n copies of a block of duration T chained back to back occupy exactly n·T (`chain_span`) — with the previous
     item: if the last-ending operation of the block is the leaf the next copy is hung under, copy k starts at
     start + k·T;
   * counts are read when modifiers are applied (fixed or registry-provided, default 1), a count of 1 adds
     nothing, operations that are not sub-circuits are left alone.
   * **heap level, flat blocks** (`unroll_flat_partial`, `unroll_flat_twice_partial`, `copy_of_flat_block`): for a sub-circuit
     whose nodes are leaf operations, `applyModifiers` leaves count 1 and exactly `max 1 n` times as many leaf nodes, a
     second application adds nothing, and the copy it starts from is a fresh flat block that changes nothing existing
     (Lemmas/Unroll.lean: `add_spec`, `extend_spec`, `copy_flat`, loop invariant `RepInv`).
  NOT proved: the same for NESTED blocks (`unroll_counts`: occurrences × product of the enclosing counts; needs the argument
  at every level plus separation between sibling sub-circuits) — evaluated on the implementation and compared with the
  model on every generated program; the library "n-fold concatenation" clause is false of model and code (finding R5).
-/
namespace Qco.C06

open Qco Qco.C10

/-- the copy appended by `extend` follows the latest-ending leaf of what precedes it (first wins ties). -/
theorem copy_follows_latest_leaf (best : Nat × Int) (xs : List (Nat × Int)) :
    (pickLatest best xs = best ∨ pickLatest best xs ∈ xs) ∧
    best.2 ≤ (pickLatest best xs).2 ∧ ∀ x ∈ xs, x.2 ≤ (pickLatest best xs).2 :=
  Qco.C01.group_reference_is_latest best xs

/-- intervals of `n` back-to-back copies of a block of duration `T` starting at `s`. -/
def chain (s T : Int) (n : Nat) : List (Int × Int) :=
  (List.range n).map (fun (k : Nat) => (s + (k : Int) * T, s + ((k : Int) + 1) * T))

theorem minOf_chain (s T : Int) (hT : 0 ≤ T) (n : Nat) : minOf ((chain s T (n + 1)).map (·.1)) = s := by
  apply minOf_eq
  · simp only [chain, List.map_map, List.mem_map, List.mem_range, Function.comp]
    exact ⟨0, by omega, by simp⟩
  · intro x hx
    simp only [chain, List.map_map, List.mem_map, List.mem_range, Function.comp] at hx
    obtain ⟨k, _, rfl⟩ := hx
    have : 0 ≤ (k : Int) * T := Int.mul_nonneg (Int.natCast_nonneg k) hT
    omega

theorem maxOf_chain (s T : Int) (hT : 0 ≤ T) (n : Nat) :
    maxOf ((chain s T (n + 1)).map (·.2)) = s + ((n : Int) + 1) * T := by
  apply maxOf_eq
  · simp only [chain, List.map_map, List.mem_map, List.mem_range, Function.comp]
    exact ⟨n, by omega, rfl⟩
  · intro x hx
    simp only [chain, List.map_map, List.mem_map, List.mem_range, Function.comp] at hx
    obtain ⟨k, hk, rfl⟩ := hx
    have h1 : (k : Int) + 1 ≤ (n : Int) + 1 := by omega
    have := Int.mul_le_mul_of_nonneg_right h1 hT
    omega

/-- **n·T**: a block consisting of n ≥ 1 copies of duration T ≥ 0 chained one after another has lead 0 and
    duration n·T. -/
theorem chain_span (s T : Int) (hT : 0 ≤ T) (n : Nat) :
    leadSpan [s] (chain s T (n + 1)) = (0, ((n : Int) + 1) * T) := by
  unfold leadSpan
  rw [minOf_chain s T hT n, maxOf_chain s T hT n]
  simp only [minOf, List.foldl_nil, Int.sub_self, Prod.mk.injEq, true_and]
  omega

/-- counts are read when modifiers are applied: a fixed count is itself, a registry-provided one is the value
    registered under its key at that time, 1 if none. -/
theorem count_fixed (w : World) (n : Nat) : w.repCount (.fixed n) = n := rfl

theorem count_registry_default (w : World) (k : Nat) (h : ∀ p ∈ w.rreg, p.1 ≠ k) : w.repCount (.reg k) = 1 := by
  unfold World.repCount
  have : w.rreg.find? (fun x => x.1 == k) = none := by
    rw [List.find?_eq_none]; intro x hx; simpa using h x hx
  simp [this]

/-- operations that are not sub-circuits are untouched by `apply_modifiers_to_self`. -/
theorem apply_leaf (w : World) (f o : Nat) (h : (w.op o).isComp = false) : w.applyModifiers f o = w := by
  cases f with
  | zero => rfl
  | succ f => simp [World.applyModifiers, h]

/-! ### the heap-level statement for a flat block

`applyModifiers` (= `apply_modifiers_to_self`) on a block all of whose nodes are leaf operations.  The general statement
(arbitrary nesting: occurrences multiply with the product of the enclosing counts) needs the same argument for every
level plus a separation argument between sibling sub-circuits and is NOT proved; the harness evaluates it on the
implementation at every `apply_modifiers`. -/

theorem foldl_id_of {α β} (f : α → β → α) (L : List β) (a : α) (h : ∀ b ∈ L, f a b = a) : L.foldl f a = a := by
  induction L with
  | nil => rfl
  | cons x xs ih =>
    rw [List.foldl_cons, h x List.mem_cons_self]
    exact ih (fun b hb => h b (List.mem_cons_of_mem _ hb))

/-- **unrolling a flat block** (`_partial`: flat blocks only).  For a sub-circuit `c` whose nodes are leaf operations,
    with repetition count `n` (fixed or registry-provided, read now): after `apply_modifiers_to_self`
    * its count is `1`,
    * its graph holds exactly `max 1 n` times as many nodes as before, all of them leaf operations
      (`n - 1 + 1` in truncated subtraction: a count of `0` is unrolled as one copy — as the code does),
    * the count registry is untouched. -/
theorem unroll_flat_partial (w : World) (f c : Nat) (hc : c < w.ops.size) (hcomp : (w.op c).isComp = true)
    (hflat : FlatIn w c) :
    ((w.applyModifiers (f + 1) c).op c).rep = .fixed 1 ∧
    ((w.applyModifiers (f + 1) c).op c).graph.length =
      (w.op c).graph.length * (w.repCount (w.op c).rep - 1 + 1) ∧
    FlatIn (w.applyModifiers (f + 1) c) c ∧
    (w.applyModifiers (f + 1) c).rreg = w.rreg ∧
    c < (w.applyModifiers (f + 1) c).ops.size ∧ ((w.applyModifiers (f + 1) c).op c).isComp = true := by
  -- phase 1: the pristine copy
  obtain ⟨hid, hf⟩ := copy_flat w c hcomp hflat
  have hccls : (w.op c).cls = .comp := by
    unfold Op.isComp at hcomp; exact eq_of_beq hcomp
  have base : RepInv w c w.ops.size (w.op c).graph.length (w.copy c).1 0 := by
    have hcold := hf.old c hc
    refine ⟨by rw [hf.size]; omega, hf.rreg, noLink_rep hcold, (noLink_cls hcold).trans hccls, ?_, ?_,
      by rw [hf.size]; omega, by omega, ?_, hf.len, ?_⟩
    · rw [noLink_graph hcold]; simp
    · intro n hn
      rw [noLink_graph hcold] at hn
      have := hflat n hn
      refine ⟨by rw [hf.size]; omega, ?_⟩
      rw [noLink_isComp (hf.old n this.1)]; exact this.2
    · unfold Op.isComp; rw [hf.cls]; rfl
    · intro n hn
      rw [mem_listing_iff] at hn
      obtain ⟨e, he, hen⟩ := hn
      have hb := hf.nodes e he
      rw [hen] at hb
      exact ⟨hb.2, hf.fresh n hb.1 hb.2⟩
  -- phase 2: the loop
  have loop := repLoop_inv w c w.ops.size (w.op c).graph.length
    (List.range (w.repCount (w.op c).rep - 1)) (w.copy c).1 0 base
  rw [List.length_range, Nat.zero_add] at loop
  -- unfold the definition
  rw [World.applyModifiers]
  simp only [hcomp, Bool.not_true, Bool.false_eq_true, if_false]
  rw [hid] at *
  generalize hw2 : (List.range (w.repCount (w.op c).rep - 1)).foldl
      (fun w_1 _ => (w_1.copy w.ops.size).1.extend c (w_1.copy w.ops.size).2) (w.copy c).1 = w2 at loop
  have hw2' : (List.range (w.repCount (w.op c).rep - 1)).foldl
      (fun w_1 _ => match w_1.copy w.ops.size with | (w_2, cp) => w_2.extend c cp) (w.copy c).1 = w2 := hw2
  -- phase 3: reset the count; phase 4: the nodes are leaves, nothing more happens
  have hc2 : c < w2.ops.size := loop.hc
  have hop3 : ∀ j, (w2.setOp c { w2.op c with rep := .fixed 1 }).op j =
      if c = j then { w2.op c with rep := .fixed 1 } else w2.op j := by
    intro j; rw [op_setOp]
    by_cases hj : c = j
    · subst hj; simp only [hc2, and_self, if_true]
    · simp only [hj, false_and, if_false]
  have hleafs : ∀ n ∈ listing ((w2.setOp c { w2.op c with rep := .fixed 1 }).op c).graph,
      (w2.setOp c { w2.op c with rep := .fixed 1 }).applyModifiers f n =
        w2.setOp c { w2.op c with rep := .fixed 1 } := by
    intro n hn
    rw [hop3 c, if_pos rfl] at hn
    have := loop.cflat n hn
    apply apply_leaf
    rw [hop3 n]
    by_cases hcn : c = n
    · subst hcn
      have hcc : (w2.op c).isComp = true := by unfold Op.isComp; rw [loop.ccls]; rfl
      rw [hcc] at this; cases this.2
    · rw [if_neg hcn]; exact this.2
  have hfold := foldl_id_of (fun (w : World) (n : Nat) => w.applyModifiers f n)
    (listing ((w2.setOp c { w2.op c with rep := .fixed 1 }).op c).graph)
    (w2.setOp c { w2.op c with rep := .fixed 1 }) hleafs
  rw [hfold]
  have hc3 : (w2.setOp c { w2.op c with rep := .fixed 1 }).op c = { w2.op c with rep := .fixed 1 } := by
    rw [hop3 c, if_pos rfl]
  refine ⟨?_, ?_, ?_, ?_, by rw [setOp_size]; exact hc2, ?_⟩
  · rw [hc3]
  · rw [hc3]
    show (w2.op c).graph.length = _
    rw [loop.clen]
  · intro n hn
    rw [hc3] at hn
    have := loop.cflat n hn
    refine ⟨by rw [setOp_size]; exact this.1, ?_⟩
    rw [hop3 n]
    by_cases hcn : c = n
    · subst hcn
      have hcc : (w2.op c).isComp = true := by unfold Op.isComp; rw [loop.ccls]; rfl
      rw [hcc] at this; cases this.2
    · rw [if_neg hcn]; exact this.2
  · show w2.rreg = w.rreg
    exact loop.rreg
  · rw [hc3]
    show (w2.op c).isComp = true
    unfold Op.isComp; rw [loop.ccls]; rfl

/-- the pristine copy `applyModifiers` starts from: a fresh composite (identity = old heap size) with the same count and
    one fresh leaf node per node of the block; every object that existed keeps kind, qubits, count and graph. -/
theorem copy_of_flat_block (w : World) (o : Nat) (ho : (w.op o).isComp = true) (hflat : FlatIn w o) :
    (w.copy o).2 = w.ops.size ∧ ((w.copy o).1.op (w.copy o).2).rep = (w.op o).rep ∧
    ((w.copy o).1.op (w.copy o).2).graph.length = (w.op o).graph.length ∧
    FlatIn (w.copy o).1 (w.copy o).2 ∧
    ∀ j, j < w.ops.size → ((w.copy o).1.op j).noLink = (w.op j).noLink := by
  obtain ⟨hid, hf⟩ := copy_flat w o ho hflat
  rw [hid]
  refine ⟨rfl, hf.rep, hf.len, ?_, hf.old⟩
  intro n hn
  rw [mem_listing_iff] at hn
  obtain ⟨e, he, hen⟩ := hn
  have hb := hf.nodes e he
  rw [hen] at hb
  exact ⟨hb.2, hf.fresh n hb.1 hb.2⟩

/-- **applying the modifiers a second time adds nothing** (flat block): the count stays `1`, the number of nodes is
    unchanged, the nodes are still leaf operations. -/
theorem unroll_flat_twice_partial (w : World) (f g c : Nat) (hc : c < w.ops.size) (hcomp : (w.op c).isComp = true)
    (hflat : FlatIn w c) :
    (((w.applyModifiers (f + 1) c).applyModifiers (g + 1) c).op c).rep = .fixed 1 ∧
    (((w.applyModifiers (f + 1) c).applyModifiers (g + 1) c).op c).graph.length =
      ((w.applyModifiers (f + 1) c).op c).graph.length := by
  obtain ⟨h1, _, h3, _, h5, h6⟩ := unroll_flat_partial w f c hc hcomp hflat
  obtain ⟨k1, k2, _, _, _, _⟩ := unroll_flat_partial (w.applyModifiers (f + 1) c) g c h5 h6 h3
  refine ⟨k1, ?_⟩
  rw [k2, h1]
  show _ * (1 - 1 + 1) = _
  simp

/-- non-vacuity: a block with one `Rx180` and a fixed count of 3 is a flat block of an existing composite. -/
def exFlat : World :=
  { ops := #[{ cls := .comp, rep := .fixed 3, graph := [{ node := 1, parent := none, key := [0] }] },
             { cls := .rx180, qs := [0], dur := .glob .mw }] }

example : 0 < exFlat.ops.size ∧ (exFlat.op 0).isComp = true ∧ FlatIn exFlat 0 := by
  refine ⟨by decide, by decide, ?_⟩
  intro n hn
  have : listing (exFlat.op 0).graph = [1] := by
    simp [exFlat, World.op, listing, sortedEntries]
  rw [this] at hn
  simp only [List.mem_singleton] at hn
  subst hn
  exact ⟨by decide, by decide⟩

/-- non-vacuity of `chain_span`: three copies of a block of duration 2 (16 units) starting at 1. -/
example : leadSpan [8] (chain 8 16 3) = (0, 48) := by decide

end Qco.C06
