import QcoVerif.Lemmas.DefinedCopy
import QcoVerif.Lemmas.UnrollNested
/-
  C01, definedness after unrolling — part A: the side condition and its calculus.

  * `LinksExt w w'`      — the link table only grows (old link objects are immutable);
  * `SingleUnder w f o`  — no group (latest-of) link strictly below `o` (the side condition of the main theorem);
  * `Nested w f o`       — what a fresh copy of such a tree looks like: every node strictly below `o` carries a plain
                           link whose references are nodes of the SAME graph (`addToGraph` guarantees it for plain links);
  * closure of `below` under graph edges and (for `Nested` trees) under link references;
  * congruence lemmas (these predicates only read the objects below and their links);
  * `add` keeps the link of the added object plain.
-/
namespace Qco.DefinedUnroll

open Qco Qco.Defined

/-! ### the link table only grows -/

structure LinksExt (w w' : World) : Prop where
  lsize : w.links.size ≤ w'.links.size
  lnk_old : ∀ l, l < w.links.size → w'.lnk l = w.lnk l

theorem LinksExt.refl (w : World) : LinksExt w w := ⟨Nat.le_refl _, fun _ _ => rfl⟩

theorem LinksExt.trans {a b c : World} (h1 : LinksExt a b) (h2 : LinksExt b c) : LinksExt a c :=
  ⟨Nat.le_trans h1.lsize h2.lsize,
    fun l hl => (h2.lnk_old l (Nat.lt_of_lt_of_le hl h1.lsize)).trans (h1.lnk_old l hl)⟩

theorem LinksExt.of_eq {w w' : World} (h : w'.links = w.links) : LinksExt w w' :=
  ⟨by rw [h]; exact Nat.le_refl _, fun l _ => lnk_links_eq h l⟩

/-- an object that is not written keeps the CONTENT of its link when the link table only grows. -/
theorem lnk_frame {w w' : World} (hc : Closed w) (hl : LinksExt w w') {j : Nat} (hop : w'.op j = w.op j) :
    w'.lnk (w'.op j).link = w.lnk (w.op j).link := by
  rw [hop]; exact hl.lnk_old _ (hc.link j)

/-! ### the side condition and the shape of fresh copies -/

/-- no group link strictly below `o`: every object below `o` other than `o` carries a plain relation link. -/
def SingleUnder (w : World) (f o : Nat) : Prop :=
  ∀ j ∈ w.below f o, j ≠ o → SingleLink (w.lnk (w.op j).link)

/-- every node strictly below `o` carries a plain link whose references are nodes of the same graph. -/
def Nested (w : World) : Nat → Nat → Prop
  | 0, _ => True
  | f+1, o => (w.op o).isComp = true → ∀ n ∈ w.kids o,
      SingleLink (w.lnk (w.op n).link) ∧ (∀ y ∈ (w.lnk (w.op n).link).refs, y ∈ w.kids o) ∧ Nested w f n

theorem nested_leaf (w : World) (f o : Nat) (h : (w.op o).isComp = false) : Nested w f o := by
  cases f with
  | zero => trivial
  | succ f => intro hc; rw [h] at hc; cases hc

/-! ### closure of `below` -/

theorem mem_below_cases {w : World} {f o x : Nat} (hx : x ∈ w.below (f + 1) o) (hne : x ≠ o) :
    (w.op o).isComp = true ∧ ∃ n ∈ w.kids o, x ∈ w.below f n := by
  by_cases hc : (w.op o).isComp = true
  · rw [mem_below_comp w f o x hc] at hx
    rcases hx with h | h
    · exact absurd h hne
    · exact ⟨hc, h⟩
  · have hl : (w.op o).isComp = false := by simpa using hc
    rw [below_leaf w f o hl] at hx
    simp only [List.mem_singleton] at hx
    exact absurd hx hne

/-- the objects below a tree root are closed under "composite → node of its graph". -/
theorem below_kids_closed (w : World) : ∀ (f o : Nat), TreeBelow w f o → ∀ x ∈ w.below f o,
    (w.op x).isComp = true → ∀ y ∈ w.kids x, y ∈ w.below f o := by
  intro f
  induction f with
  | zero => intro o h; exact h.elim
  | succ f ih =>
    intro o ht x hx hcx y hy
    by_cases hxo : x = o
    · subst hxo
      exact below_kid w f x y y hcx hy (ht.kid hcx hy).self_mem
    · obtain ⟨hc, n, hn, hxn⟩ := mem_below_cases hx hxo
      exact below_kid w f o n y hc hn (ih n (ht.kid hc hn) x hxn hcx y hy)

/-- … and, for `Nested` trees, under "object strictly below the root → reference of its link". -/
theorem nested_ref_below (w : World) : ∀ (f o : Nat), TreeBelow w f o → Nested w f o → ∀ x ∈ w.below f o, x ≠ o →
    ∀ y ∈ (w.lnk (w.op x).link).refs, y ∈ w.below f o := by
  intro f
  induction f with
  | zero => intro o h; exact h.elim
  | succ f ih =>
    intro o ht hn x hx hxo y hy
    obtain ⟨hc, n, hnk, hxn⟩ := mem_below_cases hx hxo
    obtain ⟨_, h2, h3⟩ := hn hc n hnk
    by_cases hxn' : x = n
    · subst hxn'
      have hyk := h2 y hy
      exact below_kid w f o y y hc hyk (ht.kid hc hyk).self_mem
    · exact below_kid w f o n y hc hnk (ih n (ht.kid hc hnk) h3 x hxn hxn' y hy)

theorem nested_single (w : World) : ∀ (f o : Nat), TreeBelow w f o → Nested w f o → SingleUnder w f o := by
  intro f
  induction f with
  | zero => intro o h; exact h.elim
  | succ f ih =>
    intro o ht hn x hx hxo
    obtain ⟨hc, n, hnk, hxn⟩ := mem_below_cases hx hxo
    obtain ⟨h1, _, h3⟩ := hn hc n hnk
    by_cases hxn' : x = n
    · subst hxn'; exact h1
    · exact ih n (ht.kid hc hnk) h3 x hxn hxn'

theorem singleUnder_kid {w : World} {f o n : Nat} (ht : TreeBelow w (f + 1) o) (hc : (w.op o).isComp = true)
    (hs : SingleUnder w (f + 1) o) (hn : n ∈ w.kids o) :
    SingleLink (w.lnk (w.op n).link) ∧ SingleUnder w f n := by
  have hno : ∀ j ∈ w.below f n, j ≠ o := fun j hj hjo => ht.not_below_kid hc hn (hjo ▸ hj)
  refine ⟨hs n (below_kid w f o n n hc hn (ht.kid hc hn).self_mem) (hno n (ht.kid hc hn).self_mem), ?_⟩
  intro j hj _
  exact hs j (below_kid w f o n j hc hn hj) (hno j hj)

/-! ### congruence -/

theorem singleUnder_congr {w w' : World} {f o : Nat}
    (h1 : ∀ j ∈ w.below f o, (w'.op j).noLink = (w.op j).noLink)
    (h2 : ∀ j ∈ w.below f o, j ≠ o → w'.lnk (w'.op j).link = w.lnk (w.op j).link)
    (hs : SingleUnder w f o) : SingleUnder w' f o := by
  intro j hj hjo
  rw [below_congr w w' f o h1] at hj
  rw [h2 j hj hjo]
  exact hs j hj hjo

theorem nested_congr (w w' : World) : ∀ (f o : Nat), TreeBelow w f o →
    (∀ j ∈ w.below f o, (w'.op j).noLink = (w.op j).noLink) →
    (∀ j ∈ w.below f o, j ≠ o → w'.lnk (w'.op j).link = w.lnk (w.op j).link) →
    Nested w f o → Nested w' f o := by
  intro f
  induction f with
  | zero => intro o h; exact h.elim
  | succ f ih =>
    intro o ht h1 h2 hn hc'
    have ho := h1 o (self_mem_below w f o)
    have hc : (w.op o).isComp = true := by rw [← noLink_isComp ho]; exact hc'
    have hk : w'.kids o = w.kids o := kids_of_noLink ho
    rw [hk]
    intro n hnk
    obtain ⟨a1, a2, a3⟩ := hn hc n hnk
    have hnb : n ∈ w.below (f + 1) o := below_kid w f o n n hc hnk (ht.kid hc hnk).self_mem
    have hno : ∀ j ∈ w.below f n, j ≠ o := fun j hj hjo => ht.not_below_kid hc hnk (hjo ▸ hj)
    have hl : w'.lnk (w'.op n).link = w.lnk (w.op n).link := h2 n hnb (hno n (ht.kid hc hnk).self_mem)
    rw [hl]
    refine ⟨a1, a2, ih n (ht.kid hc hnk) (fun j hj => h1 j (below_kid w f o n j hc hnk hj)) ?_ a3⟩
    intro j hj _
    exact h2 j (below_kid w f o n j hc hnk hj) (hno j hj)

/-! ### `add` keeps the link of the added object plain -/

/-- after `addToGraph` the link of `o` has the content it had, or is a fresh plain link. -/
theorem addToGraph_link_cases (w : World) (g : List Entry) (o : Nat) (hv : ∀ j, (w.op j).link < w.links.size) :
    (w.addToGraph g o).1.lnk ((w.addToGraph g o).1.op o).link = w.lnk (w.op o).link ∨
    SingleLink ((w.addToGraph g o).1.lnk ((w.addToGraph g o).1.op o).link) := by
  have hrel : ∀ (w1 : World) (L : Link), w1.ops = w.ops → w1.links = w.links → SingleLink L →
      ((w1.newLink L).1.setLink o (w1.newLink L).2).lnk (((w1.newLink L).1.setLink o (w1.newLink L).2).op o).link
        = w.lnk (w.op o).link ∨
      SingleLink (((w1.newLink L).1.setLink o (w1.newLink L).2).lnk
        (((w1.newLink L).1.setLink o (w1.newLink L).2).op o).link) := by
    intro w1 L hops hl hL
    rw [lnk_setLink, op_setLink]
    split
    · right
      simp only
      rw [lnk_newLink_new]; exact hL
    · left
      have : (w1.newLink L).1.op o = w.op o := op_ops_eq (show (w1.newLink L).1.ops = w.ops from hops) o
      rw [this, lnk_newLink_old w1 L _ (by rw [hl]; exact hv o)]
      exact lnk_links_eq hl _
  unfold World.addToGraph
  simp only
  cases hleaf : w.leafAtAny g (w.chansOf o) with
  | none =>
    split
    · exact Or.inl rfl
    · split
      · split
        · exact Or.inl rfl
        · exact hrel _ _ rfl rfl ⟨rfl, by decide⟩
      · exact hrel _ _ rfl rfl ⟨rfl, by decide⟩
  | some lf =>
    split
    · exact hrel _ _ rfl rfl ⟨rfl, Nat.le_refl 1⟩
    · split
      · split
        · exact Or.inl rfl
        · exact hrel _ _ rfl rfl ⟨rfl, Nat.le_refl 1⟩
      · exact hrel _ _ rfl rfl ⟨rfl, Nat.le_refl 1⟩

theorem add_link_single {w : World} (hc : Closed w) (c o : Nat) (hs : SingleLink (w.lnk (w.op o).link)) :
    SingleLink ((w.add c o).lnk ((w.add c o).op o).link) := by
  unfold World.add
  simp only
  rw [setGraph_link, lnk_setGraph]
  rcases addToGraph_link_cases w (w.op c).graph o hc.link with h | h
  · rw [h]; exact hs
  · exact h

/-- after `add c o` the references of a plain link of `o` are nodes of `c` (as it was before the `add`). -/
theorem add_refs_single {w : World} (hc : Closed w) (c o : Nat) (ho : o < w.ops.size)
    (hs : SingleLink (w.lnk (w.op o).link)) :
    ∀ r ∈ ((w.add c o).lnk ((w.add c o).op o).link).refs, r ∈ w.kids c := by
  have ls := addToGraph_linkStep w (w.op c).graph o hc.link
  intro r hr
  unfold World.add at hr
  simp only at hr
  rw [setGraph_link, lnk_setGraph] at hr
  have := ls.refs_o_single ho hs r hr
  unfold World.kids
  exact (listing_perm _).mem_iff.mp this

theorem add_linksExt {w : World} (hc : Closed w) (c o : Nat) : LinksExt w (w.add c o) :=
  ⟨add_links_size hc c o, fun l hl => add_lnk_old hc c o l hl⟩

end Qco.DefinedUnroll
