import QcoVerif.Model.Connectivity
import QcoVerif.Lemmas.PyBridge
/-
  C16 — source ties of the frequency ordering (`FrequencyGroupIdentifier.is_equal_to / is_higher_than / is_lower_than`) and of
  `on_moving_side`, `get_higher_frequency_qubit_id`, `get_lower_frequency_qubit_id` (connectivity_surface_code.py).
  The method calls the source makes on `self` are answered by RUNNING the translated source of the callee (no model function in
  between); the edge methods `contains / get_connected_qubit_id` are answered by the model's `Edge.has / Edge.other` (their own
  source ties are C19's `edge_contains_matches_source`, `edge_connected_matches_source`).  Core Lean only.
-/
set_option linter.unusedSimpArgs false
namespace Qco.FreqSrc
open Qco Qco.Py Qco.Gen.PySrc Qco.Conn

def freqName : Freq → String
  | .low => "LOW" | .mid => "MID" | .high => "HIGH"

/-- a `FrequencyGroupIdentifier`; `id` is the property over `_id`. -/
def freqObj (f : Freq) : Val := .obj "FrequencyGroupIdentifier" 0 [("id", .enum "FrequencyGroup" (freqName f))]

theorem is_equal_to_matches_source (a b : Freq) :
    callFn {} Freq_is_equal_to [freqObj a, freqObj b] = .bool (a == b) := by
  cases a <;> cases b <;> rfl

/-- `self.is_equal_to(other)` runs the translated source of `is_equal_to`. -/
def env1 : Env :=
  { method := fun recv m args => match m with
      | "is_equal_to" => some (callFn {} Freq_is_equal_to (recv :: args))
      | _ => Option.none }

theorem is_higher_than_matches_source (a b : Freq) :
    callFn env1 Freq_is_higher_than [freqObj a, freqObj b] = .bool (a.isHigher b) := by
  cases a <;> cases b <;> rfl

/-- `self.is_equal_to(other)`, `self.is_higher_than(other)` run the translated sources. -/
def env2 : Env :=
  { method := fun recv m args => match m with
      | "is_equal_to" => some (callFn {} Freq_is_equal_to (recv :: args))
      | "is_higher_than" => some (callFn env1 Freq_is_higher_than (recv :: args))
      | _ => Option.none }

theorem is_lower_than_matches_source (a b : Freq) :
    callFn env2 Freq_is_lower_than [freqObj a, freqObj b] = .bool (a.isLower b) := by
  cases a <;> cases b <;> rfl

/-! ### `on_moving_side` and the two selectors -/

def edgeVal (e : Edge) : Val := .obj "EdgeIDObj" 0 [("qubit_ids", .list [.int e.1, .int e.2])]

def decodeEdge : Val → Option Edge
  | .obj _ _ [(_, .list [.int a, .int b])] => some (a.toNat, b.toNat)
  | _ => Option.none

/-- `x.is_higher_than(o)`: the translated source of `is_higher_than`, run. -/
def higherSrc (recv o : Val) : Val := callFn env1 Freq_is_higher_than [recv, o]

theorem higherSrc_eq (a b : Freq) :
    higherSrc (.obj "FrequencyGroupIdentifier" 0 [("id", .enum "FrequencyGroup" (freqName a))])
      (.obj "FrequencyGroupIdentifier" 0 [("id", .enum "FrequencyGroup" (freqName b))]) = .bool (a.isHigher b) :=
  is_higher_than_matches_source a b

/-- the connectivity layer answers `get_frequency_group_identifier(q)` with the table `freqOf`; an edge answers `contains` and
    `get_connected_qubit_id` as the model's `Edge.has / Edge.other`; a frequency identifier runs the source of `is_higher_than`.
    (Written as an `if` chain on the method name: a `match` on string literals makes `simp` decide string equality by `whnf`.) -/
def connEnv : Env :=
  { method := fun recv m args =>
      if m == "contains" then
        (match args with | [.int q] => (decodeEdge recv).map (fun e => Val.bool (e.has q.toNat)) | _ => Option.none)
      else if m == "get_connected_qubit_id" then
        (match args with | [.int q] => (decodeEdge recv).map (fun e => Val.int (e.other q.toNat)) | _ => Option.none)
      else if m == "get_frequency_group_identifier" then
        (match args with | [.int q] => some (freqObj (freqOf q.toNat)) | _ => Option.none)
      else if m == "is_higher_than" then (match args with | [o] => some (higherSrc recv o) | _ => Option.none)
      else Option.none }

theorem decode_edgeVal (e : Edge) : decodeEdge (edgeVal e) = some e := by
  obtain ⟨a, b⟩ := e
  simp [decodeEdge, edgeVal]

theorem on_moving_side_matches_source (q : Qubit) (e : Edge) (conn : Val) :
    callFn connEnv Conn_on_moving_side [.int q, edgeVal e, conn] = .bool (onMovingSide q e) := by
  unfold onMovingSide
  cases h : e.has q <;>
    py_simp [Conn_on_moving_side, connEnv, decode_edgeVal, h, higherSrc_eq, freqObj]

/-- `on_moving_side(…)` called by name: its translated source, run. -/
def movingSrc (args : List Val) : Val := callFn connEnv Conn_on_moving_side args

theorem movingSrc_eq (q a b : Nat) (conn : Val) :
    movingSrc [.int q, .obj "EdgeIDObj" 0 [("qubit_ids", .list [.int a, .int b])], conn] = .bool (onMovingSide q (a, b)) :=
  on_moving_side_matches_source q (a, b) conn

def connEnv2 : Env :=
  { connEnv with
    func := fun f args => if f == "on_moving_side" then some (movingSrc args) else Option.none }

theorem get_higher_matches_source (e : Edge) (conn : Val) :
    callFn connEnv2 Conn_get_higher_frequency_qubit_id [edgeVal e, conn] =
      .int (if onMovingSide e.1 e then e.1 else e.other e.1) := by
  obtain ⟨a, b⟩ := e
  cases h : onMovingSide a (a, b) <;>
    py_simp [Conn_get_higher_frequency_qubit_id, connEnv2, connEnv, decodeEdge, edgeVal, movingSrc_eq, h]

theorem get_lower_matches_source (e : Edge) (conn : Val) :
    callFn connEnv2 Conn_get_lower_frequency_qubit_id [edgeVal e, conn] =
      .int (if !onMovingSide e.1 e then e.1 else e.other e.1) := by
  obtain ⟨a, b⟩ := e
  cases h : onMovingSide a (a, b) <;>
    py_simp [Conn_get_lower_frequency_qubit_id, connEnv2, connEnv, decodeEdge, edgeVal, movingSrc_eq, h]

end Qco.FreqSrc
