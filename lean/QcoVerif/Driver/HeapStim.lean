import QcoVerif.Driver.Heap
import QcoVerif.Model.StimExport
/-
  Extension of the `heap` session protocol (Stim). `step` returns `none` for commands it does not know.

    stim <c>        flattened export of circuit c: `NAME:targets:args;… # <measurements>` | `error` | `undef`
    stimcount <c>   number of measurement results | `error` | `undef`
    stimtable       the class → gate-name table, `Class=NAME,…` in `Cls.all` order (unsupported omitted)
    stimop <Class> <qubits> <ints>   translation of one free-standing operation: instruction | `none` | `error`
-/
namespace Qco.Driver.HeapStim

open Qco Qco.Driver

def answer (w : World) (c : Nat) (f : List Instr → String) : String :=
  if !w.nestWithin w.depthFuel c then "undef" else
  match w.stimExport? c with
  | none => "error"
  | some l => f l

def step (s : Sess) (toks : List String) : Option (Sess × String) :=
  match toks with
  | ["stim", c] =>
    match c.toNat? with
    | some c => if c ≥ s.circs.size then some (s, "bad-op") else
      some (s, answer s.w s.circs[c]! showProgram)
    | none => some (s, "bad-op")
  | ["stimcount", c] =>
    match c.toNat? with
    | some c => if c ≥ s.circs.size then some (s, "bad-op") else
      some (s, answer s.w s.circs[c]! (fun l => toString (measCount l)))
    | none => some (s, "bad-op")
  | ["stimtable"] =>
    some (s, ",".intercalate (Cls.all.filterMap (fun c => c.stimName.map (fun n => c.name ++ "=" ++ n))))
  | ["stimop", cls, qs, ints] =>
    match Cls.ofName? cls, parseList String.toInt? qs, parseList parseOptInt? ints with
    | some cls, some qs, some ints =>
      let o : Op := { cls := cls, qs := qs, ints := ints }
      some (s, match translate o with
        | none => "none"
        | some i => if o.stimOk then i.show else "error")
    | _, _, _ => some (s, "bad-op")
  | _ => none

end Qco.Driver.HeapStim
