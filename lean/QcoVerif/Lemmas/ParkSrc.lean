import QcoVerif.Lemmas.FreqSrc
import QcoVerif.Lemmas.TimingSrc
/-
  C16 — source tie of `get_requires_parking` (connectivity_surface_code.py): the translated source, run by the interpreter of
  Model/PyLang.lean, computes the model's `Conn.requiresParking` for ALL qubits and ALL lists of edges.  Core Lean only.
-/
set_option linter.unusedSimpArgs false
namespace Qco.ParkSrc
open Qco Qco.Py Qco.Gen.PySrc Qco.Conn Qco.FreqSrc Qco.TimingSrc

theorem get_set_ne (vs : Vars) (x y : String) (v : Val) (h : x ≠ y) : (vs.set x v).get y = vs.get y :=
  vars_get_set_other vs x y v (by simpa using h)

/-- the environment of `get_requires_parking`: as `FreqSrc.connEnv2`, and the two `get_neighbors` (the module function on an edge,
    the method of the connectivity layer with order 1) answered by the model's `edgeNeighbors / neighbors`. -/
def parkEnv : Env :=
  { method := fun recv m args =>
      if m == "get_neighbors" then
        (match recv, args with
         | .obj _ _ _, [.int q, .int k] =>
             if k == 1 then some (.list ((neighbors q.toNat).map (fun (n : Nat) => Val.int n))) else Option.none
         | _, _ => Option.none)
      else connEnv.method recv m args
    func := fun f args =>
      if f == "on_moving_side" then some (movingSrc args)
      else if f == "get_neighbors" then
        (match args with
         | [ev, _] => (decodeEdge ev).map (fun e => Val.list ((edgeNeighbors e).map (fun (n : Nat) => Val.int n)))
         | _ => Option.none)
      else Option.none }

theorem memBy_qEq (x : Nat) (l : List Nat) : memBy qEq x l = decide (x ∈ l) := by
  unfold memBy qEq
  induction l with
  | nil => rfl
  | cons a as ih =>
    rw [List.any_cons, ih]
    by_cases h : a = x
    · subst h; simp
    · have h2 : ¬ (x = a) := fun h' => h h'.symm
      simp [h, h2]

/-! ### the builtins the function uses (by computation; unfolding `builtin` in `simp` would build the splitter of its big `match`) -/

theorem builtin_np_any (l : List Val) :
    builtin "np.any" [.list l] = some (.bool (l.any (fun x => x.truthy == some true))) := rfl
theorem builtin_any (l : List Val) :
    builtin "any" [.list l] = some (.bool (l.any (fun x => x.truthy == some true))) := rfl
theorem builtin_zip3 (a b c : List Val) :
    builtin "zip" [.list a, .list b, .list c] =
      some (.list (List.zipWith (fun x yz => Val.tuple (x :: yz)) a (List.zipWith (fun y z => [y, z]) b c))) := rfl
theorem builtin_get_neighbors (a b : Val) : builtin "get_neighbors" [a, b] = Option.none := rfl
theorem builtin_on_moving_side (a b c : Val) : builtin "on_moving_side" [a, b, c] = Option.none := rfl

/-! ### the pieces of the body -/

def specElt : Expr :=
  .cmp .in_ (.name "element") (.call "get_neighbors" [.name "edge_id", .name "connectivity"])
def specExpr : Expr := .call "np.any" [.comp specElt "edge_id" (.name "edge_ids")]
def inclElt : Expr := .mcall (.name "edge_id") "contains" [.name "element"]
def inclExpr : Expr := .call "np.any" [.comp inclElt "edge_id" (.name "edge_ids")]

def innerBody : List Stmt :=
  [.ifs (.cmp .in_ (.name "qubit_id") (.name "neighboring_qubit_ids"))
    [.aug "involved_neighbors" .add (.list [.name "qubit_id"]), .aug "involved_neighbor_edges" .add (.list [.name "edge_id"])] []]
def outerBody : List Stmt := [.for_ "qubit_id" (.attr (.name "edge_id") "qubit_ids") innerBody]

def fgElt : Expr := .mcall (.name "connectivity") "get_frequency_group_identifier" [.name "qubit_id"]
def fgExpr : Expr := .comp fgElt "qubit_id" (.name "involved_neighbors")
def finalElt : Expr :=
  .and (.mcall (.name "neighbor_frequency_group") "is_higher_than" [.name "frequency_group"])
    (.call "on_moving_side" [.name "neighbor_qubit_id", .name "neighbor_edge_id", .name "connectivity"])
def finalExpr : Expr :=
  .call "any" [.compT finalElt ["neighbor_qubit_id", "neighbor_frequency_group", "neighbor_edge_id"]
    (.call "zip" [.name "involved_neighbors", .name "involved_frequency_groups", .name "involved_neighbor_edges"])]

theorem body_eq : Conn_get_requires_parking.body =
    [.assign "spectator" specExpr,
     .ifs (.not (.name "spectator")) [.ret (.bool false)] [],
     .assign "edge_included" inclExpr,
     .ifs (.name "edge_included") [.ret (.bool false)] [],
     .assign "frequency_group" (.mcall (.name "connectivity") "get_frequency_group_identifier" [.name "element"]),
     .assign "neighboring_qubit_ids" (.mcall (.name "connectivity") "get_neighbors" [.name "element", .int 1]),
     .assign "involved_neighbors" (.list []),
     .assign "involved_neighbor_edges" (.list []),
     .for_ "edge_id" (.name "edge_ids") outerBody,
     .assign "involved_frequency_groups" fgExpr,
     .ret finalExpr] := rfl

/-! ### (a), (b): the two `np.any` -/

theorem specElt_eval (q : Nat) (conn : Val) (vs : Vars) (e : Edge)
    (hq : vs.get "element" = .int q) (hc : vs.get "connectivity" = conn) :
    eval parkEnv (vs.set "edge_id" (edgeVal e)) specElt = .bool (memBy qEq q (edgeNeighbors e)) := by
  have h1 : (vs.set "edge_id" (edgeVal e)).get "element" = .int q := by rw [get_set_ne _ _ _ _ (by decide)]; exact hq
  have h2 : (vs.set "edge_id" (edgeVal e)).get "connectivity" = conn := by rw [get_set_ne _ _ _ _ (by decide)]; exact hc
  simp [specElt, eval, evalList, vars_get_set_same, h1, h2, builtin_get_neighbors, parkEnv, decode_edgeVal, evalCmp, Val.elems?, memBy_qEq]


theorem any_truthy_bool {α} (l : List α) (f : α → Bool) :
    (l.map (fun a => Val.bool (f a))).any (fun x => x.truthy == some true) = l.any f := by
  induction l with
  | nil => rfl
  | cons a as ih =>
    rw [List.map_cons, List.any_cons, List.any_cons, ih]
    cases f a <;> rfl

theorem specExpr_eval (q : Nat) (es : List Edge) (conn : Val) (vs : Vars)
    (hq : vs.get "element" = .int q) (he : vs.get "edge_ids" = .list (es.map edgeVal)) (hc : vs.get "connectivity" = conn) :
    eval parkEnv vs specExpr = .bool (es.any (fun e => memBy qEq q (edgeNeighbors e))) := by
  have h : ∀ e, eval parkEnv (vs.set "edge_id" (edgeVal e)) specElt = .bool (memBy qEq q (edgeNeighbors e)) :=
    fun e => specElt_eval q conn vs e hq hc
  simp only [specExpr, eval, evalList, he, Val.elems?, List.map_map, Function.comp_def, h, builtin_np_any,
    any_truthy_bool]

theorem inclElt_eval (q : Nat) (vs : Vars) (e : Edge) (hq : vs.get "element" = .int q) :
    eval parkEnv (vs.set "edge_id" (edgeVal e)) inclElt = .bool (e.has q) := by
  have h1 : (vs.set "edge_id" (edgeVal e)).get "element" = .int q := by rw [get_set_ne _ _ _ _ (by decide)]; exact hq
  simp [inclElt, eval, evalList, vars_get_set_same, h1, parkEnv, connEnv, decode_edgeVal]

theorem inclExpr_eval (q : Nat) (es : List Edge) (vs : Vars)
    (hq : vs.get "element" = .int q) (he : vs.get "edge_ids" = .list (es.map edgeVal)) :
    eval parkEnv vs inclExpr = .bool (es.any (fun e => e.has q)) := by
  have h : ∀ e, eval parkEnv (vs.set "edge_id" (edgeVal e)) inclElt = .bool (e.has q) := fun e => inclElt_eval q vs e hq
  simp only [inclExpr, eval, evalList, he, Val.elems?, List.map_map, Function.comp_def, h, builtin_np_any,
    any_truthy_bool]


/-! ### (c): the nested loops -/

/-- the model's pairs (neighbour of `q` taking part in a gate, that gate). -/
def pairsOf (nb : List Nat) (es : List Edge) : List (Nat × Edge) :=
  es.flatMap (fun e => e.qubits.filterMap (fun x => if memBy qEq x nb then some (x, e) else none))

def qv (p : Nat × Edge) : Val := .int p.1
def ev (p : Nat × Edge) : Val := edgeVal p.2

/-- what the loops need to know about the variables. -/
structure LoopVars (vs : Vars) (nb : List Nat) (A B : List Val) : Prop where
  nb : vs.get "neighboring_qubit_ids" = .list (nb.map (fun (n : Nat) => Val.int n))
  a : vs.get "involved_neighbors" = .list A
  b : vs.get "involved_neighbor_edges" = .list B

/-- the loops assign only their own four variables. -/
def Frame (vs vs' : Vars) : Prop :=
  ∀ x, x ≠ "edge_id" → x ≠ "qubit_id" → x ≠ "involved_neighbors" → x ≠ "involved_neighbor_edges" → vs'.get x = vs.get x

theorem Frame.refl (vs : Vars) : Frame vs vs := fun _ _ _ _ _ => rfl
theorem Frame.trans {a b c : Vars} (h1 : Frame a b) (h2 : Frame b c) : Frame a c :=
  fun x p q r s => by rw [h2 x p q r s, h1 x p q r s]

theorem inner_step (nb : List Nat) (A B : List Val) (vs : Vars) (x : Nat) (e : Edge)
    (hv : LoopVars vs nb A B) (hE : vs.get "edge_id" = edgeVal e) :
    ∃ vs1, execBlock parkEnv (vs.set "qubit_id" (.int x)) innerBody = .cont vs1 ∧
      LoopVars vs1 nb (A ++ (if memBy qEq x nb then [qv (x, e)] else [])) (B ++ (if memBy qEq x nb then [ev (x, e)] else [])) ∧
      vs1.get "edge_id" = edgeVal e ∧ Frame vs vs1 := by
  obtain ⟨h1, h2, h3⟩ := hv
  rw [memBy_qEq]
  by_cases hx : x ∈ nb
  · refine ⟨((vs.set "qubit_id" (.int x)).set "involved_neighbors" (.list (A ++ [.int x]))).set "involved_neighbor_edges"
        (.list (B ++ [edgeVal e])), ?_, ⟨?_, ?_, ?_⟩, ?_, ?_⟩
    · simp [innerBody, execBlock, exec, eval, evalList, vars_get_set_same, get_set_ne, h1, h2, h3, hE, evalCmp, Val.elems?, hx,
        Val.truthy, evalBin, Val.isErr]
    · simp [get_set_ne, h1]
    · simp [get_set_ne, vars_get_set_same, hx, qv]
    · simp [vars_get_set_same, hx, ev]
    · simp [get_set_ne, hE]
    · intro y y1 y2 y3 y4
      rw [get_set_ne _ _ _ _ (Ne.symm y4), get_set_ne _ _ _ _ (Ne.symm y3), get_set_ne _ _ _ _ (Ne.symm y2)]
  · refine ⟨vs.set "qubit_id" (.int x), ?_, ⟨?_, ?_, ?_⟩, ?_, ?_⟩
    · simp [innerBody, execBlock, exec, eval, evalList, vars_get_set_same, get_set_ne, h1, evalCmp, Val.elems?, hx, Val.truthy]
    · simp [get_set_ne, h1]
    · simp [get_set_ne, h2, hx]
    · simp [get_set_ne, h3, hx]
    · simp [get_set_ne, hE]
    · intro y _ y2 _ _
      rw [get_set_ne _ _ _ _ (Ne.symm y2)]


theorem pairs_one (nb : List Nat) (e : Edge) (f : Nat × Edge → Val) :
    (if memBy qEq e.1 nb then [f (e.1, e)] else []) ++ (if memBy qEq e.2 nb then [f (e.2, e)] else []) =
      (e.qubits.filterMap (fun x => if memBy qEq x nb then some (x, e) else none)).map f := by
  unfold Edge.qubits
  cases h1 : memBy qEq e.1 nb <;> cases h2 : memBy qEq e.2 nb <;> simp [List.filterMap_cons, h1, h2]

theorem edge_step (nb : List Nat) (A B : List Val) (vs : Vars) (e : Edge) (hv : LoopVars vs nb A B) :
    ∃ vs1, execBlock parkEnv (vs.set "edge_id" (edgeVal e)) outerBody = .cont vs1 ∧
      LoopVars vs1 nb (A ++ (e.qubits.filterMap (fun x => if memBy qEq x nb then some (x, e) else none)).map qv)
        (B ++ (e.qubits.filterMap (fun x => if memBy qEq x nb then some (x, e) else none)).map ev) ∧ Frame vs vs1 := by
  have hvE : LoopVars (vs.set "edge_id" (edgeVal e)) nb A B :=
    ⟨by rw [get_set_ne _ _ _ _ (by decide)]; exact hv.nb, by rw [get_set_ne _ _ _ _ (by decide)]; exact hv.a,
     by rw [get_set_ne _ _ _ _ (by decide)]; exact hv.b⟩
  have hE : (vs.set "edge_id" (edgeVal e)).get "edge_id" = edgeVal e := vars_get_set_same _ _ _
  have hF : Frame vs (vs.set "edge_id" (edgeVal e)) := fun y y1 _ _ _ => get_set_ne _ _ _ _ (Ne.symm y1)
  have hiter : (eval parkEnv (vs.set "edge_id" (edgeVal e)) (.attr (.name "edge_id") "qubit_ids")).elems? =
      some [.int e.1, .int e.2] := by
    simp only [eval, hE]
    simp [edgeVal, getAttr, lookupField, Val.elems?]
  obtain ⟨vs1, s1, v1, e1, f1⟩ := inner_step nb A B _ e.1 e hvE hE
  obtain ⟨vs2, s2, v2, _, f2⟩ := inner_step nb _ _ vs1 e.2 e v1 e1
  refine ⟨vs2, ?_, ?_, hF.trans (f1.trans f2)⟩
  · unfold outerBody
    rw [execBlock_for _ _ _ _ _ _ _ hiter]
    simp only [forLoop, s1, s2, execBlock]
  · rw [List.append_assoc, List.append_assoc, pairs_one nb e qv, pairs_one nb e ev] at v2
    exact v2

theorem outer_loop (nb : List Nat) : ∀ (es : List Edge) (A B : List Val) (vs : Vars), LoopVars vs nb A B →
    ∃ vs', forLoop (fun vs' v => execBlock parkEnv (vs'.set "edge_id" v) outerBody) (es.map edgeVal) vs = .cont vs' ∧
      LoopVars vs' nb (A ++ (pairsOf nb es).map qv) (B ++ (pairsOf nb es).map ev) ∧ Frame vs vs' := by
  intro es
  induction es with
  | nil => intro A B vs hv; exact ⟨vs, rfl, by simpa [pairsOf] using hv, Frame.refl vs⟩
  | cons e rest ih =>
    intro A B vs hv
    obtain ⟨vs1, s1, v1, f1⟩ := edge_step nb A B vs e hv
    obtain ⟨vs2, s2, v2, f2⟩ := ih _ _ vs1 v1
    refine ⟨vs2, ?_, ?_, f1.trans f2⟩
    · simp only [List.map_cons, forLoop, s1, s2]
    · have hp : pairsOf nb (e :: rest) =
          (e.qubits.filterMap (fun x => if memBy qEq x nb then some (x, e) else none)) ++ pairsOf nb rest := by
        simp [pairsOf, List.flatMap_cons]
      rw [hp, List.map_append, List.map_append, ← List.append_assoc, ← List.append_assoc]
      exact v2


/-! ### (d), (e): the frequency groups, `zip` and `any` -/

def fg (p : Nat × Edge) : Val := freqObj (freqOf p.1)

theorem fgExpr_eval (P : List (Nat × Edge)) (conn : Val) (vs : Vars)
    (ha : vs.get "involved_neighbors" = .list (P.map qv)) (hc : vs.get "connectivity" = conn) :
    eval parkEnv vs fgExpr = .list (P.map fg) := by
  have h : ∀ p, eval parkEnv (vs.set "qubit_id" (qv p)) fgElt = fg p := by
    intro p
    have h1 : (vs.set "qubit_id" (qv p)).get "connectivity" = conn := by rw [get_set_ne _ _ _ _ (by decide)]; exact hc
    simp [fgElt, eval, evalList, vars_get_set_same, h1, parkEnv, connEnv, qv, fg]
  simp only [fgExpr, eval, ha, Val.elems?, List.map_map, Function.comp_def, h]

theorem zip3_map {α} (P : List α) (f g h : α → Val) :
    List.zipWith (fun x yz => Val.tuple (x :: yz)) (P.map f) (List.zipWith (fun y z => [y, z]) (P.map g) (P.map h)) =
      P.map (fun p => Val.tuple [f p, g p, h p]) := by
  induction P with
  | nil => rfl
  | cons a as ih => simp only [List.map_cons, List.zipWith_cons_cons, ih]

theorem finalElt_eval (q : Nat) (conn : Val) (vs : Vars) (p : Nat × Edge)
    (hf : vs.get "frequency_group" = freqObj (freqOf q)) (hc : vs.get "connectivity" = conn) :
    eval parkEnv (((vs.set "neighbor_qubit_id" (qv p)).set "neighbor_frequency_group" (fg p)).set "neighbor_edge_id" (ev p)) finalElt =
      .bool ((freqOf p.1).isHigher (freqOf q) && onMovingSide p.1 p.2) := by
  obtain ⟨x, a, b⟩ := p
  cases h1 : (freqOf x).isHigher (freqOf q) <;> cases h2 : onMovingSide x (a, b) <;>
    simp [finalElt, eval, evalList, vars_get_set_same, get_set_ne, hf, hc, parkEnv, connEnv, builtin_on_moving_side, qv, fg, ev, freqObj, edgeVal,
      higherSrc_eq, movingSrc_eq, h1, h2, Val.truthy]

theorem finalExpr_eval (q : Nat) (P : List (Nat × Edge)) (conn : Val) (vs : Vars)
    (ha : vs.get "involved_neighbors" = .list (P.map qv)) (hg : vs.get "involved_frequency_groups" = .list (P.map fg))
    (hb : vs.get "involved_neighbor_edges" = .list (P.map ev))
    (hf : vs.get "frequency_group" = freqObj (freqOf q)) (hc : vs.get "connectivity" = conn) :
    eval parkEnv vs finalExpr = .bool (P.any (fun p => (freqOf p.1).isHigher (freqOf q) && onMovingSide p.1 p.2)) := by
  have h := fun p => finalElt_eval q conn vs p hf hc
  simp only [finalExpr, eval, evalList, ha, hg, hb, builtin_zip3, builtin_any, Val.elems?, zip3_map, List.map_map, Function.comp_def,
    bindTuple, h, any_truthy_bool]


/-! ### the block, statement by statement -/

theorem execBlock_assign (env : Env) (vs : Vars) (x : String) (e : Expr) (rest : List Stmt) (v : Val)
    (h : eval env vs e = v) (hv : v.isErr = false) :
    execBlock env vs (.assign x e :: rest) = execBlock env (vs.set x v) rest := by
  simp [execBlock, exec, h, hv]

theorem execBlock_ifs_skip (env : Env) (vs : Vars) (c : Expr) (t rest : List Stmt) (h : eval env vs c = .bool false) :
    execBlock env vs (.ifs c t [] :: rest) = execBlock env vs rest := by
  simp [execBlock, exec, h, Val.truthy]

theorem execBlock_ifs_ret (env : Env) (vs : Vars) (c e : Expr) (rest : List Stmt) (h : eval env vs c = .bool true) :
    execBlock env vs (.ifs c [.ret e] [] :: rest) = .ret (eval env vs e) := by
  simp [execBlock, exec, h, Val.truthy]

theorem tail_run (q : Nat) (es : List Edge) (conn : Val) (vs : Vars)
    (he : vs.get "edge_ids" = .list (es.map edgeVal)) (hc : vs.get "connectivity" = conn)
    (hf : vs.get "frequency_group" = freqObj (freqOf q)) (hv : LoopVars vs (neighbors q) [] []) :
    execBlock parkEnv vs [.for_ "edge_id" (.name "edge_ids") outerBody, .assign "involved_frequency_groups" fgExpr, .ret finalExpr] =
      .ret (.bool ((pairsOf (neighbors q) es).any (fun p => (freqOf p.1).isHigher (freqOf q) && onMovingSide p.1 p.2))) := by
  have hiter : (eval parkEnv vs (.name "edge_ids")).elems? = some (es.map edgeVal) := by simp [eval, he, Val.elems?]
  obtain ⟨vs1, s1, v1, f1⟩ := outer_loop (neighbors q) es [] [] vs hv
  have ha := v1.a
  have hb := v1.b
  rw [List.nil_append] at ha hb
  have hc1 : vs1.get "connectivity" = conn := by
    rw [f1 _ (by decide) (by decide) (by decide) (by decide)]; exact hc
  have hf1 : vs1.get "frequency_group" = freqObj (freqOf q) := by
    rw [f1 _ (by decide) (by decide) (by decide) (by decide)]; exact hf
  rw [execBlock_for _ _ _ _ _ _ _ hiter, s1]
  show execBlock parkEnv vs1 _ = _
  rw [execBlock_assign _ _ _ _ _ _ (fgExpr_eval _ conn vs1 ha hc1) rfl]
  simp only [execBlock, exec]
  rw [finalExpr_eval q _ conn _ (by rw [get_set_ne _ _ _ _ (by decide)]; exact ha) (vars_get_set_same _ _ _)
    (by rw [get_set_ne _ _ _ _ (by decide)]; exact hb) (by rw [get_set_ne _ _ _ _ (by decide)]; exact hf1)
    (by rw [get_set_ne _ _ _ _ (by decide)]; exact hc1)]

theorem body_run (q : Nat) (es : List Edge) (cls : String) (i : Nat) (fs : List (String × Val)) (vs0 : Vars)
    (g1 : vs0.get "element" = .int q) (g2 : vs0.get "edge_ids" = .list (es.map edgeVal))
    (g3 : vs0.get "connectivity" = .obj cls i fs) :
    execBlock parkEnv vs0 Conn_get_requires_parking.body = .ret (.bool (requiresParking q es)) := by
  rw [body_eq, execBlock_assign _ _ _ _ _ _ (specExpr_eval q es _ vs0 g1 g2 g3) rfl]
  cases hsp : es.any (fun e => memBy qEq q (edgeNeighbors e))
  · rw [execBlock_ifs_ret _ _ _ _ _ (by simp [eval, vars_get_set_same, Val.truthy])]
    simp [eval, requiresParking, hsp]
  rw [execBlock_ifs_skip _ _ _ _ _ (by simp [eval, vars_get_set_same, Val.truthy])]
  rw [execBlock_assign _ _ _ _ _ _ (inclExpr_eval q es _ (by simp [get_set_ne, g1]) (by simp [get_set_ne, g2])) rfl]
  cases hin : es.any (fun e => e.has q)
  case true =>
    rw [execBlock_ifs_ret _ _ _ _ _ (by simp [eval, vars_get_set_same])]
    simp [eval, requiresParking, hsp, hin]
  rw [execBlock_ifs_skip _ _ _ _ _ (by simp [eval, vars_get_set_same])]
  rw [execBlock_assign _ _ _ _ _ (freqObj (freqOf q))
    (by simp [eval, evalList, get_set_ne, g1, g3, parkEnv, connEnv]) rfl]
  rw [execBlock_assign _ _ _ _ _ (.list ((neighbors q).map (fun (n : Nat) => Val.int n)))
    (by simp [eval, evalList, get_set_ne, g1, g3, parkEnv]) rfl]
  rw [execBlock_assign _ _ _ _ _ (.list []) (by simp [eval, evalList]) rfl]
  rw [execBlock_assign _ _ _ _ _ (.list []) (by simp [eval, evalList]) rfl]
  rw [tail_run q es (.obj cls i fs) _ (by simp [get_set_ne, g2]) (by simp [get_set_ne, g3])
    (by simp [get_set_ne, vars_get_set_same]) ⟨by simp [get_set_ne, vars_get_set_same], by simp [get_set_ne, vars_get_set_same],
      by simp [vars_get_set_same]⟩]
  simp [requiresParking, hsp, hin, pairsOf]

/-- **`get_requires_parking`**: the translated source computes the model's `requiresParking`, for every qubit, every list of
    edges and every connectivity object. -/
theorem requires_parking_matches_source_obj (q : Nat) (es : List (Nat × Nat)) (cls : String) (i : Nat) (fs : List (String × Val)) :
    callFn parkEnv Conn_get_requires_parking [.int q, .list (es.map edgeVal), .obj cls i fs] =
      .bool (requiresParking q es) := by
  unfold callFn
  rw [show (Conn_get_requires_parking.params.length != [Val.int q, Val.list (es.map edgeVal), Val.obj cls i fs].length) = false
    from rfl]
  simp only [Bool.false_eq_true, if_false]
  rw [body_run q es cls i fs _ (by simp [Conn_get_requires_parking, bindParams, Vars.get, Vars.set])
    (by simp [Conn_get_requires_parking, bindParams, Vars.get, Vars.set])
    (by simp [Conn_get_requires_parking, bindParams, Vars.get, Vars.set])]

theorem requires_parking_matches_source (q : Nat) (es : List (Nat × Nat)) (conn : Val) (hconn : conn = .obj "Surface17Layer" 0 []) :
    callFn parkEnv Conn_get_requires_parking [.int q, .list (es.map edgeVal), conn] = .bool (requiresParking q es) := by
  subst hconn
  exact requires_parking_matches_source_obj q es _ _ _

end Qco.ParkSrc
