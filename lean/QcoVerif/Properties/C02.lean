import QcoVerif.Lemmas.Graph
import QcoVerif.Lemmas.Listing
/-
  C02 — nothing lost, nothing duplicated: the operation listing is complete, causal and stable.

  The statements are about the definitions the driver executes (`listing`, `attach`, `World.addToGraph`,
  `World.add`, `World.operations`).  Full statement of the property (for every build program the listing of a
  circuit is exactly the added leaves, sub-circuits expanded in place) = `add_listing` (each `add` contributes
  exactly its operation to the node listing, whatever branch of the implicit-linking logic is taken) +
  `operations_expand` (the operation listing is the node listing with sub-circuits expanded recursively) +
  `listing_perm`; `listing_causal_tree` is causality for the tree parent (the reference the operation was
  hung under); causality for the *group* relation created by unrolling is false of model and code — known
  finding R23.
-/
namespace Qco.C02

open Qco

/-- the node listing is a permutation of the inserted nodes: nothing lost, nothing duplicated. -/
theorem listing_perm (g : List Entry) : (listing g).Perm (g.map (·.node)) := Qco.listing_perm g

/-- … in particular it has as many entries as were inserted and no node twice if none was inserted twice. -/
theorem listing_complete (g : List Entry) (h : (g.map (·.node)).Nodup) :
    (listing g).length = g.length ∧ (listing g).Nodup ∧ ∀ n, n ∈ listing g ↔ ∃ e ∈ g, e.node = n :=
  ⟨listing_length g, listing_nodup h, fun _ => mem_listing_iff⟩

/-- `add_to_graph` hangs exactly the new operation into the graph, whichever branch is taken
    (no relation / relation in the graph / relation not in the graph / undefined reference). -/
theorem addToGraph_attach (w : World) (g : List Entry) (o : Nat) :
    ∃ p, (w.addToGraph g o).2 = attach g p o := by
  unfold World.addToGraph
  simp only
  split
  · split
    · exact ⟨none, rfl⟩
    · split <;> exact ⟨_, rfl⟩
  · split
    · split
      · exact ⟨_, rfl⟩
      · split <;> exact ⟨_, rfl⟩
    · split <;> exact ⟨_, rfl⟩

/-- every `add` contributes exactly its operation to the node listing of the circuit. -/
theorem add_listing (w : World) (g : List Entry) (o : Nat) :
    (listing (w.addToGraph g o).2).Perm (o :: listing g) := by
  obtain ⟨p, hp⟩ := addToGraph_attach w g o
  rw [hp]
  exact listing_attach_perm g p o

/-- the operation listing is the node listing with sub-circuits expanded in place (recursively), and
    listing changes nothing but relation links (kind, qubits, channel, duration strategy, tag, fields,
    graphs and counts of every object are untouched). -/
theorem operations_expand (w : World) (c : Nat) :
    (w.operations c).2 = w.leafListing w.depthFuel c ∧ Shape (w.operations c).1 w :=
  ⟨operations_eq_leafListing w c, operations_shape w c⟩

/-- listing twice gives the same sequence: the second listing walks the same graphs. -/
theorem listing_stable (w : World) (c : Nat) :
    ((w.operations c).1.operations c).2 = (w.operations c).2 := operations_twice w c

/-- breadth-first order: a node is never listed before a shallower one; in particular never before the node
    it was hung under (its tree parent), whose key is one step shorter (`KeysOk`, kept by `attach`). -/
theorem listing_causal_tree (g : List Entry) (hk : KeysOk g) {c : Entry} (hc : c ∈ g) {p : Nat}
    (hp : c.parent = some p) :
    ∃ pe ∈ g, pe.node = p ∧ ¬ [c, pe].Sublist (sortedEntries g) := by
  have := hk c hc
  rw [hp] at this
  obtain ⟨pe, hpe, hn, hl⟩ := this
  exact ⟨pe, hpe, hn, not_deeper_first g (by omega)⟩

/-- the invariant `KeysOk` holds for every graph built by `attach` under nodes of the graph. -/
theorem keysOk_preserved {g : List Entry} (h : KeysOk g) (p : Option Nat) (n : Nat)
    (hp : ∀ q, p = some q → inGraph g q = true) : KeysOk (attach g p n) := keysOk_attach h p n hp

/-- non-vacuity: a three-level tree with two branches satisfies the invariant and lists breadth first. -/
example : KeysOk (attach (attach (attach (attach [] none 10) none 11) (some 11) 12) (some 10) 13) ∧
    (attach (attach (attach (attach [] none 10) none 11) (some 11) 12) (some 10) 13).map (·.key) =
      [[0], [1], [1, 0], [0, 0]] := by
  constructor
  · apply keysOk_attach
    · apply keysOk_attach
      · apply keysOk_attach
        · apply keysOk_attach keysOk_nil; intro q h; cases h
        · intro q h; cases h
      · intro q h; cases h; decide
    · intro q h; cases h; decide
  · decide


end Qco.C02
