import QcoVerif.Lemmas.UnrollNested
/-
  API-built heaps are trees: the constructor lemmas `newCircuit_tree` (a fresh circuit), `addLeaf_tree` (`add` of a freshly
  created leaf operation), `addSub_tree` (`add_sub_circuit`, which copies), monotonicity of `TreeBelow` in the depth bound,
  and a worked example (three nested circuits with counts 1, 2, 3) used as non-vacuity witness in Properties/C06.lean.
  Core Lean only.
-/
namespace Qco

/-! ### the depth bound may be increased -/

theorem below_succ (w : World) : ∀ (f o : Nat), TreeBelow w f o → w.below (f + 1) o = w.below f o := by
  intro f
  induction f with
  | zero => intro o h; exact h.elim
  | succ f ih =>
    intro o h
    by_cases hc : (w.op o).isComp = true
    · rw [below_comp w (f + 1) o hc, below_comp w f o hc]
      congr 1
      apply flatMap_congr'
      intro n hn
      exact ih n (h.kid hc hn)
    · have hl : (w.op o).isComp = false := by simpa using hc
      rw [below_leaf w (f + 1) o hl, below_leaf w f o hl]

theorem expand_succ (w : World) : ∀ (f o : Nat), TreeBelow w f o → w.expand (f + 1) o = w.expand f o := by
  intro f
  induction f with
  | zero => intro o h; exact h.elim
  | succ f ih =>
    intro o h
    by_cases hc : (w.op o).isComp = true
    · rw [expand_comp w (f + 1) o hc, expand_comp w f o hc]
      congr 1
      unfold World.content
      apply flatMap_congr'
      intro n hn
      exact ih n (h.kid hc hn)
    · have hl : (w.op o).isComp = false := by simpa using hc
      rw [expand_leaf w (f + 1) o hl, expand_leaf w f o hl]

theorem TreeBelow.succ {w : World} : ∀ {f o : Nat}, TreeBelow w f o → TreeBelow w (f + 1) o := by
  intro f
  induction f with
  | zero => intro o h; exact h.elim
  | succ f ih =>
    intro o h
    by_cases hc : (w.op o).isComp = true
    · refine TreeBelow.comp_intro h.lt hc (h.kids_nodup hc) (fun n hn => ih (h.kid hc hn)) ?_ ?_
      · intro n hn
        rw [below_succ w f n (h.kid hc hn)]
        exact h.not_below_kid hc hn
      · intro a ha b hb hab
        rw [below_succ w f a (h.kid hc ha), below_succ w f b (h.kid hc hb)]
        exact h.disj hc ha hb hab
    · have hl : (w.op o).isComp = false := by simpa using hc
      exact TreeBelow.leaf_intro h.lt hl (h.stable hl)

theorem TreeBelow.mono {w : World} {f o : Nat} (h : TreeBelow w f o) : ∀ (d : Nat),
    TreeBelow w (f + d) o ∧ w.below (f + d) o = w.below f o ∧ w.expand (f + d) o = w.expand f o := by
  intro d
  induction d with
  | zero => exact ⟨h, rfl, rfl⟩
  | succ d ih =>
    obtain ⟨h1, h2, h3⟩ := ih
    exact ⟨h1.succ, (below_succ w _ o h1).trans h2, (expand_succ w _ o h1).trans h3⟩

/-! ### constructors -/

theorem newOp_noWrite (w : World) (op : Op) : NoWrite w (w.newOp op).1 :=
  ⟨by simp [World.newOp], rfl, fun j hj => C05.newOp_op_old w op j hj⟩

theorem newOp_size (w : World) (op : Op) : (w.newOp op).1.ops.size = w.ops.size + 1 := by
  simp [World.newOp]

/-- **a fresh circuit is a tree** (of any positive depth bound), and creating it writes nothing that exists. -/
theorem newCircuit_tree (w : World) (rep : Rep) (f : Nat) :
    (w.newCircuit rep).2 = w.ops.size ∧ NoWrite w (w.newCircuit rep).1 ∧
    (w.newCircuit rep).1.ops.size = w.ops.size + 1 ∧
    TreeBelow (w.newCircuit rep).1 (f + 1) w.ops.size ∧
    ((w.newCircuit rep).1.op w.ops.size).isComp = true ∧
    ((w.newCircuit rep).1.op w.ops.size).rep = rep ∧ (w.newCircuit rep).1.kids w.ops.size = [] := by
  have hnew : (w.newCircuit rep).1.op w.ops.size = { cls := .comp, link := 0, rep := rep } :=
    C05.newOp_op_new w _
  have hk : (w.newCircuit rep).1.kids w.ops.size = [] := by unfold World.kids; rw [hnew]; rfl
  have hcomp : ((w.newCircuit rep).1.op w.ops.size).isComp = true := by rw [hnew]; rfl
  refine ⟨rfl, newOp_noWrite w _, newOp_size w _, ?_, hcomp, by rw [hnew], hk⟩
  refine TreeBelow.of_forest ?_ hcomp (hk ▸ Forest.nil _ _) ?_
  · have := newOp_size w { cls := .comp, link := 0, rep := rep }
    unfold World.newCircuit; omega
  · intro n hn; rw [hk] at hn; cases hn

/-- **`add` of a freshly created leaf operation keeps the tree**: the composite gains one node, its content gains the
    signature of the new operation, nothing else that existed is written. -/
theorem addLeaf_tree (w : World) (f c : Nat) (op : Op) (ht : TreeBelow w (f + 2) c) (hcomp : (w.op c).isComp = true)
    (hl : op.isComp = false) (hs : op.CopyStable) :
    TreeBelow ((w.newOp op).1.add c w.ops.size) (f + 2) c ∧
    ((w.newOp op).1.add c w.ops.size).ops.size = w.ops.size + 1 ∧
    ((w.newOp op).1.add c w.ops.size).rreg = w.rreg ∧
    ((w.newOp op).1.add c w.ops.size).content (f + 1) c = w.content (f + 1) c ++ [op.sig] ∧
    (∀ j, j < w.ops.size → j ≠ c → ((w.newOp op).1.add c w.ops.size).op j = w.op j) ∧
    (((w.newOp op).1.add c w.ops.size).op c).isComp = true ∧
    (((w.newOp op).1.add c w.ops.size).op c).rep = (w.op c).rep ∧
    (∀ j ∈ ((w.newOp op).1.add c w.ops.size).below (f + 2) c, j ∈ w.below (f + 2) c ∨ j = w.ops.size) := by
  have hnw := newOp_noWrite w op
  have hsz := newOp_size w op
  have hnew : (w.newOp op).1.op w.ops.size = op := C05.newOp_op_new w op
  generalize (w.newOp op).1 = w1 at hnw hsz hnew ⊢
  have hc := ht.lt
  have hc1 : c < w1.ops.size := by omega
  obtain ⟨t1, b1, _, _⟩ := hnw.keeps ht
  have hopc : w1.op c = w.op c := hnw.old c hc
  have hcomp1 : (w1.op c).isComp = true := by rw [hopc]; exact hcomp
  have hl1 : (w1.op w.ops.size).isComp = false := by rw [hnew]; exact hl
  have hx : TreeBelow w1 (f + 1) w.ops.size :=
    TreeBelow.leaf_intro (by omega) hl1 (by rw [hnew]; exact hs)
  have hbx : w1.below (f + 1) w.ops.size = [w.ops.size] := below_leaf w1 f _ hl1
  obtain ⟨k1, k2, k3, _⟩ := add_forest w1 (f + 1) c w.ops.size hc1 (t1.forest hcomp1)
    (fun n hn => t1.not_below_kid hcomp1 hn) hx
    (by rw [hbx]; simp only [List.mem_singleton]; omega)
    (by
      intro a ha j hja hjx
      rw [hbx] at hjx
      simp only [List.mem_singleton] at hjx
      have h1 : j ∈ w1.below (f + 2) c := below_kid w1 (f + 1) c a j hcomp1 ha hja
      rw [b1] at h1
      have := below_lt w (f + 2) c ht j h1
      omega)
  obtain ⟨a1, a2, _, a4, a5, _⟩ := add_spec w1 c w.ops.size hc1
  have hcompr : ((w1.add c w.ops.size).op c).isComp = true := by
    unfold Op.isComp; rw [a5]; exact hcomp1
  refine ⟨?_, by rw [a1, hsz], by rw [a2, hnw.rreg], ?_, ?_, hcompr, by rw [a4, hopc], ?_⟩
  · refine TreeBelow.of_forest (by rw [a1]; exact hc1) hcompr (k1 ▸ k2) ?_
    intro n hn hmem
    rw [k1] at hn
    rw [(k3 n hn).1] at hmem
    rcases List.mem_append.mp hn with hn | hn
    · exact t1.not_below_kid hcomp1 hn hmem
    · simp only [List.mem_singleton] at hn
      subst hn
      rw [hbx] at hmem
      simp only [List.mem_singleton] at hmem
      omega
  · have hcont : w1.content (f + 1) c = w.content (f + 1) c :=
      content_congr w w1 hnw.rreg (f + 1) c hcomp
        (fun j hj => op_eq_noLink (hnw.old j (below_lt w (f + 2) c ht j hj)))
    rw [← hcont]
    unfold World.content
    rw [k1, List.flatMap_append]
    have hA : (w1.kids c).flatMap ((w1.add c w.ops.size).expand (f + 1)) =
        (w1.kids c).flatMap (w1.expand (f + 1)) := by
      apply flatMap_congr'
      intro a ha
      exact (k3 a (List.mem_append_left _ ha)).2
    have hB : [w.ops.size].flatMap ((w1.add c w.ops.size).expand (f + 1)) = [op.sig] := by
      simp only [List.flatMap_cons, List.flatMap_nil, List.append_nil]
      rw [(k3 _ (List.mem_append_right _ (List.mem_singleton.mpr rfl))).2, expand_leaf w1 f _ hl1, hnew]
    rw [hA, hB]
  · intro j hj hjc
    rw [add_op_other w1 c w.ops.size j hjc (by omega)]
    exact hnw.old j hj
  · intro j hj
    rw [mem_below_comp _ (f + 1) c j hcompr] at hj
    rcases hj with rfl | ⟨n, hn, hj⟩
    · exact Or.inl (self_mem_below w (f + 1) j)
    · rw [k1] at hn
      rw [(k3 n hn).1] at hj
      rcases List.mem_append.mp hn with hn | hn
      · left
        rw [← b1]
        exact below_kid w1 (f + 1) c n j hcomp1 hn hj
      · simp only [List.mem_singleton] at hn
        subst hn
        rw [hbx] at hj
        simp only [List.mem_singleton] at hj
        exact Or.inr hj

/-- **`add_sub_circuit` keeps the tree**: the sub-circuit is copied, the copy is a fresh tree and becomes a node of `c`;
    the content of `c` gains the expansion of the sub-circuit; nothing else that existed is written. -/
theorem addSub_tree (w : World) (f c sub : Nat) (ht : TreeBelow w (f + 1) c) (hcomp : (w.op c).isComp = true)
    (hs : TreeBelow w f sub) (hf : f ≤ w.depthFuel) :
    TreeBelow (w.addSub c sub).1 (f + 1) c ∧ w.ops.size ≤ (w.addSub c sub).1.ops.size ∧
    (w.addSub c sub).1.rreg = w.rreg ∧
    ((w.addSub c sub).1.content f c).Perm (w.content f c ++ w.expand f sub) ∧
    (∀ j, j < w.ops.size → j ≠ c → (w.addSub c sub).1.op j = w.op j) ∧
    ((w.addSub c sub).1.op c).isComp = true ∧ ((w.addSub c sub).1.op c).rep = (w.op c).rep := by
  have hcs := copyObj_tree f w sub [(w.eqKey sub, c)] w.depthFuel hs hf
  have hadd : (w.addSub c sub).1 =
      (w.copyObj w.depthFuel sub [(w.eqKey sub, c)]).1.add c (w.copyObj w.depthFuel sub [(w.eqKey sub, c)]).2.1 := rfl
  rw [hadd]
  have hid := hcs.id
  rw [hid] at hcs ⊢
  generalize (w.copyObj w.depthFuel sub [(w.eqKey sub, c)]).1 = w1 at hcs ⊢
  have hnw : NoWrite w w1 := ⟨Nat.le_of_lt hcs.size, hcs.rreg, hcs.old⟩
  have hc := ht.lt
  have hc1 : c < w1.ops.size := Nat.lt_trans hc hcs.size
  obtain ⟨t1, b1, _, _⟩ := hnw.keeps ht
  have hopc : w1.op c = w.op c := hnw.old c hc
  have hcomp1 : (w1.op c).isComp = true := by rw [hopc]; exact hcomp
  obtain ⟨k1, k2, k3, _⟩ := add_forest w1 f c w.ops.size hc1 (t1.forest hcomp1)
    (fun n hn => t1.not_below_kid hcomp1 hn) hcs.tree
    (by intro hmem; have := hcs.fresh c hmem; omega)
    (by
      intro a ha j hja hjx
      have h1 : j ∈ w1.below (f + 1) c := below_kid w1 f c a j hcomp1 ha hja
      rw [b1] at h1
      have := below_lt w (f + 1) c ht j h1
      have := hcs.fresh j hjx
      omega)
  obtain ⟨a1, a2, _, a4, a5, _⟩ := add_spec w1 c w.ops.size hc1
  have hcompr : ((w1.add c w.ops.size).op c).isComp = true := by
    unfold Op.isComp; rw [a5]; exact hcomp1
  refine ⟨?_, by rw [a1]; exact hnw.size, by rw [a2, hnw.rreg], ?_, ?_, hcompr, by rw [a4, hopc]⟩
  · refine TreeBelow.of_forest (by rw [a1]; exact hc1) hcompr (k1 ▸ k2) ?_
    intro n hn hmem
    rw [k1] at hn
    rw [(k3 n hn).1] at hmem
    rcases List.mem_append.mp hn with hn | hn
    · exact t1.not_below_kid hcomp1 hn hmem
    · simp only [List.mem_singleton] at hn
      subst hn
      have := hcs.fresh c hmem
      omega
  · have hcont : w1.content f c = w.content f c :=
      content_congr w w1 hnw.rreg f c hcomp
        (fun j hj => op_eq_noLink (hnw.old j (below_lt w (f + 1) c ht j hj)))
    rw [← hcont]
    unfold World.content
    rw [k1, List.flatMap_append]
    refine List.Perm.append ?_ ?_
    · have : (w1.kids c).flatMap ((w1.add c w.ops.size).expand f) = (w1.kids c).flatMap (w1.expand f) := by
        apply flatMap_congr'
        intro a ha
        exact (k3 a (List.mem_append_left _ ha)).2
      rw [this]
    · simp only [List.flatMap_cons, List.flatMap_nil, List.append_nil]
      rw [(k3 _ (List.mem_append_right _ (List.mem_singleton.mpr rfl))).2]
      exact hcs.expand
  · intro j hj hjc
    rw [add_op_other w1 c w.ops.size j hjc (by omega)]
    exact hnw.old j hj

/-! ### a worked example: `top` (count 1) ⊃ `mid` (count 2) = [measure, `inner` (count 3) = [Rx180]]

built with the model's own builder functions; the ids are `inner = exA.2`, `mid = exC.2`, `top = exF.2`. -/

def exX : Op := { cls := .rx180, qs := [0], dur := .glob .mw }
def exM : Op := { cls := .measure, qs := [0], dur := .glob .ro, tag := 1 }

/-- `inner = DeclarativeCircuit(repetitions 3)`. -/
def exA : World × Nat := ({} : World).newCircuit (.fixed 3)
/-- `inner.add(Rx180(0))`. -/
def exB : World := (exA.1.newOp exX).1.add exA.2 exA.1.ops.size
/-- `mid = DeclarativeCircuit(repetitions 2)`. -/
def exC : World × Nat := exB.newCircuit (.fixed 2)
/-- `mid.add(DispersiveMeasure(0))`. -/
def exD : World := (exC.1.newOp exM).1.add exC.2 exC.1.ops.size
/-- `mid.add_sub_circuit(inner)`. -/
def exE : World × Nat := exD.addSub exC.2 exA.2
/-- `top = DeclarativeCircuit()`. -/
def exF : World × Nat := exE.1.newCircuit (.fixed 1)
/-- `top.add_sub_circuit(mid)`. -/
def exG : World × Nat := exF.1.addSub exF.2 exC.2

theorem exX_stable : exX.CopyStable := by unfold Op.CopyStable; decide
theorem exM_stable : exM.CopyStable := by unfold Op.CopyStable; decide

theorem content_of_kids_nil (w : World) (f o : Nat) (h : w.kids o = []) : w.content f o = [] := by
  unfold World.content; rw [h]; rfl

/-- `inner` after `inner.add(Rx180)`: a tree of depth 1 with expansion 3 × Rx180. -/
theorem exB_facts : exB.ops.size = 2 ∧ exA.2 < 1 ∧ TreeBelow exB 2 exA.2 ∧
    exB.expand 2 exA.2 = [exX.sig, exX.sig, exX.sig] ∧ (exB.op exA.2).isComp = true := by
  have nA := newCircuit_tree ({} : World) (.fixed 3) 1
  have sA : exA.1.ops.size = 1 := nA.2.2.1
  have tA : TreeBelow exA.1 2 exA.2 := nA.2.2.2.1
  have cA : (exA.1.op exA.2).isComp = true := nA.2.2.2.2.1
  have rA : (exA.1.op exA.2).rep = .fixed 3 := nA.2.2.2.2.2.1
  have kA : exA.1.kids exA.2 = [] := nA.2.2.2.2.2.2
  have nB := addLeaf_tree exA.1 0 exA.2 exX tA cA (by decide) exX_stable
  have tB : TreeBelow exB 2 exA.2 := nB.1
  have sB : exB.ops.size = exA.1.ops.size + 1 := nB.2.1
  have ctB : exB.content 1 exA.2 = exA.1.content 1 exA.2 ++ [exX.sig] := nB.2.2.2.1
  have cB : (exB.op exA.2).isComp = true := nB.2.2.2.2.2.1
  have rB : (exB.op exA.2).rep = (exA.1.op exA.2).rep := nB.2.2.2.2.2.2.1
  rw [content_of_kids_nil _ _ _ kA, List.nil_append] at ctB
  refine ⟨by omega, by decide, tB, ?_, cB⟩
  rw [expand_comp exB 1 exA.2 cB, ctB, rB, rA]
  rfl

/-- `mid` after `mid.add(measure)`: `inner` is still the same tree, `mid` is a tree with content [measure]. -/
theorem exD_facts : exD.ops.size = 4 ∧ exC.2 = 2 ∧ TreeBelow exD 2 exA.2 ∧
    exD.expand 2 exA.2 = [exX.sig, exX.sig, exX.sig] ∧
    TreeBelow exD 3 exC.2 ∧ (exD.op exC.2).isComp = true ∧ (exD.op exC.2).rep = .fixed 2 ∧
    exD.content 2 exC.2 = [exM.sig] ∧
    (exD.op exA.2).isComp = true ∧ (∀ j ∈ exD.below 2 exA.2, j < 2) ∧ (∀ j ∈ exD.below 3 exC.2, 2 ≤ j) := by
  obtain ⟨sB, iA, tB, xB, cB⟩ := exB_facts
  have nC := newCircuit_tree exB (.fixed 2) 2
  have iC : exC.2 = exB.ops.size := rfl
  have nwC : NoWrite exB exC.1 := nC.2.1
  have sC : exC.1.ops.size = exB.ops.size + 1 := nC.2.2.1
  have tC : TreeBelow exC.1 3 exC.2 := nC.2.2.2.1
  have cC : (exC.1.op exC.2).isComp = true := nC.2.2.2.2.1
  have rC : (exC.1.op exC.2).rep = .fixed 2 := nC.2.2.2.2.2.1
  have kC : exC.1.kids exC.2 = [] := nC.2.2.2.2.2.2
  obtain ⟨tCi, bCi, xCi, _⟩ := nwC.keeps tB
  have nD := addLeaf_tree exC.1 1 exC.2 exM tC cC (by decide) exM_stable
  have tD : TreeBelow exD 3 exC.2 := nD.1
  have sD : exD.ops.size = exC.1.ops.size + 1 := nD.2.1
  have rrD : exD.rreg = exC.1.rreg := nD.2.2.1
  have ctD : exD.content 2 exC.2 = exC.1.content 2 exC.2 ++ [exM.sig] := nD.2.2.2.1
  have frD : ∀ j, j < exC.1.ops.size → j ≠ exC.2 → exD.op j = exC.1.op j := nD.2.2.2.2.1
  have cD : (exD.op exC.2).isComp = true := nD.2.2.2.2.2.1
  have rD : (exD.op exC.2).rep = (exC.1.op exC.2).rep := nD.2.2.2.2.2.2.1
  have bD : ∀ j ∈ exD.below 3 exC.2, j ∈ exC.1.below 3 exC.2 ∨ j = exC.1.ops.size := nD.2.2.2.2.2.2.2
  have bC : exC.1.below 3 exC.2 = [exC.2] := by
    rw [below_comp exC.1 2 exC.2 cC, kC]; rfl
  rw [content_of_kids_nil _ _ _ kC, List.nil_append] at ctD
  have hDsame : ∀ j ∈ exC.1.below 2 exA.2, (exD.op j).noLink = (exC.1.op j).noLink := by
    intro j hj
    rw [bCi] at hj
    have := below_lt exB 2 exA.2 tB j hj
    exact op_eq_noLink (frD j (by omega) (by omega))
  refine ⟨by omega, by omega, tree_congr exC.1 exD (by omega) 2 exA.2 tCi hDsame, ?_, tD, cD, rD.trans rC, ctD,
    ?_, ?_, ?_⟩
  · rw [expand_congr exC.1 exD rrD 2 exA.2 hDsame, xCi, xB]
  · rw [frD exA.2 (by omega) (by omega), nwC.old exA.2 (by omega)]; exact cB
  · intro j hj
    rw [below_congr exC.1 exD 2 exA.2 hDsame, bCi] at hj
    have := below_lt exB 2 exA.2 tB j hj
    omega
  · intro j hj
    rcases bD j hj with h1 | h1
    · rw [bC] at h1
      simp only [List.mem_singleton] at h1
      omega
    · omega

/-- the example heap is a tree of depth 3 below `top` (depth bound 4), within the fuel of the driver, and its
    count-expanded content is 2 × (measure, 3 × Rx180). -/
theorem exG_tree : TreeBelow exG.1 4 exF.2 ∧ 4 ≤ exG.1.depthFuel ∧ (exG.1.op exF.2).isComp = true ∧
    (exG.1.expand 4 exF.2).Perm
      [exM.sig, exX.sig, exX.sig, exX.sig, exM.sig, exX.sig, exX.sig, exX.sig] := by
  obtain ⟨sD, iC, tDi, xDi, tD, cD, rD, ctD, _, _, _⟩ := exD_facts
  -- mid.add_sub_circuit(inner)
  have hfD : 2 ≤ exD.depthFuel := by unfold World.depthFuel; omega
  have nE := addSub_tree exD 2 exC.2 exA.2 tD cD tDi hfD
  have tE : TreeBelow exE.1 3 exC.2 := nE.1
  have sE : exD.ops.size ≤ exE.1.ops.size := nE.2.1
  have ctE : (exE.1.content 2 exC.2).Perm (exD.content 2 exC.2 ++ exD.expand 2 exA.2) := nE.2.2.2.1
  have cE : (exE.1.op exC.2).isComp = true := nE.2.2.2.2.2.1
  have rE : (exE.1.op exC.2).rep = (exD.op exC.2).rep := nE.2.2.2.2.2.2
  rw [ctD, xDi] at ctE
  have xE : (exE.1.expand 3 exC.2).Perm
      [exM.sig, exX.sig, exX.sig, exX.sig, exM.sig, exX.sig, exX.sig, exX.sig] := by
    rw [expand_comp exE.1 2 exC.2 cE, rE, rD]
    exact Perm.repeatList 2 ctE
  -- top
  have nF := newCircuit_tree exE.1 (.fixed 1) 3
  have iF : exF.2 = exE.1.ops.size := rfl
  have nwF : NoWrite exE.1 exF.1 := nF.2.1
  have sF : exF.1.ops.size = exE.1.ops.size + 1 := nF.2.2.1
  have tF : TreeBelow exF.1 4 exF.2 := nF.2.2.2.1
  have cF : (exF.1.op exF.2).isComp = true := nF.2.2.2.2.1
  have rF : (exF.1.op exF.2).rep = .fixed 1 := nF.2.2.2.2.2.1
  have kF : exF.1.kids exF.2 = [] := nF.2.2.2.2.2.2
  obtain ⟨tFm, _, xFm, _⟩ := nwF.keeps tE
  -- top.add_sub_circuit(mid)
  have hfF : 3 ≤ exF.1.depthFuel := by unfold World.depthFuel; omega
  have nG := addSub_tree exF.1 3 exF.2 exC.2 tF cF tFm hfF
  have tG : TreeBelow exG.1 4 exF.2 := nG.1
  have sG : exF.1.ops.size ≤ exG.1.ops.size := nG.2.1
  have ctG : (exG.1.content 3 exF.2).Perm (exF.1.content 3 exF.2 ++ exF.1.expand 3 exC.2) := nG.2.2.2.1
  have cG : (exG.1.op exF.2).isComp = true := nG.2.2.2.2.2.1
  have rG : (exG.1.op exF.2).rep = (exF.1.op exF.2).rep := nG.2.2.2.2.2.2
  rw [content_of_kids_nil _ _ _ kF, List.nil_append, xFm] at ctG
  refine ⟨tG, by unfold World.depthFuel; omega, cG, ?_⟩
  rw [expand_comp exG.1 3 exF.2 cG, rG, rF]
  have h1 : max 1 (exG.1.repCount (.fixed 1)) = 1 := rfl
  rw [h1, repeatList_one]
  exact ctG.trans xE

/-- `mid` (content [measure]) and `inner` (content [Rx180]) are separate trees of the heap `exD`: the hypotheses of
    `extend_tree`. -/
theorem exD_separate : TreeBelow exD 3 exC.2 ∧ (exD.op exC.2).isComp = true ∧ TreeBelow exD 3 exA.2 ∧
    (exD.op exA.2).isComp = true ∧ (∀ j, j ∈ exD.below 3 exC.2 → j ∉ exD.below 3 exA.2) := by
  obtain ⟨_, _, tDi, _, tD, cD, _, _, cDi, b1, b2⟩ := exD_facts
  obtain ⟨t3, b3, _⟩ := tDi.mono 1
  refine ⟨tD, cD, t3, cDi, ?_⟩
  intro j h1 h2
  rw [b3] at h2
  have := b1 j h2
  have := b2 j h1
  omega

end Qco
