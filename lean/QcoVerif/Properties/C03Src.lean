import QcoVerif.Properties.C03
import QcoVerif.Lemmas.BuilderSrc
import QcoVerif.Lemmas.FacadeSrc
/-
  C03 — tie to the SOURCE TEXT (DESIGN.md §2.3b).  Kept in a file of its own that nothing imports: a change of the translated
  source functions breaks THESE obligations only, not the build of the property files that import Properties/C03.lean.
-/
namespace Qco.C03
open Qco

/-! ### tie to the SOURCE TEXT of the builder (DESIGN.md §2.3b; proofs in Lemmas/BuilderSrc.lean)

`decomposed_operations` (the listing).  The functions act on objects: the fragment records such effects (`Py.callEffects`) instead of executing them. -/

section BuilderSourceTie
open Qco.Py Qco.Gen.PySrc Qco.BuilderSrc

/-- **`decomposed_operations`**: hands the enclosing link to exactly the relation-less nodes (an effect on those operations) and returns the concatenation of the nodes' own decompositions — the step of `World.decomposed`. -/
theorem decomposed_matches_source (nodes : List (Nat × Bool × List Nat)) :
    callFn builderEnv Composite_decomposed [compSelf nodes] = nats ((nodes.map (·.2.2)).flatten) ∧
    callEffects builderEnv Composite_decomposed [compSelf nodes] = decEffects nodes :=
  BuilderSrc.decomposed_matches_source nodes

end BuilderSourceTie



/-! ### the facade `DeclarativeCircuit` as written (Lemmas/FacadeSrc.lean; DESIGN.md §2.3b) -/

section Facade
open Qco.Py Qco.Gen.PySrc Qco.BuilderSrc Qco.FacadeSrc

/-- **`operations`** is the structure's `decomposed_operations()` — nothing kept per wrapper (what seeded change C03-m6 altered). -/
theorem facade_operations_matches_source (ops : Val) (h : ops = .list [.obj "Operation" 7 []]) :
    callFn builderEnv Decl_operations [declObj 1 (stObj 2 [("decomposed_operations()", ops)]) addedObj regObj] = ops ∧
    Decl_operations.decorators = ["property"] :=
  FacadeSrc.operations_matches_source ops h

/-- **`duration`** is the structure's duration. -/
theorem facade_duration_matches_source (d : Int) :
    callFn builderEnv Decl_duration [declObj 1 (stObj 2 [("duration", .int d)]) addedObj regObj] = .int d :=
  FacadeSrc.duration_matches_source d

end Facade

end Qco.C03
