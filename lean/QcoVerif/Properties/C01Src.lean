import QcoVerif.Properties.C01
import QcoVerif.Lemmas.TimingSrc
/-
  C01 — tie to the SOURCE TEXT (DESIGN.md §2.3b).  Kept in a file of its own that nothing imports: a change of the translated
  source functions breaks THESE obligations only, not the build of the property files that import Properties/C01.lean.
-/
namespace Qco.C01
open Qco Qco.C10

/-! ### tie to the SOURCE TEXT (DESIGN.md §2.3b)

`Gen.PySrc.*` is the mini-Python syntax of `RelationLink.get_start_time`, `MultiRelationLink.reference_node / get_start_time`,
`IDurationComponent.end_time`, `IRelationComponent.has_relation`, `CircuitCompositeOperation.start_time / duration`, regenerated
from the source text on every run.  The theorems run the interpreter of Model/PyLang.lean on that syntax and state that it
computes the model's `linkStart`, `pickLatest`, `start + duration`, `has_relation` — the equations `evStart/evEnd/evRef` of
Model/Timing.lean are made of.  The decorators are part of the statement (`relation_link_start_decorated`): a cache that outlives
the query was finding R1. -/

section SourceTie
open Qco.Py Qco.Gen.PySrc Qco.TimingSrc

theorem relation_link_start_matches_source (rel : Rel) (ref : Option (Nat × Int × Int)) (d : Int) :
    callFn {} RelationLink_get_start_time [linkSelf rel ref, .int d] =
      .int (linkStart rel (ref.map (fun r => (r.2.1, r.2.2))) d) := by
  cases ref with
  | none => cases rel <;> py_simp [RelationLink_get_start_time, linkSelf, refVal, relVal, linkStart]
  | some r =>
    obtain ⟨n, s, e⟩ := r
    cases rel <;> py_simp [RelationLink_get_start_time, linkSelf, refVal, relVal, linkStart, nodeObj]

theorem relation_link_start_decorated :
    RelationLink_get_start_time.decorators = ["query_scoped_cache"] ∧
    MultiRelationLink_get_start_time.decorators = ["query_scoped_cache"] ∧
    MultiRelationLink_reference_node.decorators = ["property"] ∧
    IDurationComponent_end_time.decorators = ["property"] := by decide

theorem end_time_matches_source (s d : Int) :
    callFn {} IDurationComponent_end_time [.obj "ICircuitOperation" 0 [("start_time", .int s), ("duration", .int d)]] =
      .int (s + d) := by
  py_simp [IDurationComponent_end_time]

theorem has_relation_matches_source (rel : Rel) (ref : Option (Nat × Int × Int)) :
    callFn {} IRelationComponent_has_relation [.obj "ICircuitOperation" 5 [("relation_link", linkSelf rel ref)]] =
      .bool ref.isSome := by
  cases ref with
  | none => py_simp [IRelationComponent_has_relation, linkSelf, refVal]
  | some r => obtain ⟨n, s, e⟩ := r; py_simp [IRelationComponent_has_relation, linkSelf, refVal, nodeObj]

theorem multi_reference_node_matches_source (rel : Rel) (refs : List (Nat × Int)) :
    callFn {} MultiRelationLink_reference_node [multiSelf rel refs] =
      (match refs with
       | [] => .none
       | r0 :: _ => encNode (pickLatest r0 refs)) := by
  cases refs with
  | nil => py_simp [MultiRelationLink_reference_node, multiSelf]
  | cons r0 rest =>
    have hbodyEq : MultiRelationLink_reference_node.body =
      [.ifs (.cmp .eq (.call "len" [.attr (.name "self") "_reference_nodes"]) (.int 0)) [.ret (.none)] [],
       .assign "latest_node" (.index (.attr (.name "self") "_reference_nodes") 0),
       .for_ "node" (.attr (.name "self") "_reference_nodes")
         [.ifs (.cmp .gt (.attr (.name "node") "end_time") (.attr (.name "latest_node") "end_time"))
            [.assign "latest_node" (.name "node")] []],
       .ret (.name "latest_node")] := rfl
    unfold callFn
    rw [hbodyEq]
    have harity : (MultiRelationLink_reference_node.params.length != [multiSelf rel (r0 :: rest)].length) = false := rfl
    rw [harity]
    -- the two statements before the loop
    have hself : (bindParams MultiRelationLink_reference_node.params [multiSelf rel (r0 :: rest)] []).get "self" =
        multiSelf rel (r0 :: rest) := by simp [MultiRelationLink_reference_node, bindParams, Vars.get, Vars.set]
    generalize hvs0 : bindParams MultiRelationLink_reference_node.params [multiSelf rel (r0 :: rest)] [] = vs0 at hself
    have hnodes : getAttr {} (multiSelf rel (r0 :: rest)) "_reference_nodes" = .list ((r0 :: rest).map encNode) := by
      simp [multiSelf, getAttr, lookupField, encNode]
    have h1 : exec {} vs0 (.ifs (.cmp .eq (.call "len" [.attr (.name "self") "_reference_nodes"]) (.int 0)) [.ret (.none)] []) =
        .cont vs0 := by
      simp only [exec, eval, evalList, hself, hnodes]
      have hlen : (((rest.length : Int) + 1) == 0) = false := by
        rw [beq_eq_false_iff_ne]; omega
      simp [builtin, Val.elems?, evalCmp, Val.beq, Val.truthy, execBlock, hlen]
    have h2 : exec {} vs0 (.assign "latest_node" (.index (.attr (.name "self") "_reference_nodes") 0)) =
        .cont (vs0.set "latest_node" (encNode r0)) := by
      simp only [exec, eval, hself, hnodes]
      simp [indexVal, Val.elems?, encNode, nodeObj, Val.isErr]
    have hself2 : (vs0.set "latest_node" (encNode r0)).get "self" = multiSelf rel (r0 :: rest) := by
      rw [vars_get_set_other _ _ _ _ (by decide)]; exact hself
    have hiter : (eval {} (vs0.set "latest_node" (encNode r0)) (.attr (.name "self") "_reference_nodes")).elems? =
        some ((r0 :: rest).map encNode) := by
      simp only [eval, hself2, hnodes, Val.elems?]
    obtain ⟨vs', hloop, hlatest⟩ := latest_loop _ rfl (r0 :: rest) (vs0.set "latest_node" (encNode r0)) r0
      (vars_get_set_same _ _ _)
    rw [execBlock, h1]
    simp only []
    rw [execBlock, h2]
    simp only []
    rw [show execBlock {} (vs0.set "latest_node" (encNode r0))
        [.for_ "node" (.attr (.name "self") "_reference_nodes")
          [.ifs (.cmp .gt (.attr (.name "node") "end_time") (.attr (.name "latest_node") "end_time"))
            [.assign "latest_node" (.name "node")] []], .ret (.name "latest_node")] = _ from
      execBlock_for _ _ _ _ _ _ _ hiter]
    rw [hloop]
    simp only [execBlock, exec, eval, hlatest, pickLatest]
    simp

theorem multi_start_matches_source (rel : Rel) (ref : Option (Nat × Int × Int)) (d : Int) :
    callFn multiEnv MultiRelationLink_get_start_time [multiSelfR rel ref, .int d] =
      .int (linkStart rel (ref.map (fun r => (r.2.1, r.2.2))) d) := by
  cases ref with
  | none => cases rel <;> py_simp [MultiRelationLink_get_start_time, multiSelfR, multiEnv, refVal, relVal]
  | some r =>
    obtain ⟨n, s, e⟩ := r
    cases rel <;> py_simp [MultiRelationLink_get_start_time, multiSelfR, multiEnv, refVal, relVal, nodeObj]

/-- `CircuitCompositeOperation.start_time = relation_link.get_start_time(duration = self.duration)` and
    `duration = _lead_and_span()[1]`. -/
theorem composite_start_matches_source (lead span start : Int) :
    callFn { method := fun recv m args => match recv, m, args with
              | .obj "Link" _ _, "get_start_time", [.int d] => if d = span then some (.int start) else Option.none
              | _, _, _ => Option.none }
      Composite_start_time [.obj "CircuitCompositeOperation" 0 [("relation_link", .obj "Link" 1 []), ("duration", .int span)]] =
      .int start ∧
    callFn { method := fun _ m args => match m, args with
              | "_lead_and_span", [] => some (.tuple [.int lead, .int span])
              | _, _ => Option.none }
      Composite_duration [.obj "CircuitCompositeOperation" 0 []] = .int span := by
  constructor
  · py_simp [Composite_start_time]
  · py_simp [Composite_duration]

end SourceTie


end Qco.C01
